(* LedgerOrder.v — the positive ORDER and DRAIN theorems of the progress ledger
   (model/Ledger.v) under the no-stale-completion contract, for histories of any length.

   Part 1: the history predicates (declarative, Prop) and their boolean checkers.
   Part 2: generic facts, snoc lemmas for the history functions, what WF (h ++ [o]) says about o.
   Part 3: the invariant INV and its preservation by every step.
   Part 4: the theorems.
   Part 5: checker <-> predicate equivalences (used by the Examples in props/). *)
From Bifrost.model Require Import Base Ledger.
From Bifrost.proofs Require Import LedgerProofs.
From Coq Require Import Sorted.

(* ===================================================================== *)
(* Part 1 — definitions                                                   *)
(* ===================================================================== *)

(* the (transaction, delivery key) an op talks about *)
Definition mention (o : lop) : option (string * string) :=
  match o with
  | OSeen t k _ _ => Some (t, k)
  | OWritten t k _ => Some (t, k)
  | OEmit => None
  end.

Definition mention_at (h : list lop) (i : nat) : option (string * string) :=
  match nth_error h i with Some o => mention o | None => None end.

(* two ops mentioning the same key mention the same transaction *)
Definition key_txn_fun (h : list lop) : Prop :=
  forall o1 o2 t1 t2 k, In o1 h -> In o2 h ->
    mention o1 = Some (t1, k) -> mention o2 = Some (t2, k) -> t1 = t2.

(* no stale completion: per transaction the mentions of each key form one contiguous block *)
Definition no_stale (h : list lop) : Prop :=
  forall i j l t k k', i < j -> j < l ->
    mention_at h i = Some (t, k) -> mention_at h j = Some (t, k') -> mention_at h l = Some (t, k) ->
    k' = k.

(* at most one Seen per key *)
Definition seen_once (h : list lop) : Prop :=
  forall i j t1 t2 k n1 n2 c1 c2,
    nth_error h i = Some (OSeen t1 k n1 c1) -> nth_error h j = Some (OSeen t2 k n2 c2) -> i = j.

Definition commit_nonzero (h : list lop) : Prop :=
  forall t k n c, In (OSeen t k n c) h -> c <> 0%N.

Definition pos_counts (h : list lop) : Prop :=
  forall t k n, In (OWritten t k n) h -> (1 <= n)%Z.

Definition no_over_report (h : list lop) : Prop :=
  forall t k n c, In (OSeen t k n c) h -> (certified k h <= n)%Z.

Definition WF (h : list lop) : Prop :=
  key_txn_fun h /\ no_stale h /\ seen_once h /\ commit_nonzero h /\ pos_counts h /\ no_over_report h.

(* index of the first op mentioning key k (List.length h when there is none) *)
Definition mentions_key (k : string) (o : lop) : bool :=
  match mention o with Some (_, k') => String.eqb k k' | None => false end.

Fixpoint first_pos (k : string) (h : list lop) : nat :=
  match h with
  | [] => 0
  | o :: r => if mentions_key k o then 0 else S (first_pos k r)
  end.

(* k is the delivery the ledger should be tracking for its transaction: some op mentions (t,k)
   and every later op that mentions t mentions it with key k.  (If this holds for some mention of
   k it holds for the last one, so this is "no op after the LAST mention of k mentions the same
   transaction with a different key".) *)
Definition current (k : string) (h : list lop) : Prop :=
  exists i t, mention_at h i = Some (t, k) /\
    forall j k', i < j -> mention_at h j = Some (t, k') -> k' = k.

(* keys released by the Emit ops of the run of h (the run stops at a tracker error, as lrun does) *)
Definition rel_at (l : ledger) (o : lop) : list string :=
  match o with OEmit => map e_key (rel_prefix (items l)) | _ => [] end.

Fixpoint released_from (l : ledger) (h : list lop) : list string :=
  match h with
  | [] => []
  | o :: r => let '(l', x) := lstep l o in
              rel_at l o ++ match x with RError => [] | _ => released_from l' r end
  end.

Definition released_keys (h : list lop) : list string := released_from empty_ledger h.

(* ---------- boolean checkers ---------- *)
Definition key_txn_funb (h : list lop) : bool :=
  forallb (fun o1 => forallb (fun o2 =>
    match mention o1, mention o2 with
    | Some (t1, k1), Some (t2, k2) => negb (String.eqb k1 k2) || String.eqb t1 t2
    | _, _ => true
    end) h) h.

Definition stale_okb (h : list lop) (i j l : nat) : bool :=
  negb (Nat.ltb i j && Nat.ltb j l) ||
  match mention_at h i, mention_at h j, mention_at h l with
  | Some (t1, k1), Some (t2, k2), Some (t3, k3) =>
      negb (String.eqb t1 t2 && String.eqb t1 t3 && String.eqb k1 k3) || String.eqb k2 k1
  | _, _, _ => true
  end.

Definition no_staleb (h : list lop) : bool :=
  let ix := seq 0 (List.length h) in
  forallb (fun i => forallb (fun j => forallb (fun l => stale_okb h i j l) ix) ix) ix.

Definition seen_okb (h : list lop) (i j : nat) : bool :=
  match nth_error h i, nth_error h j with
  | Some (OSeen _ k1 _ _), Some (OSeen _ k2 _ _) => negb (String.eqb k1 k2) || Nat.eqb i j
  | _, _ => true
  end.

Definition seen_onceb (h : list lop) : bool :=
  let ix := seq 0 (List.length h) in
  forallb (fun i => forallb (fun j => seen_okb h i j) ix) ix.

Definition commit_nonzerob (h : list lop) : bool :=
  forallb (fun o => match o with OSeen _ _ _ c => negb (c =? 0)%N | _ => true end) h.

Definition pos_countsb (h : list lop) : bool :=
  forallb (fun o => match o with OWritten _ _ n => (1 <=? n)%Z | _ => true end) h.

Definition no_over_reportb (h : list lop) : bool :=
  forallb (fun o => match o with OSeen _ k n _ => (certified k h <=? n)%Z | _ => true end) h.

Definition wf_hist (h : list lop) : bool :=
  key_txn_funb h && no_staleb h && seen_onceb h && commit_nonzerob h && pos_countsb h &&
  no_over_reportb h.

Definition current_atb (k : string) (h : list lop) (i : nat) : bool :=
  match mention_at h i with
  | Some (t, k0) =>
      String.eqb k0 k &&
      forallb (fun j => negb (Nat.ltb i j) ||
                 match mention_at h j with
                 | Some (t', k') => negb (String.eqb t' t) || String.eqb k' k
                 | None => true
                 end) (seq 0 (List.length h))
  | None => false
  end.

Definition currentb (k : string) (h : list lop) : bool :=
  existsb (current_atb k h) (seq 0 (List.length h)).

(* ===================================================================== *)
(* Part 2 — generic facts and snoc lemmas                                  *)
(* ===================================================================== *)

Section AssocMore.
  Context {V : Type}.
  Lemma aget_aset k' k (v : V) m :
    aget k' (aset k v m) = if String.eqb k' k then Some v else aget k' m.
  Proof.
    induction m as [|[k0 v0] m IH]; simpl.
    - destruct (String.eqb k' k); reflexivity.
    - destruct (String.eqb_spec k k0) as [->|Hne]; simpl.
      + destruct (String.eqb_spec k' k0); reflexivity.
      + rewrite IH. destruct (String.eqb_spec k' k0) as [->|]; [|reflexivity].
        destruct (String.eqb_spec k0 k); [congruence|reflexivity].
  Qed.
  Lemma aget_adel k' k (m : list (string * V)) :
    aget k' (adel k m) = if String.eqb k' k then None else aget k' m.
  Proof.
    induction m as [|[k0 v0] m IH]; simpl.
    - destruct (String.eqb k' k); reflexivity.
    - destruct (String.eqb_spec k k0) as [->|Hne]; simpl.
      + rewrite IH. destruct (String.eqb_spec k' k0); reflexivity.
      + rewrite IH. destruct (String.eqb_spec k' k0) as [->|]; [|reflexivity].
        destruct (String.eqb_spec k0 k); [congruence|reflexivity].
  Qed.
  Lemma aget_app k (m1 m2 : list (string * V)) :
    aget k (m1 ++ m2) = match aget k m1 with Some v => Some v | None => aget k m2 end.
  Proof.
    induction m1 as [|[k0 v0] m1 IH]; simpl; [reflexivity|].
    destruct (String.eqb k k0); auto.
  Qed.
  Lemma aget_none_notin k (m : list (string * V)) : aget k m = None <-> ~ In k (map fst m).
  Proof.
    induction m as [|[k0 v0] m IH]; simpl; [tauto|].
    destruct (String.eqb_spec k k0) as [->|Hne].
    - split; [discriminate|]. intros H; elim H; now left.
    - rewrite IH. split; intros H; [intros [E|E]; [congruence|auto]|intros E; apply H; now right].
  Qed.
  Lemma aget_some_in_keys k (m : list (string * V)) v : aget k m = Some v -> In k (map fst m).
  Proof.
    intros H. destruct (in_dec string_dec k (map fst m)) as [i|n]; [assumption|].
    apply aget_none_notin in n. congruence.
  Qed.
  Lemma in_keys_aget k (m : list (string * V)) : In k (map fst m) -> exists v, aget k m = Some v.
  Proof.
    intros H. destruct (aget k m) as [v|] eqn:E; [eauto|]. apply aget_none_notin in E. contradiction.
  Qed.
  Lemma in_nodup_aget k v (m : list (string * V)) :
    NoDup (map fst m) -> In (k, v) m -> aget k m = Some v.
  Proof.
    induction m as [|[k0 v0] m IH]; simpl; [tauto|].
    intros Hnd [E|Hin].
    - inversion E; subst. now rewrite String.eqb_refl.
    - inversion Hnd; subst. destruct (String.eqb_spec k k0) as [->|Hne]; [|auto].
      elim H1. change k0 with (fst (k0, v)). now apply in_map.
  Qed.
  Lemma keys_aset k (v v0 : V) m : aget k m = Some v0 -> map fst (aset k v m) = map fst m.
  Proof.
    induction m as [|[k1 v1] m IH]; simpl; [discriminate|].
    destruct (String.eqb_spec k k1) as [->|Hne]; simpl; [reflexivity|].
    intros H. now rewrite IH.
  Qed.
  Lemma keys_adel_in k k' (m : list (string * V)) : In k' (map fst (adel k m)) -> In k' (map fst m) /\ k' <> k.
  Proof.
    induction m as [|[k1 v1] m IH]; simpl; [tauto|].
    destruct (String.eqb_spec k k1) as [->|Hne]; simpl.
    - intros H. destruct (IH H). auto.
    - intros [E|H]; [subst; split; auto|]. destruct (IH H). auto.
  Qed.
  Lemma adel_notin k (m : list (string * V)) : ~ In k (map fst m) -> adel k m = m.
  Proof.
    induction m as [|[k1 v1] m IH]; simpl; [reflexivity|].
    intros H. destruct (String.eqb_spec k k1) as [->|Hne]; [elim H; now left|].
    rewrite IH; auto.
  Qed.
  Lemma nodup_keys_adel k (m : list (string * V)) : NoDup (map fst m) -> NoDup (map fst (adel k m)).
  Proof.
    induction m as [|[k1 v1] m IH]; simpl; [auto|].
    intros H. inversion H; subst. destruct (String.eqb k k1); simpl; [auto|].
    constructor; [|auto]. intros Hin. apply keys_adel_in in Hin. tauto.
  Qed.
  Lemma sorted_keys_adel (R : string -> string -> Prop) k (m : list (string * V)) :
    StronglySorted R (map fst m) -> StronglySorted R (map fst (adel k m)).
  Proof.
    induction m as [|[k1 v1] m IH]; simpl; [auto|].
    intros H. apply StronglySorted_inv in H. destruct H as [Hs Hf].
    destruct (String.eqb k k1); simpl; [auto|].
    constructor; [auto|]. rewrite Forall_forall in *. intros x Hx.
    apply keys_adel_in in Hx. apply Hf. tauto.
  Qed.
End AssocMore.

Lemma sorted_ext {A} (R R' : A -> A -> Prop) l :
  (forall x y, In x l -> In y l -> R x y -> R' x y) -> StronglySorted R l -> StronglySorted R' l.
Proof.
  induction l as [|a l IH]; intros Himp H; [constructor|].
  apply StronglySorted_inv in H. destruct H as [Hs Hf]. constructor.
  - apply IH; [|assumption]. intros x y Hx Hy. apply Himp; now right.
  - rewrite Forall_forall in *. intros x Hx. apply Himp; [now left|now right|auto].
Qed.

Lemma sorted_snoc {A} (R : A -> A -> Prop) l a :
  StronglySorted R l -> (forall x, In x l -> R x a) -> StronglySorted R (l ++ [a]).
Proof.
  induction l as [|b l IH]; simpl; intros H Ha; [repeat constructor|].
  apply StronglySorted_inv in H. destruct H as [Hs Hf]. constructor.
  - apply IH; auto.
  - rewrite Forall_forall in *. intros x Hx. apply in_app_or in Hx. destruct Hx as [Hx|[<-|[]]]; auto.
Qed.

Lemma sorted_app_r {A} (R : A -> A -> Prop) l1 l2 :
  StronglySorted R (l1 ++ l2) -> StronglySorted R l2.
Proof.
  induction l1 as [|b l IH]; simpl; [auto|]. intros H. apply StronglySorted_inv in H. tauto.
Qed.

Lemma sorted_app_lt {A} (R : A -> A -> Prop) l1 l2 x y :
  StronglySorted R (l1 ++ l2) -> In x l1 -> In y l2 -> R x y.
Proof.
  induction l1 as [|b l IH]; simpl; [tauto|]. intros H Hx Hy.
  apply StronglySorted_inv in H. destruct H as [Hs Hf]. destruct Hx as [->|Hx]; [|auto].
  rewrite Forall_forall in Hf. apply Hf. apply in_or_app; now right.
Qed.

(* ---------- positions ---------- *)
Lemma mention_at_app1 h o i : i < List.length h -> mention_at (h ++ [o]) i = mention_at h i.
Proof. intros H. unfold mention_at. now rewrite nth_error_app1. Qed.

Lemma mention_at_last h o : mention_at (h ++ [o]) (List.length h) = mention o.
Proof. unfold mention_at. rewrite nth_error_app2, Nat.sub_diag; auto. Qed.

Lemma mention_at_lt h i p : mention_at h i = Some p -> i < List.length h.
Proof.
  unfold mention_at. destruct (nth_error h i) eqn:E; [|discriminate]. intros _.
  apply nth_error_Some. congruence.
Qed.

Lemma mention_at_snoc_cases h o i p :
  mention_at (h ++ [o]) i = Some p ->
  (i < List.length h /\ mention_at h i = Some p) \/ (i = List.length h /\ mention o = Some p).
Proof.
  intros H. pose proof (mention_at_lt _ _ _ H) as L. rewrite app_length in L. simpl in L.
  destruct (Nat.eq_dec i (List.length h)) as [->|Hne].
  - right. now rewrite mention_at_last in H.
  - left. assert (i < List.length h) by lia. now rewrite mention_at_app1 in H.
Qed.

Lemma mention_at_in h i p : mention_at h i = Some p -> exists o, In o h /\ mention o = Some p.
Proof.
  unfold mention_at. destruct (nth_error h i) eqn:E; [|discriminate]. intros H.
  exists l. split; [eapply nth_error_In; eauto|auto].
Qed.

Lemma in_mention_at h o p : In o h -> mention o = Some p -> exists i, mention_at h i = Some p.
Proof.
  intros Hin Hm. destruct (In_nth_error _ _ Hin) as [i Hi]. exists i. unfold mention_at. now rewrite Hi.
Qed.

(* ---------- mentioned / first_pos ---------- *)
Definition mentioned (k : string) (h : list lop) : Prop :=
  exists o t, In o h /\ mention o = Some (t, k).

Lemma mentions_key_true k o : mentions_key k o = true <-> exists t, mention o = Some (t, k).
Proof.
  unfold mentions_key. destruct (mention o) as [[t k']|].
  - destruct (String.eqb_spec k k') as [->|Hne]; split; eauto; try discriminate.
    intros [t' H]. congruence.
  - split; [discriminate|]. intros [t H]. discriminate.
Qed.

Lemma first_pos_le k h : first_pos k h <= List.length h.
Proof. induction h as [|o h IH]; simpl; [lia|]. destruct (mentions_key k o); lia. Qed.

Lemma first_pos_mentioned k h : mentioned k h <-> first_pos k h < List.length h.
Proof.
  induction h as [|o h IH]; simpl.
  - split; [intros (o & t & [] & _)|lia].
  - destruct (mentions_key k o) eqn:E.
    + split; [lia|]. intros _. apply mentions_key_true in E. destruct E as [t Ht].
      exists o, t. split; [now left|auto].
    + split.
      * intros (o' & t & [<-|Hin] & Hm).
        -- assert (mentions_key k o = true) by (apply mentions_key_true; eauto). congruence.
        -- assert (mentioned k h) by (exists o', t; auto). apply IH in H. lia.
      * intros H. assert (Hm : mentioned k h) by (apply IH; lia).
        destruct Hm as (o' & t & Hin & Hm). exists o', t. split; [now right|auto].
Qed.

Lemma first_pos_snoc_old k h o : mentioned k h -> first_pos k (h ++ [o]) = first_pos k h.
Proof.
  induction h as [|o' h IH]; simpl.
  - intros (x & t & [] & _).
  - intros Hm. destruct (mentions_key k o') eqn:E; [reflexivity|].
    rewrite IH; [reflexivity|]. destruct Hm as (x & t & [<-|Hin] & Hx).
    + assert (mentions_key k o' = true) by (apply mentions_key_true; eauto). congruence.
    + exists x, t; auto.
Qed.

Lemma first_pos_snoc_new k h o t :
  ~ mentioned k h -> mention o = Some (t, k) -> first_pos k (h ++ [o]) = List.length h.
Proof.
  intros Hn Hm. induction h as [|o' h IH]; simpl.
  - assert (mentions_key k o = true) by (apply mentions_key_true; eauto). now rewrite H.
  - destruct (mentions_key k o') eqn:E.
    + elim Hn. apply mentions_key_true in E. destruct E as [t' E]. exists o', t'. split; [now left|auto].
    + rewrite IH; [reflexivity|]. intros (x & t' & Hin & Hx). apply Hn. exists x, t'. split; [now right|auto].
Qed.

Lemma mentioned_snoc k h o : mentioned k h -> mentioned k (h ++ [o]).
Proof. intros (x & t & Hin & Hx). exists x, t. split; [apply in_or_app; now left|auto]. Qed.

(* ---------- certified ---------- *)
Lemma certified_not_mentioned k h : ~ mentioned k h -> certified k h = 0%Z.
Proof.
  unfold certified. induction h as [|o h IH]; simpl; [reflexivity|]. intros Hn.
  unfold sum_Z in *. simpl. rewrite IH.
  - destruct o as [t k' n c|t k' n|]; try reflexivity.
    destruct (String.eqb_spec k k') as [->|Hne]; [|reflexivity].
    elim Hn. exists (OWritten t k' n), t. split; [now left|reflexivity].
  - intros (x & t & Hin & Hx). apply Hn. exists x, t. split; [now right|auto].
Qed.

Lemma certified_one_written k t k' n :
  certified k [OWritten t k' n] = if String.eqb k k' then n else 0%Z.
Proof. unfold certified, sum_Z. simpl. destruct (String.eqb k k'); lia. Qed.
Lemma certified_one_seen k t k' n c : certified k [OSeen t k' n c] = 0%Z.
Proof. reflexivity. Qed.
Lemma certified_one_emit k : certified k [OEmit] = 0%Z.
Proof. reflexivity. Qed.

Lemma certified_snoc_other k h o :
  (forall t, mention o <> Some (t, k)) -> certified k (h ++ [o]) = certified k h.
Proof.
  intros Hm. rewrite certified_app. destruct o as [t k' n c|t k' n|]; try (simpl; lia).
  - rewrite certified_one_seen. lia.
  - rewrite certified_one_written. destruct (String.eqb_spec k k') as [->|Hne]; [|lia].
    elim (Hm t). reflexivity.
  - rewrite certified_one_emit. lia.
Qed.

(* ---------- the key the ledger should be tracking for transaction t ---------- *)
Fixpoint cur_rev (t : string) (hr : list lop) : option string :=
  match hr with
  | [] => None
  | o :: r => match mention o with
              | Some (t', k) => if String.eqb t' t then Some k else cur_rev t r
              | None => cur_rev t r
              end
  end.
Definition cur_of (t : string) (h : list lop) : option string := cur_rev t (rev h).

Lemma cur_of_snoc t h o :
  cur_of t (h ++ [o]) = match mention o with
                        | Some (t', k) => if String.eqb t' t then Some k else cur_of t h
                        | None => cur_of t h
                        end.
Proof. unfold cur_of. rewrite rev_unit. reflexivity. Qed.

Lemma cur_of_spec t k h :
  cur_of t h = Some k <->
  exists i, mention_at h i = Some (t, k) /\
            forall j t' k', i < j -> mention_at h j = Some (t', k') -> t' <> t.
Proof.
  induction h as [|o h IH] using rev_ind.
  - split; [discriminate|]. intros (i & H & _). unfold mention_at in H. destruct i; discriminate.
  - rewrite cur_of_snoc. destruct (mention o) as [[t' k']|] eqn:Hm.
    + destruct (String.eqb_spec t' t) as [->|Hne].
      * split.
        -- intros E. inversion E; subst. exists (List.length h). split.
           ++ now rewrite mention_at_last.
           ++ intros j t' k'' Hlt Hj. apply mention_at_lt in Hj. rewrite app_length in Hj. simpl in Hj. lia.
        -- intros (i & Hi & Hlast). apply mention_at_snoc_cases in Hi.
           destruct Hi as [[Hlt Hi]|[-> Hi]]; [|congruence].
           exfalso. apply (Hlast (List.length h) t k' Hlt); [|reflexivity].
           now rewrite mention_at_last.
      * rewrite IH. split.
        -- intros (i & Hi & Hlast). pose proof (mention_at_lt _ _ _ Hi) as Hlt. exists i. split.
           ++ now rewrite mention_at_app1.
           ++ intros j t'' k'' Hij Hj. apply mention_at_snoc_cases in Hj.
              destruct Hj as [[_ Hj]|[_ Hj]]; [eauto|congruence].
        -- intros (i & Hi & Hlast). apply mention_at_snoc_cases in Hi.
           destruct Hi as [[Hlt Hi]|[-> Hi]]; [|congruence].
           exists i. split; [assumption|]. intros j t'' k'' Hij Hj.
           apply (Hlast j t'' k'' Hij). rewrite mention_at_app1; [assumption|].
           eapply mention_at_lt; eauto.
    + rewrite IH. split.
      * intros (i & Hi & Hlast). pose proof (mention_at_lt _ _ _ Hi) as Hlt. exists i. split.
        -- now rewrite mention_at_app1.
        -- intros j t'' k'' Hij Hj. apply mention_at_snoc_cases in Hj.
           destruct Hj as [[_ Hj]|[_ Hj]]; [eauto|congruence].
      * intros (i & Hi & Hlast). apply mention_at_snoc_cases in Hi.
        destruct Hi as [[Hlt Hi]|[-> Hi]]; [|congruence].
        exists i. split; [assumption|]. intros j t'' k'' Hij Hj.
        apply (Hlast j t'' k'' Hij). rewrite mention_at_app1; [assumption|].
        eapply mention_at_lt; eauto.
Qed.

Lemma cur_of_some_of_mention t k h i : mention_at h i = Some (t, k) -> exists k', cur_of t h = Some k'.
Proof.
  revert i. induction h as [|o h IH] using rev_ind; intros i Hi.
  - unfold mention_at in Hi. destruct i; discriminate.
  - rewrite cur_of_snoc. apply mention_at_snoc_cases in Hi. destruct Hi as [[_ Hi]|[_ Hi]].
    + destruct (IH _ Hi) as [k' Hk']. rewrite Hk'.
      destruct (mention o) as [[t' k'']|]; [|eauto]. destruct (String.eqb t' t); eauto.
    + rewrite Hi, String.eqb_refl. eauto.
Qed.

Lemma cur_of_mentioned t k h : cur_of t h = Some k -> exists o, In o h /\ mention o = Some (t, k).
Proof. intros H. apply cur_of_spec in H. destruct H as (i & Hi & _). eapply mention_at_in; eauto. Qed.

Lemma current_cur_of k h : current k h <-> exists t, cur_of t h = Some k.
Proof.
  split.
  - intros (i & t & Hi & Hlater). exists t.
    destruct (cur_of_some_of_mention _ _ _ _ Hi) as [k2 Hk2]. rewrite Hk2. f_equal.
    pose proof Hk2 as Hs. apply cur_of_spec in Hs. destruct Hs as (i2 & Hi2 & Hlast).
    destruct (Nat.lt_trichotomy i i2) as [Hlt|[->|Hgt]].
    + apply (Hlater i2 k2 Hlt Hi2).
    + congruence.
    + exfalso. apply (Hlast i t k Hgt Hi). reflexivity.
  - intros [t H]. apply cur_of_spec in H. destruct H as (i & Hi & Hlast).
    exists i, t. split; [assumption|]. intros j k' Hij Hj. exfalso. eapply Hlast; eauto.
Qed.

(* ---------- WF is prefix closed; what WF (h ++ [o]) says about o ---------- *)
Lemma pos_nonneg h : pos_counts h -> nonneg_counts h.
Proof. intros H t k n Hin. specialize (H t k n Hin). lia. Qed.

Lemma WF_nonneg h : WF h -> nonneg_counts h.
Proof. intros (_ & _ & _ & _ & H & _). now apply pos_nonneg. Qed.

Lemma nth_error_snoc_old {A} (h : list A) o i x : nth_error h i = Some x -> nth_error (h ++ [o]) i = Some x.
Proof.
  intros H. rewrite nth_error_app1; [assumption|]. apply nth_error_Some. congruence.
Qed.

Lemma mention_at_snoc_old h o i p : mention_at h i = Some p -> mention_at (h ++ [o]) i = Some p.
Proof. intros H. rewrite mention_at_app1; [assumption|]. eapply mention_at_lt; eauto. Qed.

Lemma WF_snoc h o : WF (h ++ [o]) -> WF h.
Proof.
  intros (Hk & Hs & Hso & Hc & Hp & Ho). repeat split.
  - intros o1 o2 t1 t2 k H1 H2. apply Hk; apply in_or_app; now left.
  - intros i j l t k k' Hij Hjl Hi Hj Hl.
    apply (Hs i j l t k k' Hij Hjl); now apply mention_at_snoc_old.
  - intros i j t1 t2 k n1 n2 c1 c2 Hi Hj.
    apply (Hso i j t1 t2 k n1 n2 c1 c2); now apply nth_error_snoc_old.
  - intros t k n c Hin. apply (Hc t k n c). apply in_or_app; now left.
  - intros t k n Hin. apply (Hp t k n). apply in_or_app; now left.
  - intros t k n c Hin.
    assert (Hin' : In (OSeen t k n c) (h ++ [o])) by (apply in_or_app; now left).
    specialize (Ho t k n c Hin'). rewrite certified_app in Ho.
    pose proof (certified_nonneg k [o] (nonneg_last _ _ (pos_nonneg _ Hp))). lia.
Qed.

Lemma WF_key_txn h o t k o' t' :
  WF (h ++ [o]) -> mention o = Some (t, k) -> In o' h -> mention o' = Some (t', k) -> t' = t.
Proof.
  intros (Hk & _) Hm Hin Hm'. apply (Hk o' o t' t k); auto.
  - apply in_or_app; now left.
  - apply in_or_app; right; now left.
Qed.

(* the heart of the no-stale contract: an op may only mention the key the ledger is tracking
   for its transaction, or a key never mentioned before *)
Lemma WF_fresh h o t k :
  WF (h ++ [o]) -> mention o = Some (t, k) -> cur_of t h <> Some k -> ~ mentioned k h.
Proof.
  intros HW Hm Hcur (o' & t' & Hin & Hm').
  assert (t' = t) by (eapply WF_key_txn; eauto). subst t'.
  destruct (in_mention_at _ _ _ Hin Hm') as [i Hi].
  destruct (cur_of_some_of_mention _ _ _ _ Hi) as [v Hv].
  pose proof Hv as Hsp. apply cur_of_spec in Hsp. destruct Hsp as (j & Hj & Hlast).
  destruct HW as (_ & Hs & _).
  destruct (Nat.lt_trichotomy i j) as [Hlt|[->|Hgt]].
  - assert (v = k).
    { apply (Hs i j (List.length h) t k v Hlt).
      - eapply mention_at_lt; eauto.
      - now apply mention_at_snoc_old.
      - now apply mention_at_snoc_old.
      - now rewrite mention_at_last. }
    subst v. contradiction.
  - rewrite Hi in Hj. inversion Hj; subst. contradiction.
  - apply (Hlast i t k Hgt Hi). reflexivity.
Qed.

Lemma WF_seen_new h t k n c :
  WF (h ++ [OSeen t k n c]) -> forall t' n' c', ~ In (OSeen t' k n' c') h.
Proof.
  intros (_ & _ & Hso & _) t' n' c' Hin. destruct (In_nth_error _ _ Hin) as [i Hi].
  assert (Hlt : i < List.length h) by (apply nth_error_Some; congruence).
  assert (i = List.length h); [|lia].
  apply (Hso i (List.length h) t' t k n' n c' c).
  - now apply nth_error_snoc_old.
  - rewrite nth_error_app2, Nat.sub_diag; auto.
Qed.

(* a delivery that is seen and fully written is never mentioned again *)
Lemma WF_done_silent h o t' k n c :
  WF (h ++ [o]) -> In (OSeen t' k n c) h -> certified k h = n -> forall t, mention o <> Some (t, k).
Proof.
  intros HW Hin Hcert t Hm. destruct o as [t0 k0 n0 c0|t0 k0 n0|]; simpl in Hm; inversion Hm; subst.
  - eapply WF_seen_new; eauto.
  - destruct HW as (_ & _ & _ & _ & Hp & Ho).
    assert (1 <= n0)%Z by (apply (Hp t k n0); apply in_or_app; right; now left).
    assert (Hin' : In (OSeen t' k (certified k h) c) (h ++ [OWritten t k n0])) by (apply in_or_app; now left).
    specialize (Ho _ _ _ _ Hin'). rewrite certified_app, certified_one_written, String.eqb_refl in Ho. lia.
Qed.

(* ---------- runs ---------- *)
Lemma Reach_lrun h l : Reach h l -> exists rs, lrun empty_ledger h = (l, rs) /\ ~ In RError rs.
Proof.
  induction 1 as [|h l o l' x HR IH Hs Hx].
  - exists []. split; [reflexivity|intros []].
  - destruct IH as (rs & Hrun & Hne).
    exists (rs ++ [x]). split.
    + rewrite lrun_app by (rewrite Hrun; exact Hne). rewrite Hrun. simpl. rewrite Hs.
      destruct x; reflexivity.
    + intros Hin. apply in_app_or in Hin. destruct Hin as [Hin|[E|[]]]; [auto|congruence].
Qed.

Lemma released_from_snoc o : forall h l0 l rs,
  lrun l0 h = (l, rs) -> ~ In RError rs ->
  released_from l0 (h ++ [o]) = released_from l0 h ++ rel_at l o.
Proof.
  induction h as [|o1 h IH]; intros l0 l rs Hrun Hne; simpl in *.
  - inversion Hrun; subst. destruct (lstep l o) as [l' x]. destruct x; now rewrite app_nil_r.
  - destruct (lstep l0 o1) as [l1 x]. destruct x.
    + destruct (lrun l1 h) as [l2 xs] eqn:Hr. inversion Hrun; subst.
      rewrite (IH l1 l xs); [now rewrite app_assoc|exact Hr|]. intros Hin; apply Hne; now right.
    + destruct (lrun l1 h) as [l2 xs] eqn:Hr. inversion Hrun; subst.
      rewrite (IH l1 l xs); [now rewrite app_assoc|exact Hr|]. intros Hin; apply Hne; now right.
    + inversion Hrun; subst. elim Hne. now left.
Qed.

Lemma released_keys_snoc h l o : Reach h l -> released_keys (h ++ [o]) = released_keys h ++ rel_at l o.
Proof.
  intros HR. destruct (Reach_lrun _ _ HR) as (rs & Hrun & Hne).
  unfold released_keys. eapply released_from_snoc; eauto.
Qed.

(* ===================================================================== *)
(* Part 3 — the invariant                                                  *)
(* ===================================================================== *)

(* what an entry for key k must say after history h *)
Definition Dent (h : list lop) (k : string) (e : entry) : Prop :=
  e_count e = certified k h /\
  (e_commit e <> 0%N -> In (OSeen (e_txn e) k (e_total e) (e_commit e)) h) /\
  (e_commit e = 0%N -> forall t n c, ~ In (OSeen t k n c) h).

(* idx / items consistency (history independent) *)
Record Struct (l : ledger) : Prop := {
  st_nodup : NoDup (map fst (items l));
  st_key : forall k e, aget k (items l) = Some e -> e_key e = k;
  st_idx_item : forall t k, aget t (idx l) = Some k ->
                  exists e, aget k (items l) = Some e /\ e_txn e = t;
  st_item_idx : forall k e, aget k (items l) = Some e -> aget (e_txn e) (idx l) = Some k }.

(* the index tracks, for transaction t, exactly its current delivery unless already released *)
Definition Tracks (h : list lop) (l : ledger) (t : string) : Prop :=
  forall k, aget t (idx l) = Some k <-> (cur_of t h = Some k /\ ~ In k (released_keys h)).

Definition fp_lt (h : list lop) (a b : string) : Prop := first_pos a h < first_pos b h.

Definition DoneRel (h : list lop) : Prop :=
  forall k, In k (released_keys h) -> exists t n c, In (OSeen t k n c) h /\ certified k h = n.

Record INV (h : list lop) (l : ledger) : Prop := {
  inv_struct : Struct l;
  inv_tracks : forall t, Tracks h l t;
  inv_sorted : StronglySorted (fp_lt h) (map fst (items l));
  inv_ent : forall k e, aget k (items l) = Some e -> Dent h k e;
  inv_rel : DoneRel h }.

(* the state after the supersede prologue when the mentioned key is new: transaction t is
   not tracked, everything else as before *)
Record PRE (t : string) (h : list lop) (l : ledger) : Prop := {
  pre_struct : Struct l;
  pre_none : aget t (idx l) = None;
  pre_tracks : forall t', t' <> t -> Tracks h l t';
  pre_sorted : StronglySorted (fp_lt h) (map fst (items l));
  pre_ent : forall k e, aget k (items l) = Some e -> Dent h k e;
  pre_rel : DoneRel h }.

Lemma struct_remove l k0 e0 :
  Struct l -> aget k0 (items l) = Some e0 ->
  let l' := mkLedger (adel k0 (items l)) (adel (e_txn e0) (idx l)) in
  Struct l' /\ (forall t k, aget t (idx l') = Some k <-> (aget t (idx l) = Some k /\ k <> k0)).
Proof.
  intros [Hnd Hkey Hii Hit] H0. cbv zeta.
  assert (Hchar : forall t k, aget t (adel (e_txn e0) (idx l)) = Some k <-> (aget t (idx l) = Some k /\ k <> k0)).
  { intros t k. rewrite aget_adel. destruct (String.eqb_spec t (e_txn e0)) as [->|Hne].
    - split; [discriminate|]. intros [H Hk]. apply Hit in H0. congruence.
    - split; [|tauto]. intros H. split; [assumption|]. intros ->.
      destruct (Hii _ _ H) as (e & He & Ht). congruence. }
  split; [|exact Hchar]. constructor; simpl.
  - now apply nodup_keys_adel.
  - intros k e. rewrite aget_adel. destruct (String.eqb k k0); [discriminate|auto].
  - intros t k H. apply Hchar in H. destruct H as [H Hk]. destruct (Hii _ _ H) as (e & He & Ht).
    exists e. split; [|assumption]. rewrite aget_adel.
    destruct (String.eqb_spec k k0); [contradiction|assumption].
  - intros k e. rewrite aget_adel. destruct (String.eqb_spec k k0) as [->|Hne]; [discriminate|].
    intros H. apply Hchar. split; [auto|assumption].
Qed.

Lemma INV_item_mentioned h l k e : INV h l -> aget k (items l) = Some e -> mentioned k h.
Proof.
  intros [Hs Ht _ _ _] H. apply (st_item_idx _ Hs) in H. apply Ht in H. destruct H as [H _].
  destruct (cur_of_mentioned _ _ _ H) as (o & Hin & Hm). exists o, (e_txn e). auto.
Qed.

Lemma PRE_item_mentioned t h l k e : PRE t h l -> aget k (items l) = Some e -> mentioned k h.
Proof.
  intros [Hs Hn Ht _ _ _] H. apply (st_item_idx _ Hs) in H.
  assert (e_txn e <> t) by (intros E; rewrite E in H; congruence).
  apply (Ht _ H0) in H. destruct H as [H _].
  destruct (cur_of_mentioned _ _ _ H) as (o & Hin & Hm). exists o, (e_txn e). auto.
Qed.

Lemma DoneRel_mentioned h k : DoneRel h -> In k (released_keys h) -> mentioned k h.
Proof. intros HD Hin. destruct (HD k Hin) as (t & n & c & Hs & _). exists (OSeen t k n c), t. auto. Qed.

Lemma rel_at_mention l o p : mention o = Some p -> rel_at l o = [].
Proof. destruct o; simpl; [reflexivity|reflexivity|discriminate]. Qed.

(* ---------- transfer lemmas h -> h ++ [o] ---------- *)
Lemma DoneRel_snoc h o :
  WF (h ++ [o]) -> released_keys (h ++ [o]) = released_keys h -> DoneRel h -> DoneRel (h ++ [o]).
Proof.
  intros HW Hr HD k Hin. rewrite Hr in Hin. destruct (HD k Hin) as (t & n & c & Hs & Hc).
  exists t, n, c. split; [apply in_or_app; now left|].
  rewrite certified_snoc_other; [assumption|]. eapply WF_done_silent; eauto.
Qed.

Lemma Dent_snoc h o k e : (forall t, mention o <> Some (t, k)) -> Dent h k e -> Dent (h ++ [o]) k e.
Proof.
  intros Hm (Hc & Hs & Hz). repeat split.
  - now rewrite certified_snoc_other.
  - intros H. apply in_or_app; left; auto.
  - intros H t n c Hin. apply in_app_or in Hin. destruct Hin as [Hin|[->|[]]].
    + eapply Hz; eauto.
    + apply (Hm t). reflexivity.
Qed.

Lemma sorted_snoc_hist h o ks :
  (forall x, In x ks -> mentioned x h) ->
  StronglySorted (fp_lt h) ks -> StronglySorted (fp_lt (h ++ [o])) ks.
Proof.
  intros Hm. apply sorted_ext. intros x y Hx Hy. unfold fp_lt.
  rewrite !first_pos_snoc_old; auto.
Qed.

Lemma nodup_snoc {A} (l : list A) a : NoDup l -> ~ In a l -> NoDup (l ++ [a]).
Proof.
  induction l as [|b l IH]; simpl; intros Hnd Hn; [repeat constructor; auto|].
  inversion Hnd; subst. constructor.
  - intros Hin. apply in_app_or in Hin. destruct Hin as [Hin|[->|[]]]; [contradiction|]. apply Hn; now left.
  - apply IH; auto.
Qed.

(* ---------- the supersede prologue ---------- *)
Lemma supersede_cases h l o t k :
  INV h l -> WF (h ++ [o]) -> mention o = Some (t, k) ->
  (supersede t k l = l /\ aget t (idx l) = Some k) \/
  (~ mentioned k h /\ PRE t h (supersede t k l) /\ aget k (items (supersede t k l)) = None).
Proof.
  intros HI HW Hm. pose proof HI as [Hs Ht Hso He Hr]. unfold supersede.
  destruct (aget t (idx l)) as [v|] eqn:Hidx.
  - destruct (String.eqb_spec v k) as [->|Hne]; [left; auto|right].
    pose proof (proj1 (Ht t v) Hidx) as [Hcur Hnr].
    assert (Hnm : ~ mentioned k h) by (eapply WF_fresh; eauto; congruence).
    destruct (st_idx_item _ Hs _ _ Hidx) as (e0 & He0 & Ht0). subst t.
    destruct (struct_remove l v e0 Hs He0) as [Hs' Hchar]. cbv zeta in *.
    split; [assumption|]. split.
    + constructor; simpl.
      * exact Hs'.
      * rewrite aget_adel, String.eqb_refl. reflexivity.
      * intros t' Hne'. unfold Tracks. simpl. intros k'. rewrite aget_adel.
        destruct (String.eqb_spec t' (e_txn e0)); [contradiction|]. apply Ht.
      * now apply sorted_keys_adel.
      * intros k' e. rewrite aget_adel. destruct (String.eqb k' v); [discriminate|auto].
      * exact Hr.
    + simpl. rewrite aget_adel. destruct (String.eqb k v); [reflexivity|].
      destruct (aget k (items l)) as [e|] eqn:E; [|reflexivity].
      elim Hnm. eapply INV_item_mentioned; eauto.
  - right.
    assert (Hcur : cur_of t h <> Some k).
    { intros Hcur. destruct (in_dec string_dec k (released_keys h)) as [Hin|Hnin].
      - destruct (Hr k Hin) as (t' & n & c & Hseen & Hcert).
        eapply WF_done_silent; eauto.
      - assert (aget t (idx l) = Some k) by (apply Ht; auto). congruence. }
    assert (Hnm : ~ mentioned k h) by (eapply WF_fresh; eauto).
    split; [assumption|]. split.
    + constructor; auto.
    + destruct (aget k (items l)) as [e|] eqn:E; [|reflexivity].
      elim Hnm. eapply INV_item_mentioned; eauto.
Qed.

(* ---------- the two ways an update finishes ---------- *)
Lemma step_inplace h l o t k e e' :
  INV h l -> WF (h ++ [o]) -> Reach h l -> mention o = Some (t, k) ->
  aget t (idx l) = Some k -> aget k (items l) = Some e ->
  e_txn e' = e_txn e -> e_key e' = e_key e -> Dent (h ++ [o]) k e' ->
  INV (h ++ [o]) (mkLedger (aset k e' (items l)) (idx l)).
Proof.
  intros HI HW HR Hm Hidx Hit Htx Hky Hd. pose proof HI as [Hs Ht Hso He Hr].
  assert (Hrel : released_keys (h ++ [o]) = released_keys h).
  { rewrite (released_keys_snoc h l o HR), (rel_at_mention _ _ _ Hm). apply app_nil_r. }
  constructor; simpl.
  - destruct Hs as [Hnd Hkey Hii Hiti]. constructor; simpl.
    + now rewrite (keys_aset k e' e _ Hit).
    + intros k0 e0. rewrite aget_aset. destruct (String.eqb_spec k0 k) as [->|Hne]; [|auto].
      intros E; inversion E; subst. rewrite Hky. auto.
    + intros t0 k0 H. destruct (Hii _ _ H) as (e0 & He0 & Ht0). rewrite aget_aset.
      destruct (String.eqb_spec k0 k) as [->|Hne]; [|eauto].
      exists e'. split; [reflexivity|]. congruence.
    + intros k0 e0. rewrite aget_aset. destruct (String.eqb_spec k0 k) as [->|Hne]; [|auto].
      intros E; inversion E; subst. rewrite Htx. auto.
  - intros t0. unfold Tracks. simpl. intros k0. rewrite Hrel, cur_of_snoc, Hm.
    destruct (String.eqb_spec t t0) as [<-|Hne]; [|apply Ht].
    rewrite Hidx. split.
    + intros E; inversion E; subst. split; [reflexivity|]. apply (Ht t k0). assumption.
    + intros [E _]. assumption.
  - rewrite (keys_aset k e' e _ Hit). apply sorted_snoc_hist; [|assumption].
    intros x Hx. destruct (in_keys_aget _ _ Hx) as [ex Hex]. eapply INV_item_mentioned; eauto.
  - intros k0 e0. rewrite aget_aset. destruct (String.eqb_spec k0 k) as [->|Hne].
    + intros E; inversion E; subst. assumption.
    + intros H. apply Dent_snoc; [|auto]. intros t0 E. rewrite Hm in E. congruence.
  - now apply DoneRel_snoc.
Qed.

Lemma step_append h l1 o t k e' :
  PRE t h l1 -> WF (h ++ [o]) -> mention o = Some (t, k) ->
  released_keys (h ++ [o]) = released_keys h ->
  ~ mentioned k h -> aget k (items l1) = None ->
  e_txn e' = t -> e_key e' = k -> Dent (h ++ [o]) k e' ->
  INV (h ++ [o]) (mkLedger (items l1 ++ [(k, e')]) (aset t k (idx l1))).
Proof.
  intros HP HW Hm Hrel Hnm Hnone Htx Hky Hd. pose proof HP as [Hs Hn Ht Hso He Hr].
  constructor; simpl.
  - destruct Hs as [Hnd Hkey Hii Hiti]. constructor; simpl.
    + rewrite map_app. simpl. apply nodup_snoc; [assumption|]. now apply aget_none_notin.
    + intros k0 e0. rewrite aget_app. destruct (aget k0 (items l1)) as [e1|] eqn:E1.
      * intros [= ->]. auto.
      * simpl. destruct (String.eqb_spec k0 k) as [->|Hne]; [|discriminate].
        intros [= <-]. assumption.
    + intros t0 k0. rewrite aget_aset. destruct (String.eqb_spec t0 t) as [->|Hne].
      * intros [= <-]. exists e'. split; [|assumption].
        rewrite aget_app, Hnone. simpl. now rewrite String.eqb_refl.
      * intros H. destruct (Hii _ _ H) as (e0 & He0 & Ht0). exists e0. split; [|assumption].
        now rewrite aget_app, He0.
    + intros k0 e0. rewrite aget_app, aget_aset. destruct (aget k0 (items l1)) as [e1|] eqn:E1.
      * intros [= ->]. pose proof (Hiti _ _ E1) as H.
        destruct (String.eqb_spec (e_txn e0) t) as [Heq|Hne]; [|assumption].
        rewrite Heq in H. congruence.
      * simpl. destruct (String.eqb_spec k0 k) as [->|Hne]; [|discriminate].
        intros [= <-]. now rewrite Htx, String.eqb_refl.
  - intros t0. unfold Tracks. simpl. intros k0. rewrite Hrel, cur_of_snoc, Hm, aget_aset.
    destruct (String.eqb_spec t0 t) as [->|Hne].
    + rewrite String.eqb_refl. split.
      * intros [= <-]. split; [reflexivity|].
        intros Hin. apply Hnm. eapply DoneRel_mentioned; eauto.
      * intros [E _]. assumption.
    + destruct (String.eqb_spec t t0); [congruence|]. now apply Ht.
  - rewrite map_app. simpl. apply sorted_snoc.
    + apply sorted_snoc_hist; [|assumption].
      intros x Hx. destruct (in_keys_aget _ _ Hx) as [ex Hex]. eapply PRE_item_mentioned; eauto.
    + intros x Hx. destruct (in_keys_aget _ _ Hx) as [ex Hex].
      assert (Hmx : mentioned x h) by (eapply PRE_item_mentioned; eauto).
      unfold fp_lt. rewrite (first_pos_snoc_old _ _ _ Hmx), (first_pos_snoc_new _ _ _ _ Hnm Hm).
      now apply first_pos_mentioned.
  - intros k0 e0. rewrite aget_app. destruct (aget k0 (items l1)) as [e1|] eqn:E1.
    + intros [= ->]. apply Dent_snoc; [|auto].
      intros t0 Hm0. rewrite Hm in Hm0. injection Hm0 as _ Hk0. congruence.
    + simpl. destruct (String.eqb_spec k0 k) as [->|Hne]; [|discriminate].
      intros [= <-]. assumption.
  - now apply DoneRel_snoc.
Qed.

(* ---------- emission ---------- *)
Lemma emit_spec l :
  emit l = (match rel_prefix (items l) with
            | [] => None
            | p => Some (e_commit (last p (mkEntry "" "" 0 0 0)))
            end, fold_left remove_entry (rel_prefix (items l)) l).
Proof. unfold emit. destruct (rel_prefix (items l)); reflexivity. Qed.

Lemma rel_prefix_split its :
  exists its1 its2, its = its1 ++ its2 /\ rel_prefix its = map snd its1 /\
    (forall k e, In (k, e) its1 -> releasable e = true) /\
    match its2 with [] => True | (_, e) :: _ => releasable e = false end.
Proof.
  induction its as [|[k e] its IH].
  - exists [], []. simpl. tauto.
  - simpl. destruct (releasable e) eqn:Hr.
    + destruct IH as (its1 & its2 & -> & Hp & Hall & Hhd).
      exists ((k, e) :: its1), its2. simpl. rewrite Hp.
      split; [reflexivity|]. split; [reflexivity|]. split; [|assumption].
      intros k' e' [E|Hin]; [congruence|eauto].
    + exists [], ((k, e) :: its). simpl.
      split; [reflexivity|]. split; [reflexivity|]. split; [|assumption]. intros k' e' [].
Qed.

Lemma fold_remove_prefix : forall its1 its2 l,
  Struct l -> items l = its1 ++ its2 ->
  let l' := fold_left remove_entry (map snd its1) l in
  Struct l' /\ items l' = its2 /\
  (forall t k, aget t (idx l') = Some k <-> (aget t (idx l) = Some k /\ ~ In k (map fst its1))).
Proof.
  induction its1 as [|[k0 e0] its1 IH]; intros its2 l Hs Hit; cbv zeta; simpl.
  - split; [assumption|]. split; [assumption|]. intros t k. tauto.
  - assert (H0 : aget k0 (items l) = Some e0) by (rewrite Hit; simpl; now rewrite String.eqb_refl).
    assert (Hk0 : e_key e0 = k0) by (eapply st_key; eauto).
    destruct (struct_remove l k0 e0 Hs H0) as [Hs1 Hchar1]. cbv zeta in *.
    assert (Hrem : remove_entry l e0 = mkLedger (adel k0 (items l)) (adel (e_txn e0) (idx l))).
    { unfold remove_entry. rewrite Hk0, H0. reflexivity. }
    rewrite Hrem.
    assert (Hit1 : items (mkLedger (adel k0 (items l)) (adel (e_txn e0) (idx l))) = its1 ++ its2).
    { simpl. rewrite Hit. simpl. rewrite String.eqb_refl. apply adel_notin.
      pose proof (st_nodup _ Hs) as Hnd. rewrite Hit in Hnd. simpl in Hnd. inversion Hnd; subst.
      assumption. }
    destruct (IH its2 _ Hs1 Hit1) as (Hs' & Hit' & Hchar'). cbv zeta in *.
    split; [assumption|]. split; [assumption|].
    intros t k. rewrite Hchar', Hchar1. intuition congruence.
Qed.

Lemma prefix_keys l its1 its2 :
  Struct l -> items l = its1 ++ its2 -> map e_key (map snd its1) = map fst its1.
Proof.
  intros Hs Hit.
  assert (H : forall k e, In (k, e) its1 -> e_key e = k).
  { intros k e Hin. apply (st_key _ Hs). apply in_nodup_aget; [apply (st_nodup _ Hs)|].
    rewrite Hit. apply in_or_app; now left. }
  clear Hit. induction its1 as [|[k e] its1 IH]; simpl; [reflexivity|].
  rewrite (H k e) by now left. f_equal. apply IH. intros k' e' Hin. apply H. now right.
Qed.

Lemma step_emit h l :
  INV h l -> Reach h l -> INV (h ++ [OEmit]) (fold_left remove_entry (rel_prefix (items l)) l).
Proof.
  intros HI HR. pose proof HI as [Hs Ht Hso He Hr].
  destruct (rel_prefix_split (items l)) as (its1 & its2 & Hit & Hp & Hall & _).
  rewrite Hp. destruct (fold_remove_prefix its1 its2 l Hs Hit) as (Hs' & Hit' & Hchar). cbv zeta in *.
  assert (Hrel : released_keys (h ++ [OEmit]) = released_keys h ++ map fst its1).
  { rewrite (released_keys_snoc h l OEmit HR). simpl. rewrite Hp. f_equal. exact (prefix_keys l its1 its2 Hs Hit). }
  assert (Hin_items : forall k e, In (k, e) (items l) -> aget k (items l) = Some e).
  { intros k e. apply in_nodup_aget. apply (st_nodup _ Hs). }
  constructor.
  - assumption.
  - intros t k. rewrite Hchar, Hrel, cur_of_snoc. simpl. rewrite (Ht t k), in_app_iff. tauto.
  - rewrite Hit'. apply sorted_snoc_hist.
    + intros x Hx. assert (Hx' : In x (map fst (items l))).
      { rewrite Hit, map_app. apply in_or_app; now right. }
      destruct (in_keys_aget _ _ Hx') as [ex Hex]. eapply INV_item_mentioned; eauto.
    + rewrite Hit, map_app in Hso. eapply sorted_app_r; eauto.
  - intros k e. rewrite Hit'. intros H. apply aget_in in H.
    apply Dent_snoc; [intros t; discriminate|]. apply He. apply Hin_items.
    rewrite Hit. apply in_or_app; now right.
  - intros k. rewrite Hrel, in_app_iff. intros [Hin|Hin].
    + destruct (Hr k Hin) as (t & n & c & Hseen & Hc). exists t, n, c.
      split; [apply in_or_app; now left|]. rewrite certified_snoc_other; [assumption|]. intros t'; discriminate.
    + apply in_map_iff in Hin. destruct Hin as ([k' e] & Hk & Hin). simpl in Hk. subst k'.
      pose proof (Hall k e Hin) as Hrl. unfold releasable in Hrl. apply andb_true_iff in Hrl.
      destruct Hrl as [Hc Hcnt]. apply negb_true_iff, N.eqb_neq in Hc. apply Z.eqb_eq in Hcnt.
      assert (Hag : aget k (items l) = Some e).
      { apply Hin_items. rewrite Hit. apply in_or_app; now left. }
      destruct (He k e Hag) as (Hcert & Hseen & _).
      exists (e_txn e), (e_total e), (e_commit e). split.
      * apply in_or_app; left; auto.
      * rewrite certified_snoc_other; [congruence|]. intros t'; discriminate.
Qed.

(* ---------- one step ---------- *)
Lemma INV_step h l o l' x :
  WF (h ++ [o]) -> Reach h l -> INV h l -> lstep l o = (l', x) ->
  x <> RError /\ INV (h ++ [o]) l'.
Proof.
  intros HW HR HI Hstep. pose proof HW as (_ & _ & _ & Hcnz & Hpos & _).
  destruct o as [t k n c|t k n|]; simpl in Hstep.
  - (* Seen *)
    assert (Hc : c <> 0%N) by (apply (Hcnz t k n c); apply in_or_app; right; now left).
    assert (Hrel : released_keys (h ++ [OSeen t k n c]) = released_keys h).
    { rewrite (released_keys_snoc h l _ HR). apply app_nil_r. }
    unfold update_seen in Hstep.
    destruct (supersede_cases h l (OSeen t k n c) t k HI HW eq_refl) as [[Hsame Hidx]|(Hnm & HP & Hnone)].
    + rewrite Hsame in Hstep.
      destruct (st_idx_item _ (inv_struct _ _ HI) _ _ Hidx) as (e & He & Hte).
      rewrite He in Hstep. pose proof (inv_ent _ _ HI _ _ He) as (Hcnt & Hseen & Hz).
      destruct (e_commit e =? 0)%N eqn:Hc0.
      * apply N.eqb_eq in Hc0. inversion Hstep; subst l' x. split; [discriminate|].
        eapply step_inplace; eauto; try reflexivity.
        repeat split; simpl.
        -- rewrite certified_app, certified_one_seen. lia.
        -- intros _. apply in_or_app; right. rewrite Hte. now left.
        -- intros E. contradiction.
      * apply N.eqb_neq in Hc0. exfalso. eapply WF_seen_new; eauto.
    + rewrite Hnone in Hstep. inversion Hstep; subst l' x. split; [discriminate|].
      eapply step_append; eauto; try reflexivity.
      repeat split; simpl.
      * rewrite certified_app, certified_one_seen, (certified_not_mentioned _ _ Hnm). reflexivity.
      * intros _. apply in_or_app; right. now left.
      * intros E. contradiction.
  - (* Written *)
    assert (Hrel : released_keys (h ++ [OWritten t k n]) = released_keys h).
    { rewrite (released_keys_snoc h l _ HR). apply app_nil_r. }
    inversion Hstep; subst l' x. split; [discriminate|]. unfold update_written.
    destruct (supersede_cases h l (OWritten t k n) t k HI HW eq_refl) as [[Hsame Hidx]|(Hnm & HP & Hnone)].
    + rewrite Hsame.
      destruct (st_idx_item _ (inv_struct _ _ HI) _ _ Hidx) as (e & He & Hte).
      rewrite He. pose proof (inv_ent _ _ HI _ _ He) as (Hcnt & Hseen & Hz).
      eapply step_inplace; eauto; try reflexivity.
      repeat split; simpl.
      * rewrite certified_app, certified_one_written, String.eqb_refl. lia.
      * intros H. apply in_or_app; left; auto.
      * intros H t' n' c' Hin. apply in_app_or in Hin. destruct Hin as [Hin|[E|[]]]; [|discriminate].
        eapply Hz; eauto.
    + rewrite Hnone.
      eapply step_append; eauto; try reflexivity.
      repeat split; simpl.
      * rewrite certified_app, certified_one_written, String.eqb_refl, (certified_not_mentioned _ _ Hnm). lia.
      * intros H. now elim H.
      * intros _ t' n' c' Hin. apply in_app_or in Hin. destruct Hin as [Hin|[E|[]]]; [|discriminate].
        apply Hnm. exists (OSeen t' k n' c'), t'. auto.
  - (* Emit *)
    rewrite emit_spec in Hstep.
    assert (l' = fold_left remove_entry (rel_prefix (items l)) l /\ x <> RError).
    { destruct (rel_prefix (items l)); inversion Hstep; subst; split; auto; discriminate. }
    destruct H as [-> Hx]. split; [assumption|]. now apply step_emit.
Qed.

Lemma INV_reach h l : WF h -> Reach h l -> INV h l.
Proof.
  intros HW HR. induction HR as [|h l o l' x HR IH Hs Hx].
  - constructor.
    + constructor; simpl; [constructor|discriminate|discriminate|discriminate].
    + intros t k. simpl. split; [discriminate|]. intros [H _]. discriminate.
    + constructor.
    + simpl. discriminate.
    + intros k [].
  - eapply INV_step; eauto. apply IH. eapply WF_snoc; eauto.
Qed.

(* ===================================================================== *)
(* Part 4 — theorems                                                       *)
(* ===================================================================== *)

(* (B) the ledger holds exactly the current, not yet released deliveries *)
Lemma INV_keys h l k :
  INV h l -> (In k (map fst (items l)) <-> current k h /\ ~ In k (released_keys h)).
Proof.
  intros [Hs Ht _ _ _]. split.
  - intros Hin. destruct (in_keys_aget _ _ Hin) as [e He].
    apply (st_item_idx _ Hs) in He. apply Ht in He. destruct He as [Hc Hn].
    split; [|assumption]. apply current_cur_of. eauto.
  - intros [Hc Hn]. apply current_cur_of in Hc. destruct Hc as [t Hc].
    assert (H : aget t (idx l) = Some k) by (apply Ht; auto).
    destruct (st_idx_item _ Hs _ _ H) as (e & He & _). eapply aget_some_in_keys; eauto.
Qed.

Theorem ledger_tracks_exactly : forall h l, WF h -> Reach h l ->
  forall k, In k (map fst (items l)) <-> current k h /\ ~ In k (released_keys h).
Proof. intros h l HW HR k. apply INV_keys. now apply INV_reach. Qed.

Theorem ledger_order_safe : forall h l, WF h -> Reach h l ->
  forall e, In e (rel_prefix (items l)) ->
  forall k, current k h -> first_pos k h < first_pos (e_key e) h ->
  In k (released_keys h) \/ In k (map e_key (rel_prefix (items l))).
Proof.
  intros h l HW HR e Hin k Hcur Hlt. pose proof (INV_reach h l HW HR) as HI.
  destruct (in_dec string_dec k (released_keys h)) as [|Hnr]; [now left|right].
  assert (Hk : In k (map fst (items l))) by (apply (INV_keys h l k HI); auto).
  pose proof (inv_struct _ _ HI) as Hs. pose proof (inv_sorted _ _ HI) as Hso.
  destruct (rel_prefix_split (items l)) as (its1 & its2 & Hit & Hp & Hall & _).
  rewrite Hp in *. rewrite (prefix_keys l its1 its2 Hs Hit).
  rewrite Hit, map_app in Hk. apply in_app_or in Hk. destruct Hk as [|Hk2]; [assumption|].
  exfalso. apply in_map_iff in Hin. destruct Hin as ([ke e'] & He & Hin). simpl in He. subst e'.
  assert (Hke : e_key e = ke).
  { apply (st_key _ Hs). apply in_nodup_aget; [apply (st_nodup _ Hs)|].
    rewrite Hit. apply in_or_app; now left. }
  rewrite Hit, map_app in Hso.
  assert (fp_lt h ke k).
  { eapply sorted_app_lt; eauto. change ke with (fst (ke, e)). now apply in_map. }
  unfold fp_lt in H. rewrite Hke in Hlt. lia.
Qed.

Theorem ledger_released_exact : forall h l e, WF h -> Reach h l -> In e (rel_prefix (items l)) ->
  e_commit e <> 0%N /\ In (OSeen (e_txn e) (e_key e) (e_total e) (e_commit e)) h /\
  e_count e = certified (e_key e) h /\ certified (e_key e) h = e_total e.
Proof.
  intros h l e HW HR Hin. pose proof (INV_reach h l HW HR) as HI.
  pose proof (inv_struct _ _ HI) as Hs.
  pose proof (rel_prefix_releasable _ _ Hin) as Hrl. unfold releasable in Hrl.
  apply andb_true_iff in Hrl. destruct Hrl as [Hc Hcnt].
  apply negb_true_iff, N.eqb_neq in Hc. apply Z.eqb_eq in Hcnt.
  assert (Hex : exists k, In (k, e) (items l)).
  { destruct (rel_prefix_in _ _ Hin) as [H|H]; eauto. }
  destruct Hex as [k Hk]. apply (in_nodup_aget _ _ _ (st_nodup _ Hs)) in Hk.
  pose proof (st_key _ Hs _ _ Hk) as Hke. subst k.
  destruct (inv_ent _ _ HI _ _ Hk) as (Hcert & Hseen & _).
  split; [assumption|]. split; [auto|]. split; [assumption|]. congruence.
Qed.

(* the tracker never panics on a contract-respecting history *)
Theorem ledger_no_error : forall h, WF h -> ~ In RError (snd (lrun empty_ledger h)).
Proof.
  induction h as [|o h IH] using rev_ind; intros HW.
  - simpl. tauto.
  - pose proof (WF_snoc _ _ HW) as HW'. specialize (IH HW').
    destruct (lrun empty_ledger h) as [l rs] eqn:Hrun. simpl in IH.
    pose proof (lrun_reach _ _ _ Hrun IH) as HR.
    rewrite lrun_app by (rewrite Hrun; exact IH). rewrite Hrun. simpl.
    destruct (lstep l o) as [l' r] eqn:Hs.
    destruct (INV_step h l o l' r HW HR (INV_reach _ _ HW' HR) Hs) as [Hne _].
    destruct r; simpl; intros Hin; apply in_app_or in Hin;
      destruct Hin as [Hin|[E|[]]]; try contradiction; try discriminate.
Qed.

Lemma WF_run_reach h l rs : WF h -> lrun empty_ledger h = (l, rs) -> Reach h l.
Proof.
  intros HW Hrun. apply (lrun_reach h l rs Hrun).
  pose proof (ledger_no_error h HW) as H. now rewrite Hrun in H.
Qed.

Theorem ledger_released_keys_exact : forall h k, WF h -> In k (released_keys h) ->
  exists t n c, In (OSeen t k n c) h /\ certified k h = n.
Proof.
  intros h k HW Hin. destruct (lrun empty_ledger h) as [l rs] eqn:Hrun.
  pose proof (WF_run_reach h l rs HW Hrun) as HR.
  exact (inv_rel _ _ (INV_reach h l HW HR) k Hin).
Qed.

Theorem ledger_order_safe_run : forall h l rs, WF h -> lrun empty_ledger h = (l, rs) ->
  forall e, In e (rel_prefix (items l)) ->
  forall k, current k h -> first_pos k h < first_pos (e_key e) h ->
  In k (released_keys h) \/ In k (map e_key (rel_prefix (items l))).
Proof. intros h l rs HW Hrun. apply ledger_order_safe; [assumption|]. eapply WF_run_reach; eauto. Qed.

(* ---------- drain ---------- *)
Lemma seen_once_same h t k n c t' n' c' :
  seen_once h -> In (OSeen t k n c) h -> In (OSeen t' k n' c') h -> t = t' /\ n = n' /\ c = c'.
Proof.
  intros Hso H1 H2. destruct (In_nth_error _ _ H1) as [i Hi]. destruct (In_nth_error _ _ H2) as [j Hj].
  assert (i = j) by (eapply Hso; eauto). subst j. rewrite Hi in Hj. inversion Hj. auto.
Qed.

Definition all_settled (h : list lop) : Prop :=
  forall k, current k h -> ~ In k (released_keys h) ->
  exists t n c, In (OSeen t k n c) h /\ certified k h = n.

Lemma settled_releasable h l k e :
  WF h -> INV h l -> all_settled h -> aget k (items l) = Some e -> releasable e = true.
Proof.
  intros HW HI Hset He. pose proof HW as (_ & _ & Hso & _).
  assert (Hin : In k (map fst (items l))) by (eapply aget_some_in_keys; eauto).
  apply (INV_keys h l k HI) in Hin. destruct Hin as [Hcur Hnr].
  destruct (Hset k Hcur Hnr) as (t & n & c & Hseen & Hcert).
  destruct (inv_ent _ _ HI _ _ He) as (Hcnt & Hs & Hz).
  unfold releasable. apply andb_true_iff.
  destruct (N.eq_dec (e_commit e) 0) as [E|E]; [exfalso; eapply Hz; eauto|].
  split; [now apply negb_true_iff, N.eqb_neq|]. apply Z.eqb_eq.
  destruct (seen_once_same _ _ _ _ _ _ _ _ Hso Hseen (Hs E)) as (_ & Hn & _). congruence.
Qed.

Lemma settled_prefix_all h l :
  WF h -> INV h l -> all_settled h -> rel_prefix (items l) = map snd (items l).
Proof.
  intros HW HI Hset. pose proof (inv_struct _ _ HI) as Hs.
  destruct (rel_prefix_split (items l)) as (its1 & its2 & Hit & Hp & _ & Hhd).
  destruct its2 as [|[k e] its2].
  - rewrite app_nil_r in Hit. now rewrite Hp, Hit.
  - exfalso. assert (He : aget k (items l) = Some e).
    { apply in_nodup_aget; [apply (st_nodup _ Hs)|]. rewrite Hit. apply in_or_app; right; now left. }
    rewrite (settled_releasable h l k e HW HI Hset He) in Hhd. discriminate.
Qed.

Lemma emit_value_last (p : list entry) (e d : entry) :
  match p ++ [e] with [] => None | q => Some (e_commit (last q d)) end = Some (e_commit e).
Proof.
  destruct (p ++ [e]) as [|a q] eqn:E.
  - apply app_eq_nil in E. destruct E; discriminate.
  - rewrite <- E, last_last. reflexivity.
Qed.

Theorem ledger_drains : forall h l, WF h -> Reach h l -> all_settled h ->
  let '(r, l') := emit l in
  items l' = [] /\ idx l' = [] /\
  (items l = [] -> r = None) /\
  (items l <> [] -> exists its k e, items l = its ++ [(k, e)] /\ r = Some (e_commit e)).
Proof.
  intros h l HW HR Hset. pose proof (INV_reach h l HW HR) as HI.
  pose proof (inv_struct _ _ HI) as Hs.
  rewrite emit_spec, (settled_prefix_all h l HW HI Hset).
  destruct (fold_remove_prefix (items l) [] l Hs (eq_sym (app_nil_r _))) as (Hs' & Hit' & _).
  cbv zeta in *. split; [assumption|]. split; [|split].
  - destruct (idx (fold_left remove_entry (map snd (items l)) l)) as [|[t k] r] eqn:E; [reflexivity|].
    exfalso. destruct (st_idx_item _ Hs' t k) as (e & He & _).
    + rewrite E. simpl. now rewrite String.eqb_refl.
    + rewrite Hit' in He. discriminate.
  - intros ->. reflexivity.
  - intros Hne. destruct (exists_last Hne) as (its & [k e] & Hit). exists its, k, e.
    split; [assumption|]. rewrite Hit, map_app. apply emit_value_last.
Qed.

Theorem ledger_last_is_newest : forall h l, WF h -> Reach h l -> all_settled h -> items l <> [] ->
  exists its k e, items l = its ++ [(k, e)] /\ fst (emit l) = Some (e_commit e) /\
    In (OSeen (e_txn e) k (e_total e) (e_commit e)) h /\ certified k h = e_total e /\
    current k h /\ ~ In k (released_keys h) /\
    forall k', current k' h -> ~ In k' (released_keys h) -> k' = k \/ first_pos k' h < first_pos k h.
Proof.
  intros h l HW HR Hset Hne. pose proof (INV_reach h l HW HR) as HI.
  pose proof (inv_struct _ _ HI) as Hs.
  pose proof (ledger_drains h l HW HR Hset) as Hd. destruct (emit l) as [r l'].
  destruct Hd as (_ & _ & _ & Hlast). destruct (Hlast Hne) as (its & k & e & Hit & Hr).
  exists its, k, e. split; [assumption|]. split; [assumption|].
  assert (He : aget k (items l) = Some e).
  { apply in_nodup_aget; [apply (st_nodup _ Hs)|]. rewrite Hit. apply in_or_app; right; now left. }
  pose proof (settled_releasable h l k e HW HI Hset He) as Hrl. unfold releasable in Hrl.
  apply andb_true_iff in Hrl. destruct Hrl as [Hc Hcnt].
  apply negb_true_iff, N.eqb_neq in Hc. apply Z.eqb_eq in Hcnt.
  destruct (inv_ent _ _ HI _ _ He) as (Hcert & Hseen & _).
  assert (Hin : In k (map fst (items l))) by (eapply aget_some_in_keys; eauto).
  apply (INV_keys h l k HI) in Hin. destruct Hin as [Hcur Hnr].
  split; [auto|]. split; [congruence|]. split; [assumption|]. split; [assumption|].
  intros k' Hcur' Hnr'.
  assert (Hin' : In k' (map fst (items l))) by (apply (INV_keys h l k' HI); auto).
  pose proof (inv_sorted _ _ HI) as Hso. rewrite Hit, map_app in Hso, Hin'. simpl in *.
  apply in_app_or in Hin'. destruct Hin' as [Hin'|[E|[]]]; [right|left; auto].
  eapply (sorted_app_lt (fp_lt h)); eauto. now left.
Qed.

Theorem ledger_drains_run : forall h l rs, WF h -> lrun empty_ledger h = (l, rs) -> all_settled h ->
  let '(r, l') := emit l in
  items l' = [] /\ idx l' = [] /\
  (items l = [] -> r = None) /\
  (items l <> [] -> exists its k e, items l = its ++ [(k, e)] /\ r = Some (e_commit e)).
Proof. intros h l rs HW Hrun. apply ledger_drains; [assumption|]. eapply WF_run_reach; eauto. Qed.

(* ===================================================================== *)
(* Part 5 — the boolean checkers decide the declarative predicates         *)
(* ===================================================================== *)

Lemma forallb_seq f n : forallb f (seq 0 n) = true <-> forall i, i < n -> f i = true.
Proof.
  rewrite forallb_forall. split; intros H i Hi; apply H.
  - apply in_seq. lia.
  - apply in_seq in Hi. lia.
Qed.

Lemma key_txn_funb_ok h : key_txn_funb h = true <-> key_txn_fun h.
Proof.
  unfold key_txn_funb, key_txn_fun. rewrite forallb_forall. split.
  - intros H o1 o2 t1 t2 k H1 H2 M1 M2. specialize (H o1 H1). rewrite forallb_forall in H.
    specialize (H o2 H2). rewrite M1, M2, String.eqb_refl in H. simpl in H. now apply String.eqb_eq.
  - intros H o1 H1. rewrite forallb_forall. intros o2 H2.
    destruct (mention o1) as [[t1 k1]|] eqn:M1; [|reflexivity].
    destruct (mention o2) as [[t2 k2]|] eqn:M2; [|reflexivity].
    destruct (String.eqb_spec k1 k2) as [->|]; [|reflexivity]. simpl.
    apply String.eqb_eq. exact (H o1 o2 t1 t2 k2 H1 H2 M1 M2).
Qed.

Lemma no_staleb_ok h : no_staleb h = true <-> no_stale h.
Proof.
  unfold no_staleb, no_stale. cbv zeta. rewrite forallb_seq. split.
  - intros H i j l t k k' Hij Hjl Mi Mj Ml.
    pose proof (mention_at_lt _ _ _ Mi) as Li. pose proof (mention_at_lt _ _ _ Mj) as Lj.
    pose proof (mention_at_lt _ _ _ Ml) as Ll.
    specialize (H i Li). rewrite forallb_seq in H. specialize (H j Lj). rewrite forallb_seq in H.
    specialize (H l Ll). unfold stale_okb in H. rewrite Mi, Mj, Ml in H.
    apply Nat.ltb_lt in Hij, Hjl. rewrite Hij, Hjl, !String.eqb_refl in H. simpl in H.
    now apply String.eqb_eq.
  - intros H i Li. rewrite forallb_seq. intros j Lj. rewrite forallb_seq. intros l Ll.
    unfold stale_okb. destruct (Nat.ltb_spec i j) as [Hij|]; [|reflexivity].
    destruct (Nat.ltb_spec j l) as [Hjl|]; [|reflexivity]. simpl.
    destruct (mention_at h i) as [[t1 k1]|] eqn:Mi; [|reflexivity].
    destruct (mention_at h j) as [[t2 k2]|] eqn:Mj; [|reflexivity].
    destruct (mention_at h l) as [[t3 k3]|] eqn:Ml; [|reflexivity].
    destruct (String.eqb_spec t1 t2) as [<-|]; [|reflexivity].
    destruct (String.eqb_spec t1 t3) as [<-|]; [|reflexivity].
    destruct (String.eqb_spec k1 k3) as [<-|]; [|reflexivity]. simpl.
    apply String.eqb_eq. exact (H i j l t1 k1 k2 Hij Hjl Mi Mj Ml).
Qed.

Lemma seen_onceb_ok h : seen_onceb h = true <-> seen_once h.
Proof.
  unfold seen_onceb, seen_once. cbv zeta. rewrite forallb_seq. split.
  - intros H i j t1 t2 k n1 n2 c1 c2 Hi Hj.
    assert (Li : i < List.length h) by (apply nth_error_Some; congruence).
    assert (Lj : j < List.length h) by (apply nth_error_Some; congruence).
    specialize (H i Li). rewrite forallb_seq in H. specialize (H j Lj).
    unfold seen_okb in H. rewrite Hi, Hj, String.eqb_refl in H. simpl in H. now apply Nat.eqb_eq.
  - intros H i Li. rewrite forallb_seq. intros j Lj. unfold seen_okb.
    destruct (nth_error h i) as [[t1 k1 n1 c1| |]|] eqn:Hi; try reflexivity.
    destruct (nth_error h j) as [[t2 k2 n2 c2| |]|] eqn:Hj; try reflexivity.
    destruct (String.eqb_spec k1 k2) as [<-|]; [|reflexivity]. simpl.
    apply Nat.eqb_eq. exact (H i j t1 t2 k1 n1 n2 c1 c2 Hi Hj).
Qed.

Lemma commit_nonzerob_ok h : commit_nonzerob h = true <-> commit_nonzero h.
Proof.
  unfold commit_nonzerob, commit_nonzero. rewrite forallb_forall. split.
  - intros H t k n c Hin. specialize (H _ Hin). simpl in H. now apply negb_true_iff, N.eqb_neq in H.
  - intros H o Hin. destruct o as [t k n c| |]; try reflexivity.
    apply negb_true_iff, N.eqb_neq. eapply H; eauto.
Qed.

Lemma pos_countsb_ok h : pos_countsb h = true <-> pos_counts h.
Proof.
  unfold pos_countsb, pos_counts. rewrite forallb_forall. split.
  - intros H t k n Hin. specialize (H _ Hin). simpl in H. now apply Z.leb_le.
  - intros H o Hin. destruct o as [|t k n|]; try reflexivity. apply Z.leb_le. eapply H; eauto.
Qed.

Lemma no_over_reportb_ok h : no_over_reportb h = true <-> no_over_report h.
Proof.
  unfold no_over_reportb, no_over_report. rewrite forallb_forall. split.
  - intros H t k n c Hin. specialize (H _ Hin). simpl in H. now apply Z.leb_le.
  - intros H o Hin. destruct o as [t k n c| |]; try reflexivity. apply Z.leb_le. eapply H; eauto.
Qed.

Theorem wf_hist_ok h : wf_hist h = true <-> WF h.
Proof.
  unfold wf_hist, WF. rewrite !andb_true_iff.
  rewrite key_txn_funb_ok, no_staleb_ok, seen_onceb_ok, commit_nonzerob_ok, pos_countsb_ok, no_over_reportb_ok.
  tauto.
Qed.

Lemma current_atb_ok k h i :
  current_atb k h i = true <->
  exists t, mention_at h i = Some (t, k) /\
            forall j k', i < j -> mention_at h j = Some (t, k') -> k' = k.
Proof.
  unfold current_atb. destruct (mention_at h i) as [[t k0]|] eqn:Mi.
  - rewrite andb_true_iff, forallb_seq, String.eqb_eq. split.
    + intros [-> H]. exists t. split; [reflexivity|]. intros j k' Hij Mj.
      specialize (H j (mention_at_lt _ _ _ Mj)). apply Nat.ltb_lt in Hij.
      rewrite Hij, Mj, String.eqb_refl in H. simpl in H. now apply String.eqb_eq.
    + intros (t' & [= <- <-] & H). split; [reflexivity|]. intros j Lj.
      destruct (Nat.ltb_spec i j) as [Hij|]; [|reflexivity]. simpl.
      destruct (mention_at h j) as [[t' k']|] eqn:Mj; [|reflexivity].
      destruct (String.eqb_spec t' t) as [->|]; [|reflexivity]. simpl.
      apply String.eqb_eq. eapply H; eauto.
  - split; [discriminate|]. intros (t & E & _). discriminate.
Qed.

Theorem currentb_ok k h : currentb k h = true <-> current k h.
Proof.
  unfold currentb, current. rewrite existsb_exists. split.
  - intros (i & _ & H). apply current_atb_ok in H. destruct H as (t & H). eauto.
  - intros (i & t & Mi & H). exists i. split.
    + apply in_seq. pose proof (mention_at_lt _ _ _ Mi). lia.
    + apply current_atb_ok. eauto.
Qed.

(* everything needed to discharge [WF] / [current] on concrete histories by computation *)
Lemma WF_by_compute h : wf_hist h = true -> WF h.
Proof. apply wf_hist_ok. Qed.
Lemma current_by_compute k h : currentb k h = true -> current k h.
Proof. apply currentb_ok. Qed.
Lemma not_current_by_compute k h : currentb k h = false -> ~ current k h.
Proof. intros H Hc. apply currentb_ok in Hc. congruence. Qed.

(* ---------- checker for the drain hypothesis ---------- *)
Definition keys_of (h : list lop) : list string :=
  flat_map (fun o => match mention o with Some (_, k) => [k] | None => [] end) h.
Definition memb (k : string) (l : list string) : bool := existsb (String.eqb k) l.
Definition seen_fullb (k : string) (h : list lop) : bool :=
  existsb (fun o => match o with
                    | OSeen _ k' n _ => String.eqb k k' && (certified k h =? n)%Z
                    | _ => false
                    end) h.
Definition all_settledb (h : list lop) : bool :=
  forallb (fun k => negb (currentb k h) || memb k (released_keys h) || seen_fullb k h) (keys_of h).

Lemma memb_ok k l : memb k l = true <-> In k l.
Proof.
  unfold memb. rewrite existsb_exists. split.
  - intros (x & Hin & E). apply String.eqb_eq in E. now subst.
  - intros Hin. exists k. split; [assumption|apply String.eqb_refl].
Qed.

Lemma seen_fullb_ok k h :
  seen_fullb k h = true <-> exists t n c, In (OSeen t k n c) h /\ certified k h = n.
Proof.
  unfold seen_fullb. rewrite existsb_exists. split.
  - intros (o & Hin & E). destruct o as [t k' n c| |]; try discriminate.
    apply andb_true_iff in E. destruct E as [E1 E2]. apply String.eqb_eq in E1. apply Z.eqb_eq in E2.
    subst k'. eauto.
  - intros (t & n & c & Hin & E). exists (OSeen t k n c). split; [assumption|].
    rewrite String.eqb_refl. simpl. now apply Z.eqb_eq.
Qed.

Lemma current_in_keys k h : current k h -> In k (keys_of h).
Proof.
  intros (i & t & Mi & _). destruct (mention_at_in _ _ _ Mi) as (o & Hin & Hm).
  unfold keys_of. apply in_flat_map. exists o. split; [assumption|]. rewrite Hm. now left.
Qed.

Theorem all_settledb_ok h : all_settledb h = true <-> all_settled h.
Proof.
  unfold all_settledb, all_settled. rewrite forallb_forall. split.
  - intros H k Hc Hn. specialize (H k (current_in_keys _ _ Hc)).
    apply currentb_ok in Hc. rewrite Hc in H. simpl in H.
    apply orb_true_iff in H. destruct H as [H|H].
    + apply memb_ok in H. contradiction.
    + now apply seen_fullb_ok.
  - intros H k _. destruct (currentb k h) eqn:Hc; [|reflexivity]. simpl.
    destruct (memb k (released_keys h)) eqn:Hm; [reflexivity|]. simpl.
    apply seen_fullb_ok. apply H.
    + now apply currentb_ok.
    + intros Hin. apply memb_ok in Hin. congruence.
Qed.
