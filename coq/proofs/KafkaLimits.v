(* KafkaLimits.v — the C15 clauses about the Kafka batch: record count and per-message byte limit *)
From Bifrost.model Require Import Base Kafka.
From Bifrost.proofs Require Import KafkaProofs.

Lemma add_count_limit cfg b m b' x :
  (0 <= c_max_batch cfg)%Z -> (num_msgs b <= c_max_batch cfg)%Z ->
  add cfg b m = (b', x) -> (num_msgs b' <= c_max_batch cfg)%Z.
Proof.
  intros Hc Hb. unfold add.
  destruct (is_control m); [intros E; inversion E; subst; exact Hb|].
  destruct (num_msgs b =? c_max_batch cfg)%Z eqn:Efull; [intros E; inversion E; subst; exact Hb|].
  apply Z.eqb_neq in Efull.
  destruct (byte_size (to_pmsg cfg m) >? c_max_bytes cfg)%Z; intros E; inversion E; subst; clear E;
    unfold num_msgs in *; cbn [b_msgs] in *; [exact Hb|].
  rewrite app_length; cbn [List.length]. lia.
Qed.

Lemma add_run_count_limit cfg : forall ms b b' xs,
  (0 <= c_max_batch cfg)%Z -> (num_msgs b <= c_max_batch cfg)%Z ->
  add_run cfg b ms = (b', xs) -> (num_msgs b' <= c_max_batch cfg)%Z.
Proof.
  induction ms as [|m r IH]; intros b b' xs Hc Hb E; cbn [add_run] in E.
  - inversion E; subst; exact Hb.
  - destruct (add cfg b m) as [b1 x] eqn:E1.
    destruct (add_run cfg b1 r) as [b2 xs2] eqn:E2.
    inversion E; subst; clear E.
    eapply IH; [exact Hc| |exact E2].
    eapply add_count_limit; eauto.
Qed.

(* no batch built by any sequence of Add calls holds more than the configured number of messages *)
Theorem build_count_limit : forall cfg ms,
  (0 <= c_max_batch cfg)%Z -> (num_msgs (build cfg ms) <= c_max_batch cfg)%Z.
Proof.
  intros cfg ms Hc. unfold build.
  destruct (add_run cfg empty_batch ms) as [b xs] eqn:E. cbn [fst].
  eapply add_run_count_limit; [exact Hc| |exact E].
  unfold num_msgs, empty_batch; cbn. exact Hc.
Qed.

(* no message of such a batch is above the configured byte limit (sarama's ByteSize(2): 36 + key + value) *)
Theorem build_message_limit : forall cfg ms p, In p (b_msgs (build cfg ms)) ->
  (byte_size p <= c_max_bytes cfg)%Z.
Proof.
  intros cfg ms p Hin.
  destruct (build_payload_message cfg ms p Hin) as [m [_ [_ [_ [_ [_ Hsz]]]]]].
  unfold byte_size, record_overhead. exact Hsz.
Qed.

(* a message above the limit is dropped, the batch stays usable, and the record still counts towards
   its transaction; a message within the limit offered to a batch that is not full is never dropped *)
Theorem add_limit_drop_counted : forall cfg b m,
  is_control m = false -> num_msgs b <> c_max_batch cfg ->
  ((byte_size (to_pmsg cfg m) > c_max_bytes cfg)%Z ->
     exists b', add cfg b m = (b', ATooBig) /\ b_msgs b' = b_msgs b /\
       count_of (m_tbk m) (b_txns b') = (count_of (m_tbk m) (b_txns b) + 1)%Z) /\
  ((byte_size (to_pmsg cfg m) <= c_max_bytes cfg)%Z ->
     exists b', add cfg b m = (b', AOk) /\ b_msgs b' = b_msgs b ++ [to_pmsg cfg m]).
Proof.
  intros cfg b m Hc Hn.
  destruct (add_size_rule_counted cfg b m Hc Hn) as [Hbig Hok].
  assert (Hsz : byte_size (to_pmsg cfg m) = (36 + klen (key_for cfg m) + slen (m_json m))%Z).
  { unfold byte_size, record_overhead, to_pmsg; cbn. reflexivity. }
  split; intros H.
  - rewrite Hsz in H. destruct (Hbig H) as [b' [E [Hm [_ Hcnt]]]]. exists b'; auto.
  - rewrite Hsz in H. destruct (Hok H) as [b' [E [Hm _]]]. exists b'; auto.
Qed.
