(* ClientFailProofs.v — the recovery from a server ErrorResponse FAILS (model/Client.v: event
   [EErrorResponseFail], [recover_fail]): recoverFromErrorResponse returns an error, Start returns.
   The lemmas behind props/C17_client.v.  Continues ClientProofs2.v. *)
From Bifrost.model Require Import Base Client.
From Bifrost.proofs Require Import ClientProofs ClientProofs2.

(* what the iteration observes after its receive: the synthetic COMMIT if a transaction is open
   (exactly the one a successful recovery forwards: cstep_recovery_couts), the Close of the broken
   connection, the GetConn for the recovery connection when that one is obtained (the failure is
   then at IDENTIFY_SYSTEM), and the shutdown of Start: Close, Stop.  No IDENTIFY_SYSTEM answer, no
   second Close of a recovery, no status update, no connection request with START_REPLICATION. *)
Definition failed_recovery_obs (s : cstate) (it : citer) (at_identify : bool) : list cobs :=
  (if open_txn s
   then [COut "COMMIT" (ctxn s) (ckey s) (if (highest s =? 0)%N then hp_val s (i_prog it) else highest s)]
   else []) ++
  CClose :: (if at_identify then [CGetPlain true] else []) ++ [CClose; CStop].

Lemma cstep_failed_recovery_exact s it s' o idf :
  stopped s = false -> i_pclosed it = false -> i_ev it = EErrorResponseFail idf ->
  cstep s it = (s', o) ->
  o = head_pre s it ++ CRecv :: failed_recovery_obs s it idf /\
  stopped s' = true /\ conn_open s' = false /\
  overall s' = hp_val s (i_prog it) /\ highest s' = highest s.
Proof.
  intros R Pc Ev H. rewrite (cstep_consumed _ _ R Pc) in H. inversion H; subst; clear H.
  rewrite head_out_pre, <- app_assoc. unfold ev_step, recv_state. rewrite Ev.
  unfold failed_recovery_obs, recover_fail, fatal, open_txn.
  destruct (i_dies it); simpl;
  destruct (negb (first_iter s) && negb (saw_commit s)); destruct idf; simpl;
  repeat split; reflexivity.
Qed.

(* the client stops, and says so: the iteration ends with Close, Stop *)
Lemma cstep_failed_recovery_stops s it s' o idf :
  stopped s = false -> i_pclosed it = false -> i_ev it = EErrorResponseFail idf ->
  cstep s it = (s', o) ->
  stopped s' = true /\ conn_open s' = false /\ exists pre, o = pre ++ [CClose; CStop].
Proof.
  intros R Pc Ev H.
  destruct (cstep_failed_recovery_exact s it s' o idf R Pc Ev H) as (Eo & St & Co & _).
  split; [exact St|split; [exact Co|]].
  exists (head_pre s it ++ CRecv ::
          (if open_txn s
           then [COut "COMMIT" (ctxn s) (ckey s) (if (highest s =? 0)%N then hp_val s (i_prog it) else highest s)]
           else []) ++ CClose :: (if idf then [CGetPlain true] else [])).
  rewrite Eo. unfold failed_recovery_obs.
  rewrite <- app_assoc. cbn [app]. rewrite <- app_assoc. cbn [app].
  destruct idf; reflexivity.
Qed.

(* nothing is acknowledged to PostgreSQL (and no connection is requested with a start position)
   while failing: every status update of the iteration was sent before its receive *)
Lemma cstep_failed_recovery_sends_nothing s it s' o idf :
  stopped s = false -> i_pclosed it = false -> i_ev it = EErrorResponseFail idf ->
  cstep s it = (s', o) ->
  exists pre post, o = pre ++ CRecv :: post /\ ~ In CRecv pre /\ ~ In CRecv post /\
    acks post = [] /\ (forall l, ~ In (CSend l) post) /\ (forall l f, ~ In (CGetStart l f) post) /\
    acks o = acks pre /\
    (forall a, In a (acks o) -> a = overall s \/ In a (i_prog it)).
Proof.
  intros R Pc Ev H.
  destruct (cstep_failed_recovery_exact s it s' o idf R Pc Ev H) as (Eo & _).
  exists (head_pre s it), (failed_recovery_obs s it idf).
  assert (Np : forall x, In x (failed_recovery_obs s it idf) ->
                 (exists t k w, x = COut "COMMIT" t k w) \/ x = CClose \/ x = CGetPlain true \/ x = CStop).
  { unfold failed_recovery_obs. intros x I.
    destruct (open_txn s); destruct idf; cbn [app] in I;
    repeat (destruct I as [I|I]; [subst x; eauto 8|]); destruct I. }
  assert (Ap : acks (failed_recovery_obs s it idf) = []).
  { unfold failed_recovery_obs. destruct (open_txn s); destruct idf; reflexivity. }
  split; [exact Eo|]. split; [apply head_pre_no_recv|].
  split; [intros I; destruct (Np _ I) as [(t & k & w & E)|[E|[E|E]]]; discriminate E|].
  split; [exact Ap|].
  split; [intros l I; destruct (Np _ I) as [(t & k & w & E)|[E|[E|E]]]; discriminate E|].
  split; [intros l f I; destruct (Np _ I) as [(t & k & w & E)|[E|[E|E]]]; discriminate E|].
  assert (Ao : acks o = acks (head_pre s it)).
  { rewrite Eo, acks_app. change (CRecv :: failed_recovery_obs s it idf) with ([CRecv] ++ failed_recovery_obs s it idf).
    rewrite acks_app, Ap. cbn [acks flat_map app]. rewrite app_nil_r. reflexivity. }
  split; [exact Ao|].
  intros a I. rewrite Ao in I. unfold head_pre in I.
  destruct (head_sends s it); cbn [acks flat_map app] in I; [|destruct I].
  destruct I as [<-|[]]. apply hp_val_source.
Qed.

(* the failing iteration is the last one that does anything: every later iteration observes
   nothing (no receive, no status update, no forwarded message), whatever it is fed *)
Lemma crun_failed_recovery_is_last first its1 it its2 s' o idf :
  stopped (fst (crun first its1)) = false -> i_pclosed it = false -> i_ev it = EErrorResponseFail idf ->
  cstep (fst (crun first its1)) it = (s', o) ->
  citers s' its2 = (s', []) /\
  (forall its it', cstep (fst (citers s' its)) it' = (s', [])) /\
  crun first (its1 ++ it :: its2) = (s', snd (crun first its1) ++ o).
Proof.
  intros R Pc Ev H.
  destruct (cstep_failed_recovery_exact _ it s' o idf R Pc Ev H) as (_ & St & _).
  split; [apply citers_stopped; exact St|]. split.
  - intros its it'. rewrite (citers_stopped its s' St). cbn [fst]. apply cstep_stopped. exact St.
  - destruct (crun_app first its1 (it :: its2)) as [Es Ef].
    rewrite (surjective_pairing (crun first (its1 ++ it :: its2))), Es, Ef.
    rewrite citers_cons, H. cbn [fst snd]. rewrite (citers_stopped its2 s' St). cbn [fst snd].
    rewrite app_nil_r. reflexivity.
Qed.

(* what is forwarded downstream by the failing iteration: the synthetic COMMIT of the open
   transaction and nothing else - the same as when the recovery succeeds *)
Lemma cstep_failed_recovery_couts s it idf :
  stopped s = false -> i_pclosed it = false -> i_ev it = EErrorResponseFail idf ->
  couts (snd (cstep s it)) =
  if open_txn s
  then [COut "COMMIT" (ctxn s) (ckey s) (if (highest s =? 0)%N then hp_val s (i_prog it) else highest s)]
  else [].
Proof. intros R Pc Ev. rewrite cstep_couts, R, Pc. unfold write_fails. rewrite Ev. reflexivity. Qed.
