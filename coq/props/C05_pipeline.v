(* C05 at the SINK — with routing method "partition", all records sharing a partition key are submitted
   to the sink in delivery order across batches as well, because they are always handled by the same
   worker one batch at a time; with a single worker and no partitioning the whole stream is submitted
   in delivery order.  props/C05.v states the order for "dispatched by the batcher"; here it is stated
   for "ACCEPTED BY THE SINK" on the composed model model/Pipeline.v, for every configuration with
   >= 1 worker and EVERY schedule (label list: LFeed / LTick / LAccept w / LRead / LEmit in any
   interleaving; a slow worker is a late [LAccept w]).
   This file holds only statements closed by [exact], their assumptions, and non-vacuity examples.
   Vocabulary (model/Pipeline.v, proofs/BatcherProofs.v, proofs/PipelineE2E.v):
     prun cfg ls / fed_of ls      the state after the labels ls / the messages fed
     p_accepted st                ghost: every record the sink has accepted, in acceptance order
     prun_acc cfg ls              the same run, additionally returning the accepted (worker, batch)
                                  pairs in acceptance order;  accepted_batches cfg ls = snd (prun_acc cfg ls)
     items_of l                   the records of a list of (worker, batch) pairs, concatenated in order
     for_key p l                  the pairs of l whose batch has partition key p (the filter of dispatched_for)
     onw w l                      the batches of worker w in l, in order;  qof w qs = the queue of worker w
     keyp p l                     the batches of l with partition key p
     accp cfg p m                 m is a change, its fate is FAccepted, and m_pkey m = p
     rec_has_key fedl p r         some message of fedl has r's id and partition key p
     prefix a b                   exists r, b = a ++ r *)
From Bifrost.model Require Import Base Crc32 Batch Batcher Ledger Pipeline.
From Bifrost.proofs Require Import BatchProofs BatcherProofs PipelineProofs PipelineE2E.

(* the instrumented run is the run, and its accepted batches, flattened, ARE the ghost p_accepted *)
Theorem C05_pipeline_accepted_batches : forall cfg ls,
  fst (prun_acc cfg ls) = prun cfg ls /\
  items_of (accepted_batches cfg ls) = p_accepted (prun cfg ls).
Proof. exact prun_acc_ok. Qed.
Print Assumptions C05_pipeline_accepted_batches.

(* the key invariant, every schedule: the batcher component is a run [brun] of model/Batcher.v over
   (an initial segment of) the fed messages, and PER WORKER the batches the sink accepted from it,
   followed by its queue, are the batches dispatched to it, in dispatch order (FIFO, one at a time) *)
Theorem C05_pipeline_worker_fifo : forall cfg ls,
  exists evs t, brun cfg binit evs = (p_b (prun cfg ls), t) /\
    prefix (fed t) (fed_of ls) /\
    (dead (p_b (prun cfg ls)) = false -> p_failed (prun cfg ls) = false -> fed t = fed_of ls) /\
    forall w, onw w (accepted_batches cfg ls) ++ qof w (p_queues (prun cfg ls)) = onw w (dispatched t).
Proof. exact pipeline_worker_fifo. Qed.
Print Assumptions C05_pipeline_worker_fifo.

(* "always handled by the same worker": under partition routing the sink accepts a batch only from
   the worker its partition key hashes to *)
Theorem C05_pipeline_same_worker : forall cfg ls, workers_ok cfg -> c_routing cfg = ByPartition ->
  forall w b, In (w, b) (accepted_batches cfg ls) -> Some w = quick_hash (b_pkey b) (c_workers cfg).
Proof. exact pipeline_sink_same_worker. Qed.
Print Assumptions C05_pipeline_same_worker.

(* THE ORDER THEOREM, partition routing, every schedule, no side condition on the run: for every
   partition key p, the batches of key p accepted by the sink, concatenated in ACCEPTANCE order, are an
   initial segment of the fed changes of p that the limits accept, in DELIVERY order (list equality
   with a remainder: nothing of p reordered, duplicated, invented or skipped on the way to the sink) *)
Theorem C05_pipeline_sink_order_per_key : forall cfg ls p, workers_ok cfg -> c_routing cfg = ByPartition ->
  prefix (items_of (for_key p (accepted_batches cfg ls)))
         (map (rec_of_kind (c_kind cfg)) (filter (accp cfg p) (fed_of ls))).
Proof. exact pipeline_sink_order_per_key. Qed.
Print Assumptions C05_pipeline_sink_order_per_key.

(* ... and while batcher and tracker are alive the remainder is known exactly: what waits for p in the
   queue of p's worker, in queue order, then p's open batch *)
Theorem C05_pipeline_sink_order_per_key_exact : forall cfg ls p w0, workers_ok cfg -> c_routing cfg = ByPartition ->
  dead (p_b (prun cfg ls)) = false -> p_failed (prun cfg ls) = false ->
  quick_hash p (c_workers cfg) = Some w0 ->
  map (rec_of_kind (c_kind cfg)) (filter (accp cfg p) (fed_of ls)) =
  items_of (for_key p (accepted_batches cfg ls)) ++
  flat_map b_items (keyp p (qof w0 (p_queues (prun cfg ls)))) ++
  open_items p (p_b (prun cfg ls)).
Proof. exact pipeline_sink_order_per_key_exact. Qed.
Print Assumptions C05_pipeline_sink_order_per_key_exact.

(* the same on the sink's FLAT record list.  A record does not carry its partition key (generic
   batches: r_pk = ""; un-partitioned Kinesis: r_pk = the LSN), so with pairwise distinct ids the key of
   a record is that of the fed message with its id: the records of key p in p_accepted, in the order
   the sink accepted them, are an initial segment of the fed accepted changes of p in delivery order *)
Theorem C05_pipeline_sink_order_per_key_records : forall cfg ls p, workers_ok cfg -> c_routing cfg = ByPartition ->
  NoDup (map m_id (fed_of ls)) ->
  prefix (filter (rec_has_key (fed_of ls) p) (p_accepted (prun cfg ls)))
         (map (rec_of_kind (c_kind cfg)) (filter (accp cfg p) (fed_of ls))).
Proof. exact pipeline_sink_order_per_key_records. Qed.
Print Assumptions C05_pipeline_sink_order_per_key_records.

(* ONE worker and no partitioning (every fed message carries the same partition key p0; "" in the
   code's un-partitioned mode), either routing method, every schedule: the sink's record list is an
   initial segment of the fed changes that the limits accept, in delivery order *)
Theorem C05_pipeline_single_worker_whole_stream : forall cfg ls p0, c_workers cfg = 1%N ->
  (forall m, In m (fed_of ls) -> m_pkey m = p0) ->
  prefix (p_accepted (prun cfg ls))
         (map (rec_of_kind (c_kind cfg)) (filter (fun m => change m && accepted cfg m) (fed_of ls))).
Proof. exact pipeline_single_worker_whole_stream. Qed.
Print Assumptions C05_pipeline_single_worker_whole_stream.

(* ---- non-vacuity: 2 workers; key "a" hashes to worker 1, key "d" to worker 0.  Worker 1 is slow:
   the batch [2;4] of key "a" is dispatched FIRST but accepted only after both batches of key "d", so
   the acceptance order differs from the dispatch order ACROSS keys while each key stays in order.
   Record 5 (60 bytes > 50) is dropped as too big. ---- *)
Definition e_msg (id : N) (op : string) (jlen : N) (key pk : string) := mkMsg id op "t" jlen key "tx" id pk.
Definition e_cfg (r : routing) := mkBcfg (BKinesis KBatch) (mkLimits 2 100 50) 2 r 1000 5000 1000.
Definition e_feeds :=
  [LFeed 0 (e_msg 1 "BEGIN" 0 "k1" "a"); LFeed 1 (e_msg 2 "INSERT" 10 "k1" "a"); LFeed 2 (e_msg 3 "INSERT" 10 "k1" "d");
   LFeed 3 (e_msg 4 "INSERT" 10 "k1" "a"); LFeed 4 (e_msg 5 "INSERT" 60 "k1" "d"); LFeed 5 (e_msg 6 "INSERT" 10 "k1" "a");
   LFeed 6 (e_msg 7 "INSERT" 10 "k1" "d"); LFeed 7 (e_msg 8 "INSERT" 10 "k1" "d"); LFeed 8 (e_msg 9 "COMMIT" 0 "k1" "a")].
Definition e_mid := e_feeds ++ [LAccept 0; LRead].
Definition e_all := e_mid ++ [LTick 10000 ["a"; "d"] []; LEmit; LAccept 0; LAccept 1; LRead; LAccept 1; LRead; LRead; LEmit].
Definition e_bevs :=
  flat_map (fun l => match l with LFeed n m => [BMsg n m] | LTick n o p => [BTick n o p] | _ => [] end) e_all.
Definition wids (l : list (N * batch)) := map (fun wb => (fst wb, ids (snd wb))) l.

Example C05_pipeline_nonvacuous :
  let '(st, acc) := prun_acc (e_cfg ByPartition) e_all in
  quick_hash "a" 2 = Some 1%N /\ quick_hash "d" 2 = Some 0%N /\
  dead (p_b st) = false /\ p_failed st = false /\
  (* dispatch order vs acceptance order *)
  wids (dispatched (snd (brun (e_cfg ByPartition) binit e_bevs))) = [(1, [2; 4]); (0, [3; 7]); (1, [6]); (0, [8])]%N /\
  wids acc = [(0, [3; 7]); (0, [8]); (1, [2; 4]); (1, [6])]%N /\
  rec_ids (p_accepted st) = [3; 7; 8; 2; 4; 6]%N /\
  (* per key: delivery order *)
  rec_ids (items_of (for_key "a" acc)) = [2; 4; 6]%N /\
  map m_id (filter (accp (e_cfg ByPartition) "a") (fed_of e_all)) = [2; 4; 6]%N /\
  rec_ids (items_of (for_key "d" acc)) = [3; 7; 8]%N /\
  map m_id (filter (accp (e_cfg ByPartition) "d") (fed_of e_all)) = [3; 7; 8]%N /\
  rec_ids (filter (rec_has_key (fed_of e_all) "a") (p_accepted st)) = [2; 4; 6]%N /\
  rec_ids (filter (rec_has_key (fed_of e_all) "d") (p_accepted st)) = [3; 7; 8]%N.
Proof. vm_compute. repeat split; reflexivity. Qed.

(* in the middle of the same schedule: for key "a" nothing accepted yet, [2;4] waits behind the slow
   worker 1, 6 is still open; for key "d" [3;7] accepted, 8 open *)
Example C05_pipeline_nonvacuous_mid :
  let '(st, acc) := prun_acc (e_cfg ByPartition) e_mid in
  dead (p_b st) = false /\ p_failed st = false /\
  rec_ids (items_of (for_key "a" acc)) = [] /\
  map ids (keyp "a" (qof 1 (p_queues st))) = [[2; 4]]%N /\ map r_id (open_items "a" (p_b st)) = [6]%N /\
  rec_ids (items_of (for_key "d" acc)) = [3; 7]%N /\
  map ids (keyp "d" (qof 0 (p_queues st))) = [] /\ map r_id (open_items "d" (p_b st)) = [8]%N.
Proof. vm_compute. repeat split; reflexivity. Qed.

(* the hypothesis "partition routing" is needed: under round robin with 2 workers the two batches of
   the ONE key "a" go to different workers, and a slow worker 0 lets [4] overtake [2;3] *)
Definition r_ls :=
  [LFeed 0 (e_msg 1 "BEGIN" 0 "k1" "a"); LFeed 1 (e_msg 2 "INSERT" 10 "k1" "a"); LFeed 2 (e_msg 3 "INSERT" 10 "k1" "a");
   LFeed 3 (e_msg 4 "INSERT" 10 "k1" "a"); LTick 10000 ["a"] []; LAccept 1; LAccept 0].
Example C05_pipeline_round_robin_reorders :
  let '(st, acc) := prun_acc (e_cfg RoundRobin) r_ls in
  dead (p_b st) = false /\ p_failed st = false /\
  wids acc = [(1, [4]); (0, [2; 3])]%N /\
  rec_ids (p_accepted st) = [4; 2; 3]%N /\
  map m_id (filter (accp (e_cfg RoundRobin) "a") (fed_of r_ls)) = [2; 3; 4]%N.
Proof. vm_compute. repeat split; reflexivity. Qed.

(* one worker, no partitioning (generic batches of 2, partition key ""), either routing: [2;3] accepted,
   [4] flushed by the tick and waiting; then accepted *)
Definition s_cfg (r : routing) := mkBcfg (BGeneric 2) (mkLimits 2 100 50) 1 r 1000 5000 1000.
Definition s_ls :=
  [LFeed 0 (e_msg 1 "BEGIN" 0 "k1" ""); LFeed 1 (e_msg 2 "INSERT" 10 "k1" ""); LFeed 2 (e_msg 3 "INSERT" 10 "k1" "");
   LFeed 3 (e_msg 4 "INSERT" 10 "k1" ""); LFeed 4 (e_msg 5 "COMMIT" 0 "k1" ""); LAccept 0; LRead; LTick 10000 [""] []; LEmit].
Example C05_pipeline_single_worker_nonvacuous :
  forallb (fun m => String.eqb (m_pkey m) "") (fed_of s_ls) = true /\
  map m_id (filter (fun m => change m && accepted (s_cfg RoundRobin) m) (fed_of s_ls)) = [2; 3; 4]%N /\
  rec_ids (p_accepted (prun (s_cfg RoundRobin) s_ls)) = [2; 3]%N /\
  rec_ids (p_accepted (prun (s_cfg ByPartition) s_ls)) = [2; 3]%N /\
  rec_ids (p_accepted (prun (s_cfg RoundRobin) (s_ls ++ [LAccept 0]))) = [2; 3; 4]%N /\
  rec_ids (p_accepted (prun (s_cfg ByPartition) (s_ls ++ [LAccept 0]))) = [2; 3; 4]%N.
Proof. vm_compute. repeat split; reflexivity. Qed.
