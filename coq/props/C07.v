(* C07 — transaction framing and delivery-instance identity.
   "Every message the client forwards carries the transaction id of the most recent BEGIN it
   received and a delivery key stamped at that BEGIN; the key is the same for all messages of one
   delivery of a transaction and different for every other delivery (also of the same
   transaction); a delivery has at most one COMMIT; a BEGIN that arrives although the previous
   transaction's COMMIT was not received is not forwarded: the connection is closed and
   replication is re-requested from the last received COMMIT."
   Quantifier: every first message and every list of loop iterations (see C03.v), no bound.
   Domain restrictions, each with its witness below:
   * [script_ok]: the operation string of an [XChange] event is neither "BEGIN" nor "COMMIT" (that
     is what XChange means: client.go compares Operation with exactly these two strings first);
   * one-COMMIT rule: [commits_ok] — between two BEGIN events at most one COMMIT, none before the
     first BEGIN, none between an ErrorResponse and the next BEGIN.  ErrorResponses themselves are
     inside the domain (since the repair of findings F2/F3 recovery emits its synthetic COMMIT
     only while a transaction is open; see also props/C02_client.v).
   The clock oracle of the model stamps the n-th BEGIN with the reading n (strictly increasing
   readings), so the key is [key_of txn n = txn ++ "-" ++ dec n].

   This file holds only statements closed by [exact], their assumptions, and non-vacuity examples.
   Vocabulary (proofs/ClientProofs2.v): [COut op txn key wal] = a message put on the output
   channel; [begin_keys obs] / [commit_keys obs] = keys of the forwarded BEGINs / COMMITs in
   order; [stamp_spec evs] = (txn, key, number of BEGIN events) folded over received events;
   [stamps 0 evs] = the keys stamped at the successive BEGIN events of [evs], forwarded or not. *)
From Bifrost.model Require Import Base Client.
From Bifrost.proofs Require Import ClientProofs ClientProofs2.

(* ---------------- attribution ---------------- *)
(* one iteration: a forwarded message is either the BEGIN just received, carrying its own
   transaction id and the key stamped now, or carries the id and key held at the loop head *)
Theorem C07_attribution : forall s it s' o op t k w,
  cstep s it = (s', o) -> In (COut op t k w) o ->
  (exists t', i_ev it = EXLog w (XBegin t') /\ t = t' /\ op = "BEGIN"%string /\ k = key_of t' (begins s)) \/
  (t = ctxn s /\ k = ckey s).
Proof. exact cstep_attribution. Qed.
Print Assumptions C07_attribution.

(* frame: id, key and clock change only when a BEGIN event is actually handled (forwarded or
   dropped), and then to that BEGIN's id, a key stamped with the current reading, the next reading *)
Theorem C07_stamp_frame : forall s it s' o,
  cstep s it = (s', o) ->
  (ctxn s' = ctxn s /\ ckey s' = ckey s /\ begins s' = begins s) \/
  (stopped s = false /\ i_pclosed it = false /\
   exists w t', i_ev it = EXLog w (XBegin t') /\
     ctxn s' = t' /\ ckey s' = key_of t' (begins s) /\ begins s' = (begins s + 1)%N).
Proof. exact cstep_stamp_frame. Qed.
Print Assumptions C07_stamp_frame.

(* exactly what one iteration forwards ([head_state s it] = [s] after the handleProgress call at
   the loop head: the same except that [overall] has absorbed the waiting progress values; only
   the position of recovery's synthetic COMMIT can depend on it).
   STATEMENT CHANGE (blocked-output loop): the condition [write_fails s it] is new.  It says: the
   event is an XLogData message that handleXLogData would forward (its WriteLoop is reached) and
   one of the ticks served there while the output channel is full finds the progress channel
   closed; then handleProgress's error is returned to Start and the message held is never
   forwarded (the client stops: C18_blocked_channel_closed_stops).  Without that condition the
   statement is false: C07_blocked_closed_not_forwarded.
   [ev_couts] of an ErrorResponse whose recovery FAILS ([EErrorResponseFail], the client stops:
   props/C17_client.v) is that of an ErrorResponse whose recovery succeeds: the synthetic COMMIT of
   the open transaction is forwarded before the failure. *)
Theorem C07_forwarded_exactly : forall s it,
  couts (snd (cstep s it)) =
  if stopped s || i_pclosed it || write_fails s it then [] else ev_couts (head_state s it) (i_ev it).
Proof. exact cstep_couts. Qed.
Print Assumptions C07_forwarded_exactly.

(* run level: in iteration k (after [its1]) of a running client every forwarded message is the
   BEGIN received in this iteration with a key stamped by the current clock reading, or carries
   the id and key of the most recent BEGIN event among the events received before *)
Theorem C07_attribution_run : forall first its1 it s' o op t k w,
  stopped (fst (crun first its1)) = false ->
  cstep (fst (crun first its1)) it = (s', o) -> In (COut op t k w) o ->
  (exists t', i_ev it = EXLog w (XBegin t') /\ op = "BEGIN"%string /\ t = t' /\
              k = key_of t' (snd (stamp_spec (map i_ev its1)))) \/
  (t = fst (fst (stamp_spec (map i_ev its1))) /\ k = snd (fst (stamp_spec (map i_ev its1)))).
Proof. exact crun_attribution. Qed.
Print Assumptions C07_attribution_run.

(* ---------------- keys ---------------- *)
(* no hypothesis on the transaction id (it may contain '-'): the decimal rendering has no '-' *)
Theorem C07_key_injective : forall t1 n1 t2 n2, key_of t1 n1 = key_of t2 n2 -> t1 = t2 /\ n1 = n2.
Proof. exact key_of_injective. Qed.
Print Assumptions C07_key_injective.

Theorem C07_key_unique : forall first its,
  script_ok its = true -> NoDup (begin_keys (snd (crun first its))).
Proof. exact crun_begin_keys_nodup. Qed.
Print Assumptions C07_key_unique.

(* more: the keys stamped at the successive BEGIN events (forwarded or dropped) are pairwise
   different, and the key held by a running client is the last of them *)
Theorem C07_stamps_unique : forall evs n, NoDup (stamps n evs).
Proof. exact stamps_nodup. Qed.
Print Assumptions C07_stamps_unique.

Theorem C07_key_is_last_stamp : forall first its, stopped (fst (crun first its)) = false ->
  ckey (fst (crun first its)) = last (stamps 0 (map i_ev its)) ""%string /\
  begins (fst (crun first its)) = N.of_nat (List.length (stamps 0 (map i_ev its))).
Proof. exact crun_key_is_last_stamp. Qed.
Print Assumptions C07_key_is_last_stamp.

(* ---------------- key scope, on the output list ---------------- *)
(* between a forwarded BEGIN and the next forwarded BEGIN or Close, every forwarded message
   carries that BEGIN's transaction id and key.
   ORIGINAL (DESIGN.md): "messages between two forwarded BEGINs share one key" without the Close
   clause — false of the model on arbitrary scripts, see C07_key_scope_across_close_refuted: a
   dropped BEGIN re-stamps id and key, and a script may continue with a change without a new
   BEGIN (PostgreSQL does not: after the reconnect it re-sends from a BEGIN). *)
Theorem C07_key_scope : forall first its pre t1 k1 w1 mid post op t k w,
  script_ok its = true ->
  snd (crun first its) = pre ++ COut "BEGIN" t1 k1 w1 :: mid ++ post ->
  (forall x, In x mid -> not_close_nor_begin x) ->
  In (COut op t k w) mid -> t = t1 /\ k = k1.
Proof. exact crun_key_scope. Qed.
Print Assumptions C07_key_scope.

(* the same as an executable monitor accepted on every run *)
Theorem C07_key_scope_monitor : forall first its,
  script_ok its = true -> scope_ok None (snd (crun first its)) = true.
Proof. exact crun_scope. Qed.
Print Assumptions C07_key_scope_monitor.

(* ---------------- at most one COMMIT per key ---------------- *)
(* [commits_ok true evs]: between two BEGIN events (and before the first) at most one COMMIT —
   none before the first BEGIN —, and no COMMIT between an ErrorResponse and the next BEGIN (the
   ErrorResponse gives the open transaction, if any, its one COMMIT).  ErrorResponses are allowed
   anywhere and in any number; one whose recovery fails ([EErrorResponseFail]) counts as an
   ErrorResponse here (same synthetic COMMIT; the client then stops, so nothing after it matters). *)
Theorem C07_one_commit : forall first its,
  script_ok its = true -> commits_ok true (map i_ev its) = true ->
  NoDup (commit_keys (snd (crun first its))).
Proof. exact crun_one_commit. Qed.
Print Assumptions C07_one_commit.

Definition c07_first : cev := EKeepalive 100 false false.
Definition c07_it (e : cev) : citer := mkIter false [] false e [] false [] false.

(* regression of finding F3: BEGIN, change, COMMIT, ErrorResponse is inside the domain and now
   forwards ONE COMMIT for the key (before the repair recovery emitted a second one) *)
Definition c07_f3 : list citer :=
  [ c07_it (EXLog 200 (XBegin "7")); c07_it (EXLog 300 (XChange "INSERT"));
    c07_it (EXLog 500 (XCommit "7")); c07_it (EErrorResponse 900) ].

Example C07_one_commit_error_response_regression_F3 :
  script_ok c07_f3 = true /\ commits_ok true (map i_ev c07_f3) = true /\
  couts (snd (crun c07_first c07_f3)) =
    [COut "BEGIN" "7" "7-0" 200; COut "INSERT" "7" "7-0" 300; COut "COMMIT" "7" "7-0" 500] /\
  commit_keys (snd (crun c07_first c07_f3)) = ["7-0"]%string.
Proof. vm_compute. repeat split. Qed.

(* regression of finding F2: an ErrorResponse inside the very first transaction (no COMMIT
   received yet, highestWalStart = 0) forwards the closing COMMIT stamped with the session start
   position 100 (the acknowledged position), not 0; a second ErrorResponse adds nothing *)
Definition c07_f2 : list citer :=
  [ c07_it (EXLog 200 (XBegin "7")); c07_it (EXLog 300 (XChange "INSERT"));
    c07_it (EErrorResponse 900); c07_it (EErrorResponse 950) ].

Example C07_error_response_in_first_transaction_F2 :
  script_ok c07_f2 = true /\ commits_ok true (map i_ev c07_f2) = true /\
  couts (snd (crun c07_first c07_f2)) =
    [COut "BEGIN" "7" "7-0" 200; COut "INSERT" "7" "7-0" 300; COut "COMMIT" "7" "7-0" 100] /\
  stopped (fst (crun c07_first c07_f2)) = false.
Proof. vm_compute. repeat split. Qed.

(* what [commits_ok] still excludes: a COMMIT arriving after a recovery without a new BEGIN
   would be a second COMMIT for the key the recovery closed *)
Example C07_commit_after_recovery_outside_domain :
  let its := [ c07_it (EXLog 200 (XBegin "7")); c07_it (EErrorResponse 900); c07_it (EXLog 500 (XCommit "7")) ] in
  commits_ok true (map i_ev its) = false /\
  commit_keys (snd (crun c07_first its)) = ["7-0"; "7-0"]%string.
Proof. vm_compute. split; reflexivity. Qed.

(* ---------------- BEGIN without the previous COMMIT ---------------- *)
(* ([i_pclosed it = false] says the handleProgress call at the loop head returned no error, see
   C07_loop_head_ok.)  The BEGIN is not forwarded — nothing is —, Close is called, the position
   to restart from is unchanged; C07_restart_after_drop: the next iteration that reaches the
   connection request issues START_REPLICATION at exactly that position. *)
Theorem C07_begin_without_commit : forall s it s' o w t,
  stopped s = false -> i_pclosed it = false ->
  saw_commit s = false -> first_iter s = false ->
  i_ev it = EXLog w (XBegin t) -> cstep s it = (s', o) ->
  couts o = [] /\ o = head_out s it ++ [CClose] /\ conn_open s' = false /\ highest s' = highest s /\
  first_iter s' = true /\ saw_commit s' = false /\ stopped s' = false /\
  ctxn s' = t /\ ckey s' = key_of t (begins s).
Proof. exact cstep_begin_without_commit. Qed.
Print Assumptions C07_begin_without_commit.

Theorem C07_loop_head_ok : forall s force vs closed,
  handle_progress s force vs closed <> None <-> closed = false.
Proof. exact hp_some_iff. Qed.
Print Assumptions C07_loop_head_ok.

Theorem C07_restart_after_drop : forall s it s' o,
  stopped s = false -> i_pclosed it = false -> conn_open s = false ->
  cstep s it = (s', o) -> exists rest, o = CGetStart (highest s) true :: rest.
Proof. exact cstep_after_drop. Qed.
Print Assumptions C07_restart_after_drop.

(* complementary: after a COMMIT, or on the first BEGIN of a session, the BEGIN is forwarded
   with a fresh key and the connection is kept.
   STATEMENT CHANGE (blocked-output loop): between the receive and the forwarded BEGIN now stand
   the observations of the ticks served while the output channel is full ([blocked_obs]: per
   tick a non-fresh connection request and a status update; [] when [i_blocked it = []], which
   gives back the former statement literally), and if one of those ticks finds the progress
   channel closed ([blocked_closed]) the stamped BEGIN is not forwarded: Close, Stop instead.
   STATEMENT CHANGE (silent connection death, [i_dies it]): the first of those connection requests
   is a fresh one iff the connection died at this message boundary (blocked_obs ... (negb (i_dies
   it)) ...), and afterwards the manager holds a connection iff it did not die or a tick
   reconnected ([blocked_conn]); with [i_dies it = false] the statement is as before. *)
Theorem C07_begin_accepted : forall s it s' o w t,
  stopped s = false -> i_pclosed it = false ->
  saw_commit s = true \/ first_iter s = true ->
  i_ev it = EXLog w (XBegin t) -> cstep s it = (s', o) ->
  o = head_out s it ++ blocked_obs (highest s) (negb (i_dies it)) (hp_val s (i_prog it)) (i_blocked it) ++
      (if blocked_closed (i_blocked it) then [CClose; CStop] else [COut "BEGIN" t (key_of t (begins s)) w]) /\
  conn_open s' = (if blocked_closed (i_blocked it) then false
                  else blocked_conn (negb (i_dies it)) (i_blocked it)) /\
  highest s' = highest s /\ first_iter s' = false /\ saw_commit s' = false /\
  stopped s' = blocked_closed (i_blocked it) /\
  ctxn s' = t /\ ckey s' = key_of t (begins s).
Proof. exact cstep_begin_accepted. Qed.
Print Assumptions C07_begin_accepted.

(* ---------------- non-vacuity and domain witnesses ---------------- *)
(* two deliveries of transaction 7 (the first loses its COMMIT: the BEGIN of the redelivery is
   dropped, the connection closed, PostgreSQL re-sends) and transaction 8 *)
Definition c07_run : list citer :=
  [ c07_it (EXLog 200 (XBegin "7")); c07_it (EXLog 300 (XChange "INSERT"));
    c07_it (EXLog 200 (XBegin "7"));                                   (* dropped: no COMMIT seen *)
    c07_it (EXLog 200 (XBegin "7")); c07_it (EXLog 300 (XChange "INSERT")); c07_it (EXLog 500 (XCommit "7"));
    c07_it (EXLog 600 (XBegin "8")); c07_it (EXLog 700 (XCommit "8")) ].

Example C07_run_forwarded :
  couts (snd (crun c07_first c07_run)) =
  [ COut "BEGIN" "7" "7-0" 200; COut "INSERT" "7" "7-0" 300;
    COut "BEGIN" "7" "7-2" 200; COut "INSERT" "7" "7-2" 300; COut "COMMIT" "7" "7-2" 500;
    COut "BEGIN" "8" "8-3" 600; COut "COMMIT" "8" "8-3" 700 ] /\
  script_ok c07_run = true /\ commits_ok true (map i_ev c07_run) = true /\
  begin_keys (snd (crun c07_first c07_run)) = ["7-0"; "7-2"; "8-3"]%string /\
  commit_keys (snd (crun c07_first c07_run)) = ["7-2"; "8-3"]%string /\
  stamps 0 (map i_ev c07_run) = ["7-0"; "7-1"; "7-2"; "8-3"]%string /\
  stopped (fst (crun c07_first c07_run)) = false.
Proof. vm_compute. repeat split. Qed.

(* the hypotheses of C07_begin_without_commit are met in that run (third iteration) *)
Example C07_begin_without_commit_nonvacuous :
  let s := fst (crun c07_first (firstn 2 c07_run)) in
  stopped s = false /\ saw_commit s = false /\ first_iter s = false /\
  snd (cstep s (c07_it (EXLog 200 (XBegin "7")))) = [CGetStart 0 false; CRecv; CClose] /\
  snd (cstep (fst (cstep s (c07_it (EXLog 200 (XBegin "7"))))) (c07_it ENil)) = [CGetStart 0 true; CRecv].
Proof. vm_compute. repeat split. Qed.

(* key scope without the Close clause is false on arbitrary scripts: after the dropped BEGIN of
   transaction 8 a change arrives without a new BEGIN and carries 8's stamp although the last
   FORWARDED BEGIN is 7's.  The Close between them is visible in the output. *)
Definition c07_scope_bad : list citer :=
  [ c07_it (EXLog 200 (XBegin "7")); c07_it (EXLog 600 (XBegin "8")); c07_it (EXLog 650 (XChange "INSERT")) ].

Theorem C07_key_scope_across_close_refuted :
  script_ok c07_scope_bad = true /\
  snd (crun c07_first c07_scope_bad) =
    [CGetStart 0 true; CRecv; CGetStart 0 false; CRecv] ++ COut "BEGIN" "7" "7-0" 200 ::
    [CGetStart 0 false; CRecv; CClose; CGetStart 0 true; CRecv; COut "INSERT" "8" "8-1" 650] ++ [] /\
  "8-1"%string <> "7-0"%string.
Proof. vm_compute. repeat split. discriminate. Qed.
Print Assumptions C07_key_scope_across_close_refuted.

(* why [script_ok] is a hypothesis: an [XChange] whose operation string is "BEGIN" is not a
   BEGIN for the client (XChange is by definition the other case) but would be counted as one here *)
Example C07_script_ok_needed :
  let its := [ c07_it (EXLog 200 (XBegin "7")); c07_it (EXLog 300 (XChange "BEGIN")) ] in
  script_ok its = false /\ begin_keys (snd (crun c07_first its)) = ["7-0"; "7-0"]%string.
Proof. vm_compute. split; reflexivity. Qed.

(* the blocked-output loop.  The first BEGIN of a session is accepted and stamped, the output
   channel is full, the first tick sends a status update, the second finds the progress channel
   closed: the BEGIN is NOT forwarded (so [ev_couts] alone would be wrong: the statement change of
   C07_forwarded_exactly), the client stops.  With no closed tick the BEGIN is forwarded after
   the updates. *)
Example C07_blocked_closed_not_forwarded :
  let s := fst (crun c07_first []) in
  let it := mkIter false [] false (EXLog 200 (XBegin "7")) [] false [([150], false); ([], true)]%N false in
  write_fails s it = true /\ couts (snd (cstep s it)) = [] /\
  ev_couts (head_state s it) (i_ev it) = [COut "BEGIN" "7" "7-0" 200] /\
  stopped (fst (cstep s it)) = true /\ ckey (fst (cstep s it)) = "7-0"%string.
Proof. vm_compute. repeat split. Qed.

Example C07_blocked_begin_forwarded_after_updates :
  let s := fst (crun c07_first []) in
  let it := mkIter false [] false (EXLog 200 (XBegin "7")) [] false [([150], false); ([], false)]%N false in
  write_fails s it = false /\
  snd (cstep s it) = [CGetStart 0 false; CRecv; CGetStart 0 false; CSend 150; CGetStart 0 false; CSend 150;
                      COut "BEGIN" "7" "7-0" 200] /\
  stopped (fst (cstep s it)) = false.
Proof. vm_compute. repeat split. Qed.

(* disconnects at every message boundary: the connection dies right after the change of
   transaction 7 was delivered; the change is forwarded with 7's stamp, the next loop head
   reconnects (START_REPLICATION at 0: no COMMIT received yet), PostgreSQL re-sends from BEGIN 7,
   which arrives without a preceding COMMIT: dropped, reconnect, and the redelivery gets a NEW key *)
Example C07_silent_death_at_message_boundary :
  let its := [ c07_it (EXLog 200 (XBegin "7"));
               mkIter false [] false (EXLog 300 (XChange "INSERT")) [] false [] true;
               c07_it (EXLog 200 (XBegin "7")); c07_it (EXLog 200 (XBegin "7"));
               c07_it (EXLog 300 (XChange "INSERT")); c07_it (EXLog 500 (XCommit "7")) ] in
  script_ok its = true /\ commits_ok true (map i_ev its) = true /\
  snd (crun c07_first its) =
    [CGetStart 0 true; CRecv; CGetStart 0 false; CRecv; COut "BEGIN" "7" "7-0" 200;
     CGetStart 0 false; CRecv; COut "INSERT" "7" "7-0" 300;
     CGetStart 0 true; CRecv; CClose;
     CGetStart 0 true; CRecv; COut "BEGIN" "7" "7-2" 200;
     CGetStart 0 false; CRecv; COut "INSERT" "7" "7-2" 300;
     CGetStart 0 false; CRecv; COut "COMMIT" "7" "7-2" 500].
Proof. vm_compute. repeat split. Qed.
