(* C18 — standby status updates keep flowing.
   "While running, the client sends a standby status update whenever the progress ticker has
   fired at the loop head, after every receive timeout, in reply to every keepalive that
   requests one — before it reads the next message —, and at every tick of the progress ticker
   that fires while the downstream channel is full and the client cannot hand over the message
   it holds; an iteration never spins silently: it either
   performs exactly one receive (bounded by the 5 s receive timeout) or the client stops, and
   stopping is always announced (Close, Stop)."
   Quantifier: every state / every first message and every list of loop iterations (see C03.v).

   What is NOT in this file: the wall-clock bound "two consecutive updates are at most P + R
   apart" (P = progress ticker period, R = receive timeout) of DESIGN.md.  It is a consequence
   of the four statements below (a tick that fired is polled at the next loop head, a loop head
   is reached after at most one receive, a receive lasts at most R and a timeout sends) PLUS timer
   delivery and scheduler latency, which are outside model/Client.v (the model has no clock: the
   ticker is the oracle bit [i_tick], the receive timeout the event [ETimeout], the ticks that
   fire while the output channel is full the list [i_blocked]).  The blocked-output loop of
   handleXLogData (select on the output channel and the ticker) IS modelled: C18_blocked_tick_sends
   and C18_blocked_channel_closed_stops below; that the ticker keeps firing while the client is
   blocked is, again, timer delivery.

   This file holds only statements closed by [exact], their assumptions, and non-vacuity examples.
   Vocabulary (proofs/ClientProofs2.v): [head_pre s it] = the observations of an iteration before
   its receive (connection requests and, if the ticker fired or the channel delivered a newer
   value, one CSend); [rapid s slow] = the rapid-heartbeat rule fires (more than 5 reply requests
   with less than 100 ms accumulated); [reaches_write_loop s e] = [e] is an XLogData message that
   handleXLogData forwards (BEGIN that is not dropped, change, COMMIT), i.e. its WriteLoop is
   reached; [i_blocked it] = one element per tick served in that WriteLoop while the output channel
   is full (values waiting on the progress channel at that tick, channel closed after them);
   [blocked_closed bl] = some tick finds the channel closed; [blocked_obs h conn cur bl] = the
   observations of those ticks: per tick CGetStart h fresh, CSend (position after absorbing the
   tick's values), up to the first tick that finds the channel closed; fresh = negb conn for the
   first tick (conn = the manager holds a live connection when the loop is entered = the
   connection did not die at this message boundary: negb (i_dies it)), false afterwards. *)
From Bifrost.model Require Import Base Client.
From Bifrost.proofs Require Import ClientProofs ClientProofs2.

(* keepalive with ReplyRequested, received by a running client whose loop-head handleProgress
   succeeded: either the progress channel is found closed at the second handleProgress — the
   client stops without replying: (Close, Stop) —, or the observations after the receive are
   exactly: connection request (a fresh one iff the connection died at this message boundary:
   [i_dies it]), CSend of the then-current position, and —
   only if the rapid-heartbeat rule fires — Close, Stop AFTER the reply. *)
Theorem C18_reply_before_next_read_exact : forall s it s' o w sl,
  stopped s = false -> i_pclosed it = false -> i_ev it = EKeepalive w true sl ->
  cstep s it = (s', o) ->
  (i_pclosed2 it = true /\ o = head_pre s it ++ CRecv :: [CClose; CStop] /\ stopped s' = true) \/
  (i_pclosed2 it = false /\
   o = head_pre s it ++ CRecv :: [CGetStart (highest s) (i_dies it); CSend (overall s')] ++
       (if rapid s sl then [CClose; CStop] else []) /\
   stopped s' = rapid s sl /\ overall s' = hp_val (head_state s it) (i_prog2 it)).
Proof. exact cstep_keepalive_reply. Qed.
Print Assumptions C18_reply_before_next_read_exact.

(* run level: the reply sits between the receive of iteration k and the next receive of the
   whole run; if instead the client stops, nothing follows.
   ([i_pclosed it = true] — channel closed at the loop head — means the keepalive was never
   received: the iteration is (Close, Stop), see C18_every_iteration_reads_or_stops.) *)
Theorem C18_reply_before_next_read : forall first its1 it its2 s' o w sl,
  stopped (fst (crun first its1)) = false -> i_pclosed it = false ->
  i_ev it = EKeepalive w true sl ->
  cstep (fst (crun first its1)) it = (s', o) ->
  exists A post,
    snd (crun first (its1 ++ it :: its2)) = A ++ CRecv :: post ++ snd (citers s' its2) /\
    ~ In CRecv post /\
    (In (CSend (overall s')) post \/ (In CStop post /\ snd (citers s' its2) = [])).
Proof. exact crun_keepalive_reply. Qed.
Print Assumptions C18_reply_before_next_read.

(* a status update follows every receive timeout (or the channel is closed and the client stops) *)
Theorem C18_timeout_sends : forall s it s' o,
  stopped s = false -> i_pclosed it = false -> i_ev it = ETimeout ->
  cstep s it = (s', o) ->
  (i_pclosed2 it = true /\ o = head_pre s it ++ CRecv :: [CClose; CStop] /\ stopped s' = true) \/
  (i_pclosed2 it = false /\
   o = head_pre s it ++ CRecv :: [CGetStart (highest s) (i_dies it); CSend (overall s')] /\
   stopped s' = false /\ overall s' = hp_val (head_state s it) (i_prog2 it)).
Proof. exact cstep_timeout. Qed.
Print Assumptions C18_timeout_sends.

(* the ticker fired: a status update precedes the receive of that iteration *)
Theorem C18_tick_sends : forall s it s' o,
  stopped s = false -> i_pclosed it = false -> i_tick it = true ->
  cstep s it = (s', o) ->
  exists post, o = CGetStart (highest s) (negb (conn_open s)) :: CSend (hp_val s (i_prog it)) ::
                   CGetStart (highest s) false :: CRecv :: post /\ ~ In CRecv post /\
               (overall s <= hp_val s (i_prog it))%N.
Proof. exact cstep_tick. Qed.
Print Assumptions C18_tick_sends.

(* the blocked-output loop.  A running client receives an XLogData message that is to be
   forwarded, the output channel is full for [length (i_blocked it)] ticks of the progress ticker
   and none of them finds the progress channel closed: the observations of the iteration are
   exactly  head ++ CRecv :: sends ++ [m]  where [sends] consists of one connection request
   (a fresh one only if the connection died at this message boundary; it carries highestWalStart
   including a held COMMIT) and ONE status update per tick - so the iteration's status updates number (1 if the loop head sent one) + (number of
   blocked ticks) -, and the message [m] is still forwarded afterwards; the client keeps running
   and holds the position after absorbing all the ticks' values. *)
Theorem C18_blocked_tick_sends : forall s it s' o,
  stopped s = false -> i_pclosed it = false ->
  reaches_write_loop s (i_ev it) = true -> blocked_closed (i_blocked it) = false ->
  cstep s it = (s', o) ->
  exists m sends,
    ev_couts (head_state s it) (i_ev it) = [m] /\
    o = head_pre s it ++ CRecv :: sends ++ [m] /\
    sends = blocked_obs (highest s') (negb (i_dies it)) (hp_val s (i_prog it)) (i_blocked it) /\
    (forall x, In x sends ->
       (exists f, x = CGetStart (highest s') f /\ (f = true -> i_dies it = true)) \/ exists v, x = CSend v) /\
    List.length (acks sends) = List.length (i_blocked it) /\
    List.length (acks o) = ((if head_sends s it then 1 else 0) + List.length (i_blocked it))%nat /\
    stopped s' = false /\
    overall s' = blocked_val (hp_val s (i_prog it)) (i_blocked it).
Proof. exact cstep_blocked_tick_sends. Qed.
Print Assumptions C18_blocked_tick_sends.

(* ... and when one of those ticks finds the progress channel closed: handleProgress returns the
   error to handleXLogData, which returns it to Start, which shuts down: the status updates of
   the ticks before it, then Close, Stop; the message held is never forwarded *)
Theorem C18_blocked_channel_closed_stops : forall s it s' o,
  stopped s = false -> i_pclosed it = false ->
  reaches_write_loop s (i_ev it) = true -> blocked_closed (i_blocked it) = true ->
  cstep s it = (s', o) ->
  o = head_pre s it ++ CRecv :: blocked_obs (highest s') (negb (i_dies it)) (hp_val s (i_prog it)) (i_blocked it) ++ [CClose; CStop] /\
  couts o = [] /\ stopped s' = true.
Proof. exact cstep_blocked_channel_closed. Qed.
Print Assumptions C18_blocked_channel_closed_stops.

(* no silent spinning: an iteration of a running client is (Close, Stop) or contains exactly
   one receive *)
Theorem C18_every_iteration_reads_or_stops : forall s it s' o,
  stopped s = false -> cstep s it = (s', o) ->
  (i_pclosed it = true /\ o = [CClose; CStop] /\ stopped s' = true) \/
  (i_pclosed it = false /\ exists pre post, o = pre ++ CRecv :: post /\ ~ In CRecv pre /\ ~ In CRecv post).
Proof. exact cstep_reads_once_or_stops. Qed.
Print Assumptions C18_every_iteration_reads_or_stops.

(* the client stops in an iteration iff that iteration ends with Close, Stop; afterwards it is
   silent (C03_stopped_is_silent) *)
Theorem C18_stop_is_announced : forall s it s' o,
  stopped s = false -> cstep s it = (s', o) ->
  (stopped s' = true <-> In CStop o) /\ (In CStop o -> exists pre, o = pre ++ [CClose; CStop]).
Proof. exact cstep_stop_announced. Qed.
Print Assumptions C18_stop_is_announced.

(* ---------------- non-vacuity ---------------- *)
Definition c18_first : cev := EKeepalive 100 false false.
Definition c18_ka (slow : bool) : citer := mkIter false [] false (EKeepalive 100 true slow) [] false [] false.

(* one reply request: answered before the next receive, the client keeps running *)
Example C18_reply_nonvacuous :
  snd (cstep (fst (crun c18_first [])) (c18_ka true)) =
    [CGetStart 0 false; CRecv; CGetStart 0 false; CSend 100] /\
  stopped (fst (cstep (fst (crun c18_first [])) (c18_ka true))) = false.
Proof. vm_compute. split; reflexivity. Qed.

(* six rapid reply requests: each of the six is answered; the sixth answer is followed by
   Close, Stop *)
Example C18_rapid_heartbeat :
  let its := repeat (c18_ka false) 6 in
  acks (snd (crun c18_first its)) = [100; 100; 100; 100; 100; 100]%N /\
  stopped (fst (crun c18_first (firstn 5 its))) = false /\
  rapid (fst (crun c18_first (firstn 5 its))) false = true /\
  snd (cstep (fst (crun c18_first (firstn 5 its))) (c18_ka false)) =
    [CGetStart 0 false; CRecv; CGetStart 0 false; CSend 100; CClose; CStop].
Proof. vm_compute. repeat split. Qed.

(* ticker and timeout *)
Example C18_tick_timeout_nonvacuous :
  snd (cstep (fst (crun c18_first [])) (mkIter true [150]%N false ETimeout [170]%N false [] false)) =
    [CGetStart 0 false; CSend 150; CGetStart 0 false; CRecv; CGetStart 0 false; CSend 170].
Proof. vm_compute. reflexivity. Qed.

(* progress channel closed at the loop head: the pending keepalive is never read *)
Example C18_closed_channel_stops :
  cstep (fst (crun c18_first [])) (mkIter false [] true (EKeepalive 100 true true) [] false [] false) =
    (stop (fst (crun c18_first [])), [CClose; CStop]).
Proof. vm_compute. reflexivity. Qed.

(* the blocked-output loop: the ticker fired at the loop head (one update, of 120 just delivered),
   then the change at 300 is held for three ticks (150 delivered at the first, nothing at the
   second, 140 - stale - at the third): three more updates, then the message is forwarded.  The
   hypotheses of C18_blocked_tick_sends hold. *)
Definition c18_blocked : citer :=
  mkIter true [120]%N false (EXLog 300 (XChange "INSERT")) [] false [([150], false); ([], false); ([140], false)]%N false.

Example C18_blocked_tick_sends_nonvacuous :
  let s := fst (crun c18_first [mkIter false [] false (EXLog 200 (XBegin "7")) [] false [] false]) in
  stopped s = false /\ i_pclosed c18_blocked = false /\
  reaches_write_loop s (i_ev c18_blocked) = true /\ blocked_closed (i_blocked c18_blocked) = false /\
  snd (cstep s c18_blocked) =
    [CGetStart 0 false; CSend 120; CGetStart 0 false; CRecv;
     CGetStart 0 false; CSend 150; CGetStart 0 false; CSend 150; CGetStart 0 false; CSend 150;
     COut "INSERT" "7" "7-0" 300] /\
  List.length (acks (snd (cstep s c18_blocked))) = 4%nat /\
  stopped (fst (cstep s c18_blocked)) = false.
Proof. vm_compute. repeat split. Qed.

(* the channel is closed at the second blocked tick: one update, Close, Stop, nothing forwarded *)
Example C18_blocked_channel_closed_nonvacuous :
  let s := fst (crun c18_first []) in
  let it := mkIter false [] false (EXLog 200 (XBegin "7")) [] false [([150], false); ([], true)]%N false in
  reaches_write_loop s (i_ev it) = true /\ blocked_closed (i_blocked it) = true /\
  snd (cstep s it) = [CGetStart 0 false; CRecv; CGetStart 0 false; CSend 150; CClose; CStop] /\
  stopped (fst (cstep s it)) = true.
Proof. vm_compute. repeat split. Qed.

(* a BEGIN that is dropped returns before the WriteLoop: blocked ticks play no role *)
Example C18_dropped_begin_never_blocks :
  let s := fst (crun c18_first [mkIter false [] false (EXLog 200 (XBegin "7")) [] false [] false]) in
  let it := mkIter false [] false (EXLog 600 (XBegin "8")) [] false [([150], false); ([], true)]%N false in
  reaches_write_loop s (i_ev it) = false /\
  snd (cstep s it) = [CGetStart 0 false; CRecv; CClose] /\ stopped (fst (cstep s it)) = false.
Proof. vm_compute. repeat split. Qed.

(* the connection dies at the boundary of a reply-requested keepalive: the reply is still sent
   before the next read - on a NEW connection (START_REPLICATION at highestWalStart) *)
Example C18_reply_after_silent_death :
  snd (cstep (fst (crun c18_first [])) (mkIter false [] false (EKeepalive 100 true true) [] false [] true)) =
    [CGetStart 0 false; CRecv; CGetStart 0 true; CSend 100].
Proof. vm_compute. reflexivity. Qed.
