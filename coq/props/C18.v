(* C18 — standby status updates keep flowing.
   "While running, the client sends a standby status update whenever the progress ticker has
   fired at the loop head, after every receive timeout, and in reply to every keepalive that
   requests one — before it reads the next message; an iteration never spins silently: it either
   performs exactly one receive (bounded by the 5 s receive timeout) or the client stops, and
   stopping is always announced (Close, Stop)."
   Quantifier: every state / every first message and every list of loop iterations (see C03.v).

   What is NOT in this file: the wall-clock bound "two consecutive updates are at most P + R
   apart" (P = progress ticker period, R = receive timeout) of DESIGN.md.  It is a consequence
   of the four statements below (a tick that fired is polled at the next loop head, a loop head
   is reached after at most one receive, a receive lasts at most R and a timeout sends) PLUS timer
   delivery and scheduler latency, which are outside model/Client.v (the model has no clock: the
   ticker is the oracle bit [i_tick], the receive timeout the event [ETimeout]).  The
   blocked-output loop of handleXLogData (select on the output channel and the ticker) is not
   modelled either: model/Client.v has no output-full event; C18_blocked_output is therefore not
   stated.

   This file holds only statements closed by [exact], their assumptions, and non-vacuity examples.
   Vocabulary (proofs/ClientProofs2.v): [head_pre s it] = the observations of an iteration before
   its receive (connection requests and, if the ticker fired or the channel delivered a newer
   value, one CSend); [rapid s slow] = the rapid-heartbeat rule fires (more than 5 reply requests
   with less than 100 ms accumulated). *)
From Bifrost.model Require Import Base Client.
From Bifrost.proofs Require Import ClientProofs ClientProofs2.

(* keepalive with ReplyRequested, received by a running client whose loop-head handleProgress
   succeeded: either the progress channel is found closed at the second handleProgress — the
   client stops without replying: (Close, Stop) —, or the observations after the receive are
   exactly: connection request (never a fresh one), CSend of the then-current position, and —
   only if the rapid-heartbeat rule fires — Close, Stop AFTER the reply. *)
Theorem C18_reply_before_next_read_exact : forall s it s' o w sl,
  stopped s = false -> i_pclosed it = false -> i_ev it = EKeepalive w true sl ->
  cstep s it = (s', o) ->
  (i_pclosed2 it = true /\ o = head_pre s it ++ CRecv :: [CClose; CStop] /\ stopped s' = true) \/
  (i_pclosed2 it = false /\
   o = head_pre s it ++ CRecv :: [CGetStart (highest s) false; CSend (overall s')] ++
       (if rapid s sl then [CClose; CStop] else []) /\
   stopped s' = rapid s sl /\ overall s' = hp_val (head_state s it) (i_prog2 it)).
Proof. exact cstep_keepalive_reply. Qed.
Print Assumptions C18_reply_before_next_read_exact.

(* run level: the reply sits between the receive of iteration k and the next receive of the
   whole run; if instead the client stops, nothing follows.
   ([i_pclosed it = true] — channel closed at the loop head — means the keepalive was never
   received: the iteration is (Close, Stop), see C18_every_iteration_reads_or_stops.) *)
Theorem C18_reply_before_next_read : forall first its1 it its2 s' o w sl,
  stopped (fst (crun first its1)) = false -> i_pclosed it = false ->
  i_ev it = EKeepalive w true sl ->
  cstep (fst (crun first its1)) it = (s', o) ->
  exists A post,
    snd (crun first (its1 ++ it :: its2)) = A ++ CRecv :: post ++ snd (citers s' its2) /\
    ~ In CRecv post /\
    (In (CSend (overall s')) post \/ (In CStop post /\ snd (citers s' its2) = [])).
Proof. exact crun_keepalive_reply. Qed.
Print Assumptions C18_reply_before_next_read.

(* a status update follows every receive timeout (or the channel is closed and the client stops) *)
Theorem C18_timeout_sends : forall s it s' o,
  stopped s = false -> i_pclosed it = false -> i_ev it = ETimeout ->
  cstep s it = (s', o) ->
  (i_pclosed2 it = true /\ o = head_pre s it ++ CRecv :: [CClose; CStop] /\ stopped s' = true) \/
  (i_pclosed2 it = false /\
   o = head_pre s it ++ CRecv :: [CGetStart (highest s) false; CSend (overall s')] /\
   stopped s' = false /\ overall s' = hp_val (head_state s it) (i_prog2 it)).
Proof. exact cstep_timeout. Qed.
Print Assumptions C18_timeout_sends.

(* the ticker fired: a status update precedes the receive of that iteration *)
Theorem C18_tick_sends : forall s it s' o,
  stopped s = false -> i_pclosed it = false -> i_tick it = true ->
  cstep s it = (s', o) ->
  exists post, o = CGetStart (highest s) (negb (conn_open s)) :: CSend (hp_val s (i_prog it)) ::
                   CGetStart (highest s) false :: CRecv :: post /\ ~ In CRecv post /\
               (overall s <= hp_val s (i_prog it))%N.
Proof. exact cstep_tick. Qed.
Print Assumptions C18_tick_sends.

(* no silent spinning: an iteration of a running client is (Close, Stop) or contains exactly
   one receive *)
Theorem C18_every_iteration_reads_or_stops : forall s it s' o,
  stopped s = false -> cstep s it = (s', o) ->
  (i_pclosed it = true /\ o = [CClose; CStop] /\ stopped s' = true) \/
  (i_pclosed it = false /\ exists pre post, o = pre ++ CRecv :: post /\ ~ In CRecv pre /\ ~ In CRecv post).
Proof. exact cstep_reads_once_or_stops. Qed.
Print Assumptions C18_every_iteration_reads_or_stops.

(* the client stops in an iteration iff that iteration ends with Close, Stop; afterwards it is
   silent (C03_stopped_is_silent) *)
Theorem C18_stop_is_announced : forall s it s' o,
  stopped s = false -> cstep s it = (s', o) ->
  (stopped s' = true <-> In CStop o) /\ (In CStop o -> exists pre, o = pre ++ [CClose; CStop]).
Proof. exact cstep_stop_announced. Qed.
Print Assumptions C18_stop_is_announced.

(* ---------------- non-vacuity ---------------- *)
Definition c18_first : cev := EKeepalive 100 false false.
Definition c18_ka (slow : bool) : citer := mkIter false [] false (EKeepalive 100 true slow) [] false.

(* one reply request: answered before the next receive, the client keeps running *)
Example C18_reply_nonvacuous :
  snd (cstep (fst (crun c18_first [])) (c18_ka true)) =
    [CGetStart 0 false; CRecv; CGetStart 0 false; CSend 100] /\
  stopped (fst (cstep (fst (crun c18_first [])) (c18_ka true))) = false.
Proof. vm_compute. split; reflexivity. Qed.

(* six rapid reply requests: each of the six is answered; the sixth answer is followed by
   Close, Stop *)
Example C18_rapid_heartbeat :
  let its := repeat (c18_ka false) 6 in
  acks (snd (crun c18_first its)) = [100; 100; 100; 100; 100; 100]%N /\
  stopped (fst (crun c18_first (firstn 5 its))) = false /\
  rapid (fst (crun c18_first (firstn 5 its))) false = true /\
  snd (cstep (fst (crun c18_first (firstn 5 its))) (c18_ka false)) =
    [CGetStart 0 false; CRecv; CGetStart 0 false; CSend 100; CClose; CStop].
Proof. vm_compute. repeat split. Qed.

(* ticker and timeout *)
Example C18_tick_timeout_nonvacuous :
  snd (cstep (fst (crun c18_first [])) (mkIter true [150]%N false ETimeout [170]%N false)) =
    [CGetStart 0 false; CSend 150; CGetStart 0 false; CRecv; CGetStart 0 false; CSend 170].
Proof. vm_compute. reflexivity. Qed.

(* progress channel closed at the loop head: the pending keepalive is never read *)
Example C18_closed_channel_stops :
  cstep (fst (crun c18_first [])) (mkIter false [] true (EKeepalive 100 true true) [] false) =
    (stop (fst (crun c18_first [])), [CClose; CStop]).
Proof. vm_compute. reflexivity. Qed.
