(* C01 — no WAL position is acknowledged before its data is in the sink.
   COMPOSITION level: batcher -> per-worker queues -> sink -> written channel -> progress ledger, as
   wired by app/runner.go (model/Pipeline.v).  Every theorem is for ALL configurations with at least
   one worker (any routing, batch kind and size, ages, memory limit) and ALL label lists: every
   schedule, worker speed, tick placement and, because every prefix of a label list is a label list,
   every crash point.  This file holds only statements closed by [exact], their assumptions,
   refutation witnesses and non-vacuity examples (by vm_compute).

   Vocabulary (model/Pipeline.v, proofs/PipelineProofs.v, proofs/LedgerOrder.v, proofs/BatcherProofs.v):
     prun cfg ls            the state after the labels ls (LFeed / LTick / LAccept w / LRead / LEmit)
     p_lops st              ghost: the operations applied to the ledger so far, in order
     p_accepted st          ghost: the records the sink has accepted;  p_acked st: positions acknowledged
     fed_of ls              the messages handed to the batcher by ls
     certified k h          sum of the Written counts for delivery key k in history h
     nchanges k ms          number of changes (not BEGIN/COMMIT) with delivery key k in ms
     framed ms              BEGIN k opens a block with a fresh delivery key; changes and the optional COMMIT carry k
     fate_of cfg m          FAccepted / FDroppedBig (counted) / FDroppedInvalid, decided by the change alone
     released_keys h, current k h, first_pos k h, WF h, no_stale h ...   as in props/C01_ledger_order.v
     workers_ok cfg         1 <= c_workers cfg *)
From Bifrost.model Require Import Base Crc32 Batch Batcher Ledger.
From Bifrost.proofs Require Import BatchProofs BatcherProofs LedgerProofs LedgerOrder.
From Bifrost.model Require Import Pipeline.
From Bifrost.proofs Require Import PipelineProofs.

(* I1 — the ledger really executed the ghost history: while the tracker has not failed, running p_lops
   from the empty ledger gives no error, ends in the pipeline's ledger, and emits exactly p_acked.
   Every ledger-layer theorem (C01.v, C01_ledger_order.v, C02_ledger_drain.v) therefore applies. *)
Theorem C01_pipeline_ledger_agrees : forall cfg ls, p_failed (prun cfg ls) = false ->
  exists rs, lrun empty_ledger (p_lops (prun cfg ls)) = (p_ledger (prun cfg ls), rs) /\
             ~ In RError rs /\ emitted rs = p_acked (prun cfg ls).
Proof. exact pipeline_ledger_agrees. Qed.
Print Assumptions C01_pipeline_ledger_agrees.

(* I2 — the batcher component is a run of model/Batcher.v (so every theorem of C01_batcher.v, C04.v, C05.v,
   C06.v, C15.v, C16.v applies to its trace t) and the rest of the state is a projection of that trace
   (record PI in proofs/PipelineProofs.v): the batches ever dispatched are, as a multiset, the accepted
   ones [accb] plus those still queued; the transaction maps of accepted batches plus the reported empty
   maps are the maps read [readm] plus those waiting in the written channel; the sink is the items of
   accb in acceptance order; the Seen / Written ops of the ghost history are exactly the OSeenList outputs /
   the entries of readm, in order; fed_of ls extends the messages the batcher really received by those
   offered after it or the tracker had stopped. *)
Theorem C01_pipeline_batcher_agrees : forall cfg ls,
  exists evs t accb readm, PI cfg ls (prun cfg ls) evs t accb readm.
Proof. exact pipeline_batcher_agrees. Qed.
Print Assumptions C01_pipeline_batcher_agrees.

(* I3 — accounting per delivery key (batcher and tracker alive): what the ledger was told + what waits
   in the written channel + what waits in the worker queues + what is still open in the batcher = the
   changes of that key handed over and not dropped as invalid *)
Theorem C01_pipeline_accounting : forall cfg ls k, workers_ok cfg ->
  dead (p_b (prun cfg ls)) = false -> p_failed (prun cfg ls) = false ->
  (certified k (p_lops (prun cfg ls)) + zsum (txcount k) (p_written (prun cfg ls)) +
   zsum (fun b => txcount k (b_txns b)) (queued (p_queues (prun cfg ls))) + open_txcount k (p_b (prun cfg ls)))%Z =
  Z.of_nat (List.length (filter (fun m => change m && (String.eqb (m_key m) k && negb (is_invalid cfg m))) (fed_of ls))).
Proof. exact pipeline_accounting. Qed.
Print Assumptions C01_pipeline_accounting.

(* I4 — the sink holds only records of handed-over changes whose fate is "accepted", each at most once *)
Theorem C01_pipeline_sink_sound : forall cfg ls, workers_ok cfg ->
  forall r, In r (p_accepted (prun cfg ls)) ->
  exists m, In m (fed_of ls) /\ is_marker m = false /\ fate_of cfg m = FAccepted /\ r = rec_of_kind (c_kind cfg) m.
Proof. exact pipeline_sink_sound. Qed.
Print Assumptions C01_pipeline_sink_sound.

Theorem C01_pipeline_sink_at_most_once : forall cfg ls, workers_ok cfg -> NoDup (map m_id (fed_of ls)) ->
  NoDup (map r_id (p_accepted (prun cfg ls))).
Proof. exact pipeline_sink_nodup. Qed.
Print Assumptions C01_pipeline_sink_at_most_once.

(* L1 lifted through I1: every acknowledged position was announced by a Seen carrying exactly that
   commit position, and at least the announced number of changes of that very delivery has been
   reported written (stale completions included; also after a tracker failure) *)
Theorem C01_pipeline_acked_from_ledger : forall cfg ls, workers_ok cfg ->
  forall F, In F (p_acked (prun cfg ls)) ->
  exists t k n, In (OSeen t k n F) (p_lops (prun cfg ls)) /\ (n <= certified k (p_lops (prun cfg ls)))%Z.
Proof. exact pipeline_acked_from_ledger. Qed.
Print Assumptions C01_pipeline_acked_from_ledger.

(* ... and it is the commit of a delivery the ledger released *)
Theorem C01_pipeline_acked_released : forall cfg ls, workers_ok cfg ->
  forall F, In F (p_acked (prun cfg ls)) ->
  exists t k n, In (OSeen t k n F) (p_lops (prun cfg ls)) /\ In k (released_keys (p_lops (prun cfg ls))).
Proof. exact pipeline_acked_released. Qed.
Print Assumptions C01_pipeline_acked_released.

(* THE HALF OF C01 THAT HOLDS UNCONDITIONALLY.  Whenever a position F is acknowledged, EVERY change of
   the delivery k it was announced for has been accepted by the sink, or was dropped as too big and
   counted; none was dropped as invalid; the ledger was told exactly the announced number, which is the
   number of changes of k handed over.  For every schedule, worker count, routing, batch kind and size,
   tick placement, stale completions included.  (Stronger than asked: no hypothesis p_failed = false.) *)
Theorem C01_pipeline_released_complete : forall cfg ls, workers_ok cfg ->
  NoDup (map m_id (fed_of ls)) -> framed (fed_of ls) = true ->
  forall F, In F (p_acked (prun cfg ls)) ->
  exists t k n, In (OSeen t k n F) (p_lops (prun cfg ls)) /\
    certified k (p_lops (prun cfg ls)) = n /\ n = nchanges k (fed_of ls) /\
    (forall m, In m (fed_of ls) -> is_marker m = false -> m_key m = k -> fate_of cfg m = FAccepted ->
               In (m_id m) (map r_id (p_accepted (prun cfg ls)))) /\
    (forall m, In m (fed_of ls) -> is_marker m = false -> m_key m = k -> fate_of cfg m <> FDroppedInvalid).
Proof. exact pipeline_released_complete. Qed.
Print Assumptions C01_pipeline_released_complete.

(* the same for EVERY delivery the ledger has released (also one released in the middle of a prefix,
   whose own commit position was never the acknowledged value), at every prefix ls1 of an execution
   ls1 ++ ls2 and about all changes of the whole execution: nothing handed over later belongs to it *)
Theorem C01_pipeline_released_keys_complete : forall cfg ls1 ls2, workers_ok cfg ->
  NoDup (map m_id (fed_of (ls1 ++ ls2))) -> framed (fed_of (ls1 ++ ls2)) = true ->
  forall k, In k (released_keys (p_lops (prun cfg ls1))) ->
  exists t n c, In (OSeen t k n c) (p_lops (prun cfg ls1)) /\
    certified k (p_lops (prun cfg ls1)) = n /\ n = nchanges k (fed_of (ls1 ++ ls2)) /\
    (forall m, In m (fed_of (ls1 ++ ls2)) -> is_marker m = false -> m_key m = k -> fate_of cfg m = FAccepted ->
               In (m_id m) (map r_id (p_accepted (prun cfg ls1)))) /\
    (forall m, In m (fed_of (ls1 ++ ls2)) -> is_marker m = false -> m_key m = k -> fate_of cfg m <> FDroppedInvalid).
Proof. exact pipeline_released_keys_complete. Qed.
Print Assumptions C01_pipeline_released_keys_complete.

(* ---------------------------------------------------------------------------------------------- *)
(* The ORDER half.  Full statement (FALSE of the model and, by finding F1, of the code):
     forall cfg ls, workers_ok cfg -> NoDup ids -> framed (fed_of ls) ->
       forall F, In F (p_acked (prun cfg ls)) ->
       forall c, In c (fed_of ls) -> is_commit c = true -> (m_wal c <= F)%N ->
       forall m, In m (fed_of ls) -> change of the LAST delivery of c's transaction, fate accepted ->
                 In (m_id m) (map r_id (p_accepted (prun cfg ls))).                                     *)

(* finding F1 at pipeline level (2 workers, generic batch size 1, round robin; see f1_ls in
   proofs/PipelineProofs.v): transaction 701 delivered partially under kx1 with batch [3] still queued
   at the slow worker 1, redelivered under kx2 (changes 5, 6, commit 100), transaction 702 complete
   (commit 200); the old batch of kx1 is accepted and read AFTER kx2 was mentioned.  Result: 200 is
   acknowledged while change 6 of the current delivery kx2 of the EARLIER transaction is not in the
   sink.  Every hypothesis of C01_pipeline_released_complete holds.  Of the six conjuncts of the
   ledger contract WF the ghost history violates exactly no_stale. *)
Theorem C01_pipeline_order_refuted :
  let st := prun f1_cfg f1_ls in
  workers_ok f1_cfg /\ NoDup (map m_id (fed_of f1_ls)) /\ framed (fed_of f1_ls) = true /\ p_failed st = false /\
  In 200%N (p_acked st) /\
  In (OSeen "701" "kx2" 2 100) (p_lops st) /\ In (OSeen "702" "ky" 1 200) (p_lops st) /\ (100 < 200)%N /\
  In (f1_mk 6 "INSERT" "kx2" "701" 12) (fed_of f1_ls) /\ fate_of f1_cfg (f1_mk 6 "INSERT" "kx2" "701" 12) = FAccepted /\
  ~ In 6%N (map r_id (p_accepted st)) /\
  map (fun q => (fst q, map ids (snd q))) (p_queues st) = [(0%N, []); (1%N, [[6%N]])] /\
  ~ no_stale (p_lops st) /\
  key_txn_fun (p_lops st) /\ seen_once (p_lops st) /\ commit_nonzero (p_lops st) /\ pos_counts (p_lops st) /\
  no_over_report (p_lops st).
Proof.
  cbv zeta.
  split; [unfold workers_ok; vm_compute; discriminate|].
  split; [vm_compute; repeat constructor; simpl; intuition discriminate|].
  split; [vm_compute; reflexivity|]. split; [vm_compute; reflexivity|].
  split; [vm_compute; auto|]. split; [vm_compute; auto|]. split; [vm_compute; auto 10|]. split; [reflexivity|].
  split; [vm_compute; auto 10|]. split; [reflexivity|].
  split; [vm_compute; intuition discriminate|]. split; [vm_compute; reflexivity|].
  split; [intros H; apply no_staleb_ok in H; vm_compute in H; discriminate|].
  split; [apply key_txn_funb_ok; vm_compute; reflexivity|].
  split; [apply seen_onceb_ok; vm_compute; reflexivity|].
  split; [apply commit_nonzerob_ok; vm_compute; reflexivity|].
  split; [apply pos_countsb_ok; vm_compute; reflexivity|].
  apply no_over_reportb_ok; vm_compute; reflexivity.
Qed.
Print Assumptions C01_pipeline_order_refuted.

(* SECOND WITNESS, new at this level: the ledger-level contract WF is too weak to exclude F1.  In
   f1b_ls the old delivery kx1 is mentioned for the FIRST time after kx2 (its only batch was the one
   in flight).  The ghost history then satisfies ALL SIX conjuncts of WF — the ledger cannot know that
   kx1 is older than kx2, it takes kx1 for the newer delivery, and [current "kx2"] is false in the
   history — and still 200 is acknowledged while change 5 of kx2 is not in the sink.  A repair, and any
   positive pipeline-level order theorem, must order delivery instances by BEGIN order; the keys
   alone do not carry it. *)
Theorem C01_pipeline_order_wf_insufficient :
  let st := prun f1_cfg f1b_ls in
  workers_ok f1_cfg /\ NoDup (map m_id (fed_of f1b_ls)) /\ framed (fed_of f1b_ls) = true /\ p_failed st = false /\
  WF (p_lops st) /\ ~ current "kx2" (p_lops st) /\ current "kx1" (p_lops st) /\
  In 200%N (p_acked st) /\ In (OSeen "701" "kx2" 2 100) (p_lops st) /\ (100 < 200)%N /\
  In (f1_mk 5 "INSERT" "kx2" "701" 12) (fed_of f1b_ls) /\ ~ In 5%N (map r_id (p_accepted st)).
Proof.
  cbv zeta.
  split; [unfold workers_ok; vm_compute; discriminate|].
  split; [vm_compute; repeat constructor; simpl; intuition discriminate|].
  split; [vm_compute; reflexivity|]. split; [vm_compute; reflexivity|].
  split; [apply wf_hist_ok; vm_compute; reflexivity|].
  split; [apply not_current_by_compute; vm_compute; reflexivity|].
  split; [apply current_by_compute; vm_compute; reflexivity|].
  split; [vm_compute; auto|]. split; [vm_compute; auto|]. split; [reflexivity|].
  split; [vm_compute; auto 10|]. vm_compute; intuition discriminate.
Qed.
Print Assumptions C01_pipeline_order_wf_insufficient.

(* ---------- the ledger contract from pipeline facts ---------- *)
(* Five of the six conjuncts of WF are consequences of the composition: pos_counts from
   UpdateTransactions, no_over_report from I3 and the Seen totals (C04_totals), seen_once from framing,
   key_txn_fun and commit_nonzero from two properties of the input stream (one transaction id per
   delivery key; no COMMIT at position 0 — finding F2 violates exactly the latter).  What remains to
   be assumed is E5, no stale completion. *)
Theorem C01_pipeline_WF_from_facts : forall cfg ls, workers_ok cfg -> framed (fed_of ls) = true ->
  key_txn_ok (fed_of ls) -> commits_nonzero (fed_of ls) ->
  no_stale (p_lops (prun cfg ls)) -> WF (p_lops (prun cfg ls)).
Proof. exact pipeline_WF. Qed.
Print Assumptions C01_pipeline_WF_from_facts.

(* E5 is free when no transaction is redelivered (one delivery key per transaction id): then no completion
   can be stale, for every schedule, and C01_pipeline_order_partial / C02_pipeline_drains need no
   hypothesis on the history at all *)
Theorem C01_pipeline_no_stale_uninterrupted : forall cfg ls, workers_ok cfg -> framed (fed_of ls) = true ->
  txn_one_key (fed_of ls) -> no_stale (p_lops (prun cfg ls)).
Proof. exact pipeline_no_stale_uninterrupted. Qed.
Print Assumptions C01_pipeline_no_stale_uninterrupted.

(* non-vacuity: two transactions, no redelivery, the second one's batch accepted and read first *)
Definition un_ls : list plabel :=
  [ LFeed 0 (f1_mk 1 "BEGIN" "ka" "7" 10); LFeed 0 (f1_mk 2 "INSERT" "ka" "7" 11); LFeed 0 (f1_mk 3 "COMMIT" "ka" "7" 100);
    LFeed 0 (f1_mk 4 "BEGIN" "kb" "8" 150); LFeed 0 (f1_mk 5 "INSERT" "kb" "8" 151); LFeed 0 (f1_mk 6 "COMMIT" "kb" "8" 200);
    LAccept 1; LRead; LEmit; LAccept 0; LRead; LEmit ].
Example C01_pipeline_no_stale_uninterrupted_nonvacuous :
  workers_ok f1_cfg /\ framed (fed_of un_ls) = true /\ txn_one_key (fed_of un_ls) /\
  p_lops (prun f1_cfg un_ls) = [OSeen "7" "ka" 1 100; OSeen "8" "kb" 1 200; OWritten "8" "kb" 1; OEmit;
                                OWritten "7" "ka" 1; OEmit] /\
  p_acked (prun f1_cfg un_ls) = [200%N] /\ p_acked (prun f1_cfg (firstn 9 un_ls)) = [].
Proof.
  split; [unfold workers_ok; vm_compute; discriminate|]. split; [vm_compute; reflexivity|].
  split.
  { intros m m' Hm Hm' E. vm_compute in Hm, Hm'.
    repeat (destruct Hm as [<-|Hm]; [repeat (destruct Hm' as [<-|Hm']; [first [reflexivity|discriminate E]|]); destruct Hm'|]).
    destruct Hm. }
  vm_compute. repeat split; reflexivity.
Qed.

(* ledger level, over whole histories (complements C01_ledger_order_safe, which speaks about one
   emission): under the contract the released keys are closed under "current and first mentioned earlier" *)
Theorem C01_ledger_released_prefix_closed : forall h, WF h ->
  forall k, In k (released_keys h) ->
  forall k', current k' h -> first_pos k' h < first_pos k h -> In k' (released_keys h).
Proof. exact released_prefix_closed. Qed.
Print Assumptions C01_ledger_released_prefix_closed.

(* ORDER, partial: without stale completions every acknowledged position F is the commit of a released
   delivery k, and k as well as every delivery k' that the ledger history shows as current and first
   mentioned before k is released AND completely in the sink.  ("current" is the ledger's notion; by
   C01_pipeline_order_wf_insufficient it is weaker than "latest delivery of its transaction".) *)
Theorem C01_pipeline_order_partial : forall cfg ls, workers_ok cfg ->
  NoDup (map m_id (fed_of ls)) -> framed (fed_of ls) = true ->
  key_txn_ok (fed_of ls) -> commits_nonzero (fed_of ls) -> no_stale (p_lops (prun cfg ls)) ->
  let h := p_lops (prun cfg ls) in
  WF h /\
  forall F, In F (p_acked (prun cfg ls)) ->
  exists t k n, In (OSeen t k n F) h /\ In k (released_keys h) /\
    forall k', (k' = k \/ (current k' h /\ first_pos k' h < first_pos k h)) ->
      In k' (released_keys h) /\
      exists t' n' c', In (OSeen t' k' n' c') h /\ certified k' h = n' /\ n' = nchanges k' (fed_of ls) /\
        (forall m, In m (fed_of ls) -> is_marker m = false -> m_key m = k' -> fate_of cfg m = FAccepted ->
                   In (m_id m) (map r_id (p_accepted (prun cfg ls)))) /\
        (forall m, In m (fed_of ls) -> is_marker m = false -> m_key m = k' -> fate_of cfg m <> FDroppedInvalid).
Proof. exact pipeline_order_partial. Qed.
Print Assumptions C01_pipeline_order_partial.

(* ---------- non-vacuity ---------- *)
(* nv_ls (proofs/PipelineProofs.v): 2 workers, a redelivery (k71 -> k72), out-of-order accepts
   (worker 1 before worker 0), four tracker ticks, no stale completion.  Every hypothesis of
   C01_pipeline_released_complete and of C01_pipeline_order_partial holds, 200 IS acknowledged, the
   older current delivery k72 (first mentioned at 2 < 3) is released with it, the superseded k71 is
   not current, and the sink holds everything. *)
Example C01_pipeline_nonvacuous :
  let st := prun f1_cfg nv_ls in let h := p_lops st in
  workers_ok f1_cfg /\ NoDup (map m_id (fed_of nv_ls)) /\ framed (fed_of nv_ls) = true /\
  key_txn_ok (fed_of nv_ls) /\ commits_nonzero (fed_of nv_ls) /\ no_stale h /\ p_failed st = false /\
  p_acked st = [200%N] /\ released_keys h = ["k72"; "k81"] /\
  current "k72" h /\ current "k81" h /\ ~ current "k71" h /\ first_pos "k72" h < first_pos "k81" h /\
  map r_id (p_accepted st) = [2; 4; 8; 5]%N /\
  h = [OWritten "7" "k71" 1; OEmit; OSeen "7" "k72" 2 100; OSeen "8" "k81" 1 200; OWritten "7" "k72" 1;
       OWritten "8" "k81" 1; OEmit; OWritten "7" "k72" 1; OEmit; OEmit].
Proof.
  cbv zeta.
  split; [unfold workers_ok; vm_compute; discriminate|].
  split; [vm_compute; repeat constructor; simpl; intuition discriminate|].
  split; [vm_compute; reflexivity|].
  split.
  { intros m m' Hm Hm' E. vm_compute in Hm, Hm'.
    repeat (destruct Hm as [<-|Hm]; [repeat (destruct Hm' as [<-|Hm']; [first [reflexivity|discriminate E]|]); destruct Hm'|]).
    destruct Hm. }
  split.
  { intros m Hm Hc. vm_compute in Hm. repeat (destruct Hm as [<-|Hm]; [first [discriminate Hc|vm_compute; discriminate]|]). destruct Hm. }
  split; [apply no_staleb_ok; vm_compute; reflexivity|]. split; [vm_compute; reflexivity|].
  split; [vm_compute; reflexivity|]. split; [vm_compute; reflexivity|].
  split; [apply current_by_compute; vm_compute; reflexivity|].
  split; [apply current_by_compute; vm_compute; reflexivity|].
  split; [apply not_current_by_compute; vm_compute; reflexivity|].
  split; [vm_compute; lia|]. split; vm_compute; reflexivity.
Qed.

(* at the crash point just before the last tick of worker 0's batch nothing is acknowledged yet although
   k81 is complete: it waits behind k72 (1 of 2 changes certified) *)
Example C01_pipeline_nonvacuous_blocked :
  let st := prun f1_cfg (firstn 17 nv_ls) in
  p_acked st = [] /\ map fst (items (p_ledger st)) = ["k72"; "k81"] /\
  certified "k72" (p_lops st) = 1%Z /\ certified "k81" (p_lops st) = 1%Z /\
  map r_id (p_accepted st) = [2; 4; 8]%N.
Proof. vm_compute. repeat split; reflexivity. Qed.
