(* C05 — WAL order inside every batch and per partition key; routing of batches to workers.
   This file holds only statements closed by [exact], their assumptions, and non-vacuity examples.
   Vocabulary (proofs/BatchProofs.v, proofs/BatcherProofs.v):
     fed t / dispatched t     the messages received / the (worker, batch) pairs handed to workers, in order
     dispatched_for p t       the dispatched batches whose partition key is p, in dispatch order
     open_items p st          the items of the batch still open under key p ([] if none)
     accp cfg p m             m is a change, its fate is FAccepted, and m_pkey m = p
     sublist a b              a is a subsequence of b (order kept)
     workers_ok cfg           1 <= c_workers cfg *)
From Bifrost.model Require Import Base Crc32 Batch Batcher.
From Bifrost.proofs Require Import BatchProofs BatcherProofs.

(* the records (hence the ids) of a dispatched batch are a subsequence of what was received; holds for
   EVERY run, also one that later stops fatally *)
Theorem C05_in_batch : forall cfg evs st t,
  workers_ok cfg -> brun cfg binit evs = (st, t) ->
  forall w b, In (w, b) (dispatched t) ->
    sublist (b_items b) (map (rec_of_kind (c_kind cfg)) (fed t)) /\ sublist (ids b) (map m_id (fed t)).
Proof. exact run_in_batch_all. Qed.
Print Assumptions C05_in_batch.

(* per partition key: the batches dispatched for p, concatenated in dispatch order, followed by the
   open batch of p, are EXACTLY the records of the accepted changes with key p in arrival order:
   nothing reordered across batches, nothing lost, duplicated or invented (equality of lists) *)
Theorem C05_per_key : forall cfg evs st t,
  workers_ok cfg -> brun cfg binit evs = (st, t) -> dead st = false ->
  forall p,
    flat_map (fun wb => b_items (snd wb)) (dispatched_for p t) ++ open_items p st =
    map (rec_of_kind (c_kind cfg)) (filter (accp cfg p) (fed t)).
Proof. exact run_per_key. Qed.
Print Assumptions C05_per_key.

Corollary C05_per_key_ids : forall cfg evs st t,
  workers_ok cfg -> brun cfg binit evs = (st, t) -> dead st = false ->
  forall p,
    flat_map (fun wb => ids (snd wb)) (dispatched_for p t) ++ map r_id (open_items p st) =
    map m_id (filter (accp cfg p) (fed t)).
Proof. exact run_per_key_ids. Qed.
Print Assumptions C05_per_key_ids.

(* partition routing: the worker is crc32(partition key) mod workers, as computed by utils.QuickHash (every run) *)
Theorem C05_partition_routing : forall cfg evs st t,
  workers_ok cfg -> c_routing cfg = ByPartition -> brun cfg binit evs = (st, t) ->
  forall w b, In (w, b) (dispatched t) -> Some w = quick_hash (b_pkey b) (c_workers cfg).
Proof. exact run_partition_routing_all. Qed.
Print Assumptions C05_partition_routing.

(* round robin: the workers of successive dispatched batches are 0,1,...,workers-1,0,... (every run) *)
Theorem C05_round_robin : forall cfg evs st t,
  workers_ok cfg -> c_routing cfg = RoundRobin -> brun cfg binit evs = (st, t) ->
  map fst (dispatched t) = map (fun i => (N.of_nat i mod c_workers cfg)%N) (seq 0 (List.length (dispatched t))).
Proof. exact run_round_robin_all. Qed.
Print Assumptions C05_round_robin.

(* ... and roundRobinPosition is the number of batches dispatched so far, mod workers *)
Corollary C05_round_robin_position : forall cfg evs st t,
  workers_ok cfg -> c_routing cfg = RoundRobin -> brun cfg binit evs = (st, t) -> dead st = false ->
  map fst (dispatched t) = map (fun i => (N.of_nat i mod c_workers cfg)%N) (seq 0 (List.length (dispatched t))) /\
  rr st = (N.of_nat (List.length (dispatched t)) mod c_workers cfg)%N.
Proof. exact run_round_robin. Qed.
Print Assumptions C05_round_robin_position.

(* ---- non-vacuity ---- *)
Definition x_msg (id : N) (op : string) (jlen : N) (key pk : string) := mkMsg id op "t" jlen key "tx" id pk.
Definition x_evs :=
  [BMsg 0 (x_msg 1 "BEGIN" 0 "k1" "a"); BMsg 1 (x_msg 2 "INSERT" 10 "k1" "a"); BMsg 2 (x_msg 3 "INSERT" 60 "k1" "b");
   BMsg 3 (x_msg 4 "INSERT" 10 "k1" "a"); BMsg 4 (x_msg 5 "INSERT" 10 "k1" "a"); BMsg 5 (x_msg 6 "COMMIT" 0 "k1" "a");
   BMsg 6 (x_msg 7 "INSERT" 10 "k2" "b"); BTick 10000 ["a"; "b"] []].
Definition x_cfg (r : routing) := mkBcfg (BKinesis KBatch) (mkLimits 2 100 50) 3 r 1000 5000 1000.

(* key "a": two batches [2;4] then [5]; key "b": record 3 is dropped as too big, 7 goes out with the tick *)
Example C05_per_key_nonvacuous :
  let '(st, t) := brun (x_cfg ByPartition) binit x_evs in
  dead st = false /\
  map (fun wb => ids (snd wb)) (dispatched_for "a" t) = [[2; 4]; [5]]%N /\
  map m_id (filter (accp (x_cfg ByPartition) "a") (fed t)) = [2; 4; 5]%N /\
  map m_id (filter (accp (x_cfg ByPartition) "b") (fed t)) = [7]%N.
Proof. vm_compute. auto. Qed.

Example C05_routing_nonvacuous :
  map fst (dispatched (snd (brun (x_cfg ByPartition) binit x_evs))) = [0; 0; 2]%N /\
  quick_hash "a" 3 = Some 0%N /\ quick_hash "b" 3 = Some 2%N /\
  map fst (dispatched (snd (brun (x_cfg RoundRobin) binit x_evs))) = [0; 1; 2]%N.
Proof. vm_compute. auto. Qed.
