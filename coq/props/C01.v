(* C01 — no WAL position is acknowledged before its data is in the sink.
   This file holds only statements closed by [exact], their assumptions, and non-vacuity examples. *)
From Bifrost.model Require Import Base Ledger.
From Bifrost.proofs Require Import LedgerProofs.

(* L1 (ledger layer, every history and every completion order, stale or not): a position is only
   ever emitted if a Seen announced exactly that commit position for some delivery key, and at
   least the announced number of messages of that very delivery have been reported written. *)
Theorem C01_L1_emission_sound : forall ops1 ops2 l rs f,
  nonneg_counts (ops1 ++ OEmit :: ops2) ->
  lrun empty_ledger ops1 = (l, rs) -> ~ In RError rs ->
  fst (emit l) = Some f ->
  f <> 0%N /\
  exists t k n, In (OSeen t k n f) ops1 /\ (n <= certified k ops1)%Z.
Proof. exact ledger_emission_sound. Qed.
Print Assumptions C01_L1_emission_sound.

(* finding F1: the ORDER half of the ledger contract fails when a completion of a superseded
   delivery arrives after the newer delivery was mentioned: 200 is emitted while transaction 701
   (commit 100, 3 changes) has no delivery with 3 certified changes. *)
Definition f1_ops : list lop :=
  [ OWritten "701" "701-1" 1; OSeen "701" "701-2" 3 100; OSeen "702" "702-3" 1 200;
    OWritten "702" "702-3" 1; OWritten "701" "701-1" 1; OEmit ].

Theorem C01_ledger_order_refuted :
  snd (lrun empty_ledger f1_ops) = [RNone; RNone; RNone; RNone; RNone; REmit 200] /\
  In (OSeen "701" "701-2" 3 100) f1_ops /\ (100 < 200)%N /\
  (certified "701-1" f1_ops < 3)%Z /\ (certified "701-2" f1_ops < 3)%Z.
Proof. vm_compute. repeat split; auto; discriminate. Qed.
Print Assumptions C01_ledger_order_refuted.

(* non-vacuity of L1: a run that satisfies every premise and does emit *)
Example C01_L1_nonvacuous :
  let ops1 := [OWritten "7" "7-1" 2; OSeen "7" "7-1" 2 50] in
  nonneg_counts (ops1 ++ OEmit :: []) /\
  ~ In RError (snd (lrun empty_ledger ops1)) /\
  fst (emit (fst (lrun empty_ledger ops1))) = Some 50%N.
Proof.
  split; [|split].
  - intros t k n [H|[H|[H|[]]]]; inversion H; lia.
  - vm_compute. intuition discriminate.
  - reflexivity.
Qed.
