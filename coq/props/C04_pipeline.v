(* C04 at the SINK — every change that passes the filter reaches the sink exactly once, intact; nothing
   invented, nothing duplicated, nothing lost short of the counted drops.  props/C04.v states this for
   "dispatched by the batcher"; here it is stated for "ACCEPTED BY THE SINK" on the composed model
   model/Pipeline.v (batcher -> per-worker FIFO queues -> sink -> written queue -> ledger), for every
   configuration with >= 1 worker and EVERY schedule: a schedule is a label list (LFeed / LTick /
   LAccept w / LRead / LEmit in any interleaving; a slow worker is a late [LAccept w]).
   This file holds only statements closed by [exact], their assumptions, and non-vacuity examples.
   Vocabulary (model/Pipeline.v, proofs/BatcherProofs.v, proofs/PipelineProofs.v, proofs/PipelineE2E.v):
     prun cfg ls                  the state after the labels ls;  fed_of ls = the messages fed
     p_accepted st                ghost: every record the sink has accepted, in acceptance order
     p_queues st / queued qs      the worker queues / all batches waiting in them
     rec_ids l = map r_id l;  queued_ids qs = the ids of all waiting batches;  open_ids b = the ids in open batches
     change m = not BEGIN/COMMIT; accepted / is_big / is_invalid cfg m = the three values of fate_of cfg m
     rec_of_kind k m              the record the batch of kind k makes of the marshalled message m
     dead (p_b st)                the batcher stopped fatally;  p_failed st = the tracker panicked *)
From Bifrost.model Require Import Base Crc32 Batch Batcher Ledger Pipeline.
From Bifrost.proofs Require Import BatchProofs BatcherProofs PipelineProofs PipelineE2E.
From Coq Require Import Permutation.

(* conservation at every moment of every schedule: as multisets of ids, the fed changes that the
   batch limits accept = accepted by the sink + waiting in a worker queue + still open in the batcher;
   the drop counters count the others.  Side conditions: batcher and tracker alive — after either
   stops, LFeed labels are no-ops (nobody receives), see C04_pipeline_conservation_needs_alive. *)
Theorem C04_pipeline_conservation : forall cfg ls, workers_ok cfg ->
  dead (p_b (prun cfg ls)) = false -> p_failed (prun cfg ls) = false ->
  Permutation (map m_id (filter (fun m => change m && accepted cfg m) (fed_of ls)))
              (rec_ids (p_accepted (prun cfg ls)) ++ queued_ids (p_queues (prun cfg ls)) ++
               open_ids (p_b (prun cfg ls))) /\
  drops_big (p_b (prun cfg ls)) =
    N.of_nat (List.length (filter (fun m => change m && is_big cfg m) (fed_of ls))) /\
  drops_invalid (p_b (prun cfg ls)) =
    N.of_nat (List.length (filter (fun m => change m && is_invalid cfg m) (fed_of ls))).
Proof. exact pipeline_conservation. Qed.
Print Assumptions C04_pipeline_conservation.

(* exactly once, every schedule, NO side condition on the run: if the fed messages have pairwise
   distinct ids, no id is accepted twice (nothing duplicated) and every accepted id is the id of a
   fed change that the limits accept (nothing invented) *)
Theorem C04_pipeline_exactly_once : forall cfg ls, workers_ok cfg -> NoDup (map m_id (fed_of ls)) ->
  NoDup (rec_ids (p_accepted (prun cfg ls))) /\
  forall i, In i (rec_ids (p_accepted (prun cfg ls))) ->
            In i (map m_id (filter (fun m => change m && accepted cfg m) (fed_of ls))).
Proof. exact pipeline_exactly_once. Qed.
Print Assumptions C04_pipeline_exactly_once.

(* nothing lost: once every worker queue is empty and no open batch holds a record, the sink has
   accepted exactly the fed changes that the limits accept, and the two drop statistics are the
   numbers of too-big / invalid changes fed *)
Theorem C04_pipeline_complete_at_quiescence : forall cfg ls, workers_ok cfg ->
  dead (p_b (prun cfg ls)) = false -> p_failed (prun cfg ls) = false ->
  queued (p_queues (prun cfg ls)) = [] -> open_ids (p_b (prun cfg ls)) = [] ->
  Permutation (rec_ids (p_accepted (prun cfg ls)))
              (map m_id (filter (fun m => change m && accepted cfg m) (fed_of ls))) /\
  drops_big (p_b (prun cfg ls)) =
    N.of_nat (List.length (filter (fun m => change m && is_big cfg m) (fed_of ls))) /\
  drops_invalid (p_b (prun cfg ls)) =
    N.of_nat (List.length (filter (fun m => change m && is_invalid cfg m) (fed_of ls))).
Proof. exact pipeline_complete_at_quiescence. Qed.
Print Assumptions C04_pipeline_complete_at_quiescence.

(* "the batcher holds no open batch" implies the hypothesis used above *)
Theorem C04_pipeline_no_open_batch : forall st, open st = [] -> open_ids st = [].
Proof. exact open_nil_ids. Qed.
Print Assumptions C04_pipeline_no_open_batch.

(* intact, every schedule, no side condition: the sink's record list is, record by record, the
   marshalled form ([rec_of_kind]: id, record key, JSON length) of fed changes that the limits accept *)
Theorem C04_pipeline_records_intact : forall cfg ls, workers_ok cfg ->
  exists ms, p_accepted (prun cfg ls) = map (rec_of_kind (c_kind cfg)) ms /\
    forall m, In m ms -> In m (fed_of ls) /\ change m = true /\ accepted cfg m = true.
Proof. exact pipeline_records_intact. Qed.
Print Assumptions C04_pipeline_records_intact.

Corollary C04_pipeline_record_intact : forall cfg ls, workers_ok cfg ->
  forall r, In r (p_accepted (prun cfg ls)) ->
  exists m, In m (fed_of ls) /\ change m = true /\ accepted cfg m = true /\ r = rec_of_kind (c_kind cfg) m.
Proof. exact pipeline_record_intact. Qed.
Print Assumptions C04_pipeline_record_intact.

(* ---- non-vacuity: 2 workers, partition routing; key "a" hashes to worker 1, key "d" to worker 0.
   Worker 1 is slow: the batch [2;4] of key "a" is dispatched FIRST but accepted only after both
   batches of key "d".  Record 5 (60 bytes > 50) is dropped as too big and counted. ---- *)
Definition e_msg (id : N) (op : string) (jlen : N) (key pk : string) := mkMsg id op "t" jlen key "tx" id pk.
Definition e_cfg := mkBcfg (BKinesis KBatch) (mkLimits 2 100 50) 2 ByPartition 1000 5000 1000.
Definition e_feeds :=
  [LFeed 0 (e_msg 1 "BEGIN" 0 "k1" "a"); LFeed 1 (e_msg 2 "INSERT" 10 "k1" "a"); LFeed 2 (e_msg 3 "INSERT" 10 "k1" "d");
   LFeed 3 (e_msg 4 "INSERT" 10 "k1" "a"); LFeed 4 (e_msg 5 "INSERT" 60 "k1" "d"); LFeed 5 (e_msg 6 "INSERT" 10 "k1" "a");
   LFeed 6 (e_msg 7 "INSERT" 10 "k1" "d"); LFeed 7 (e_msg 8 "INSERT" 10 "k1" "d"); LFeed 8 (e_msg 9 "COMMIT" 0 "k1" "a")].
(* in the middle: [3;7] accepted, [2;4] waiting behind the slow worker, 6 and 8 still open *)
Definition e_mid := e_feeds ++ [LAccept 0; LRead].
(* to the end: tick flushes [6] and [8]; worker 0 again first *)
Definition e_all := e_mid ++ [LTick 10000 ["a"; "d"] []; LEmit; LAccept 0; LAccept 1; LRead; LAccept 1; LRead; LRead; LEmit].

Example C04_pipeline_nonvacuous_mid :
  let st := prun e_cfg e_mid in
  dead (p_b st) = false /\ p_failed st = false /\ NoDup (map m_id (fed_of e_mid)) /\
  map m_id (filter (fun m => change m && accepted e_cfg m) (fed_of e_mid)) = [2; 3; 4; 6; 7; 8]%N /\
  rec_ids (p_accepted st) = [3; 7]%N /\ queued_ids (p_queues st) = [2; 4]%N /\ open_ids (p_b st) = [6; 8]%N /\
  drops_big (p_b st) = 1%N /\ drops_invalid (p_b st) = 0%N.
Proof.
  vm_compute. repeat split; try reflexivity.
  repeat (constructor; [simpl; intros H; repeat (destruct H as [H|H]; [discriminate|]); exact H|]). constructor.
Qed.

Example C04_pipeline_nonvacuous_quiescent :
  let st := prun e_cfg e_all in
  dead (p_b st) = false /\ p_failed st = false /\ queued (p_queues st) = [] /\ open_ids (p_b st) = [] /\
  rec_ids (p_accepted st) = [3; 7; 8; 2; 4; 6]%N /\
  map m_id (filter (fun m => change m && accepted e_cfg m) (fed_of e_all)) = [2; 3; 4; 6; 7; 8]%N /\
  p_accepted st = map (rec_of_kind (c_kind e_cfg))
                      (map (fun i => e_msg i "INSERT" 10 "k1" (if (i =? 2) || (i =? 4) || (i =? 6) then "a" else "d")%N)
                           [3; 7; 8; 2; 4; 6]%N) /\
  drops_big (p_b st) = 1%N /\ p_acked st = [9]%N.
Proof. vm_compute. repeat split; reflexivity. Qed.

(* the side condition of C04_pipeline_conservation is needed: a generic batch of maximum size 0 makes
   the batcher stop fatally on the first change (Add returns ERR_BATCH_FULL on a fresh batch); what is
   "fed" afterwards is received by nobody *)
Definition f_cfg := mkBcfg (BGeneric 0) (mkLimits 2 100 50) 2 ByPartition 1000 5000 1000.
Definition f_ls := [LFeed 0 (e_msg 1 "BEGIN" 0 "k1" "a"); LFeed 1 (e_msg 2 "INSERT" 10 "k1" "a"); LFeed 2 (e_msg 3 "INSERT" 10 "k1" "a")].
Example C04_pipeline_conservation_needs_alive :
  let st := prun f_cfg f_ls in
  dead (p_b st) = true /\
  map m_id (filter (fun m => change m && accepted f_cfg m) (fed_of f_ls)) = [2; 3]%N /\
  rec_ids (p_accepted st) ++ queued_ids (p_queues st) ++ open_ids (p_b st) = [].
Proof. vm_compute. repeat split; reflexivity. Qed.
