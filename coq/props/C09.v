(* C09 — decoder fidelity for everything test_decoding can print.
   Only statements closed by [exact], their assumptions, non-vacuity examples and vm_compute
   witnesses.  Model: model/Parse.v (decoder), model/TestDecoding.v (reference printer, trusted). *)
From Bifrost.model Require Import Base TestDecoding Parse.
From Bifrost.proofs Require Import ParseProofs ParseRoundtrip.

(* ---- totality: ANY byte string, no bound.  No Go slice expression of the state machine is out
        of range (Panic), the loop terminates within len+2 iterations (OutOfFuel). ---- *)
Theorem C09_total : forall s, parse_full s <> Panic /\ parse_full s <> OutOfFuel.
Proof. exact parse_full_never_panics. Qed.
Print Assumptions C09_total.

Theorem C09_total_result : forall s, (exists r, parse_full s = Ok r) \/ parse_full s = Err.
Proof. exact parse_full_total. Qed.
Print Assumptions C09_total_result.

(* ---- round trip.  FULL statement (refuted below by bit strings):
          forall c, WF c = true -> exists r, parse_full (print c) = Ok r /\ accepts c r = true
        where [accepts] lets a BIT/VARBIT value come back either as the datum (Quoted) or as
        the raw literal B'..' (unquoted).
        Proved: the same for every change without a bit-string value, over the WHOLE grammar:
        BEGIN/COMMIT; INSERT/UPDATE/DELETE with or without old-key / new-tuple sections and
        (no-tuple-data); TRUNCATE of any list of relations with any flags; ANY schema/table/
        column identifiers (byte strings, quote_identifier decides the quoting); ANY type string
        accepted by [type_ok] (brackets outside double quotes closed by the next ']', nesting
        depth <= 1, quoted parts closed) — which includes everything format_type_be prints
        (C09_types_printable); values null / unchanged-toast-datum / unquoted output without
        space, quote, NUL / ANY quoted text.
        WF besides type_ok and the unquoted-value condition: the LAST printed tuple is not
        empty (zero-column relation: see C09_roundtrip_empty_tuple_refuted). ---- *)
Theorem C09_roundtrip_partial : forall c,
  WF c = true -> no_bit c = true -> parse_full (print c) = Ok (expected c).
Proof. exact roundtrip_nobit. Qed.
Print Assumptions C09_roundtrip_partial.

(* the partial theorem in the shape of the full statement *)
Corollary C09_roundtrip_partial_accepts : forall c,
  WF c = true -> no_bit c = true -> exists r, parse_full (print c) = Ok r /\ accepts c r = true.
Proof. exact roundtrip_accepts. Qed.
Print Assumptions C09_roundtrip_partial_accepts.

(* every type name format_type_be can print meets WF's condition on type strings *)
Theorem C09_types_printable : forall t, pgtype_ok t = true -> type_ok (format_type t) = true.
Proof. exact format_type_ok. Qed.
Print Assumptions C09_types_printable.

(* with distinct printed column names the expected map is just the list of columns *)
Theorem C09_expected_is_column_list : forall t,
  NoDup (map (fun c => quote_ident (c_name c)) t) -> exp_cols [] t = map col_entry t.
Proof. intros t H. exact (exp_cols_distinct t [] H). Qed.
Print Assumptions C09_expected_is_column_list.

(* ---- finding F5: a bit string literal B'1010' is scanned as a quoted value whose first and
        last bytes are stripped: value "'1010", Quoted = true — neither the datum nor the
        literal.  The full statement is false. ---- *)
Definition f5_change : change :=
  CInsert "public" "t" (Some [mkCol "b" "bit varying" (VBit "1010")]).

Theorem C09_roundtrip_refuted :
  WF f5_change = true /\
  print f5_change = "table public.t: INSERT: b[bit varying]:B'1010'" /\
  exists r, parse_full (print f5_change) = Ok r /\
            pr_cols r = [("b", mkCV "'1010" "bit varying" true)] /\
            accepts f5_change r = false.
Proof.
  split; [reflexivity|]. split; [reflexivity|].
  eexists. split; [vm_compute; reflexivity|]. split; reflexivity.
Qed.
Print Assumptions C09_roundtrip_refuted.

(* ---- second deviation: a change of a relation without live columns prints nothing after the
        operation ("table public.t: INSERT:") and is REJECTED; hence WF's non-empty condition ---- *)
Theorem C09_roundtrip_empty_tuple_refuted :
  print (CInsert "public" "t" (Some [])) = "table public.t: INSERT:" /\
  parse_full (print (CInsert "public" "t" (Some []))) = Err.
Proof. split; vm_compute; reflexivity. Qed.
Print Assumptions C09_roundtrip_empty_tuple_refuted.

(* ---- non-vacuity ---- *)
(* an UPDATE with keyword-quoted relation, old key, quoted column name containing brackets,
   colon and a doubled quote, array-of-quoted-type, text with quotes/brackets/newline, null,
   unchanged-toast-datum: satisfies WF and no_bit, and decodes to [expected] *)
Definition ex_update : change :=
  CUpdate "My Schema" "user"
    (Some [mkCol "id" "integer" (VRaw "7"); mkCol "old-key" "text" (VText "k: 'v'")])
    (Some [mkCol "id" "integer" (VRaw "-7");
           mkCol "a[1]: ""x""" """My]Type""[]" (VText "it's ]: [x] 'q'''");
           mkCol "note" "character varying" VNull;
           mkCol "big" "public.""T T""" VToast;
           mkCol "e" "text" (VText "")]).

Example C09_partial_nonvacuous :
  WF ex_update = true /\ no_bit ex_update = true /\
  print ex_update =
    "table ""My Schema"".""user"": UPDATE: old-key: id[integer]:7 ""old-key""[text]:'k: ''v''' new-tuple: id[integer]:-7 ""a[1]: """"x""""""[""My]Type""[]]:'it''s ]: [x] ''q''''''' note[character varying]:null big[public.""T T""]:unchanged-toast-datum e[text]:''" /\
  parse_full (print ex_update) = Ok (expected ex_update) /\
  pr_old (expected ex_update) =
    [("id", mkCV "7" "integer" false); ("""old-key""", mkCV "k: 'v'" "text" true)].
Proof. repeat split; vm_compute; reflexivity. Qed.

Example C09_types_nonvacuous :
  pgtype_ok (TBuiltin "timestamp with time zone" true) = true /\
  format_type (TBuiltin "timestamp with time zone" true) = "timestamp with time zone[]" /\
  format_type (TNamed (Some "My Schema") "user" true) = """My Schema"".""user""[]" /\
  format_type (TQuotedChar false) = """char""".
Proof. repeat split; reflexivity. Qed.

(* TRUNCATE of several relations: the Relation field is the comma separated list as printed
   (the decoder has a single Relation string; /repo's TestTruncateCascade asserts exactly this,
   so it is the intended reading and [expected] follows it) *)
Example C09_truncate_multi :
  parse_full (print (CTruncate [("public", "customers"); ("public", "orders")] false true)) =
  Ok (mkPR "" "public.customers, public.orders" "TRUNCATE" false [] []).
Proof. vm_compute. reflexivity. Qed.

(* garbage and truncated input: a result or an error, computed *)
Example C09_total_examples :
  parse_full "" = Err /\ parse_full "table" = Err /\
  parse_full "table public.t: INSERT: a[int]:'x" = Err /\
  parse_full "table x: y: []: " = Err /\
  parse_full "BEGIN 1 2" = Err.
Proof. repeat split; vm_compute; reflexivity. Qed.
