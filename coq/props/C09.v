(* C09 — decoder fidelity for everything test_decoding can print.
   Only statements closed by [exact], their assumptions, non-vacuity examples and vm_compute
   witnesses.  Model: model/Parse.v (decoder), model/TestDecoding.v (reference printer, trusted). *)
From Bifrost.model Require Import Base TestDecoding Parse.
From Bifrost.proofs Require Import ParseProofs ParseRoundtrip.

(* ---- totality: ANY byte string, no bound.  No Go slice or index expression of the state
        machine is out of range (Panic) — including message[startStr] and message[startStr+1]
        of the bit-string fix ced041a — and the loop terminates within len+2 iterations
        (OutOfFuel).  This is also ALL that is claimed for inputs test_decoding cannot print, in
        particular a token that begins with B' without being a bit literal (e.g. an unquoted
        B'x y' or B'p'q'r'): whenever a value token ends a quoted part and starts with B', the
        B and the quote after it are dropped together with the last byte and the rest is
        reported Quoted (C09_total_b_prefix_example); a result or an error, never a panic. ---- *)
Theorem C09_total : forall s, parse_full s <> Panic /\ parse_full s <> OutOfFuel.
Proof. exact parse_full_never_panics. Qed.
Print Assumptions C09_total.

Theorem C09_total_result : forall s, (exists r, parse_full s = Ok r) \/ parse_full s = Err.
Proof. exact parse_full_total. Qed.
Print Assumptions C09_total_result.

(* ---- round trip, over the WHOLE grammar of test_decoding's default output:
        BEGIN/COMMIT; INSERT/UPDATE/DELETE with or without old-key / new-tuple sections and
        (no-tuple-data); TRUNCATE of any list of relations with any flags; ANY schema/table/
        column identifiers (byte strings, quote_identifier decides the quoting); ANY type string
        accepted by [type_ok] (brackets outside double quotes closed by the next ']', nesting
        depth <= 1, quoted parts closed) — which includes everything format_type_be prints
        (C09_types_printable); values null / unchanged-toast-datum / unquoted output without
        space, quote, NUL / bit strings B'..' whose digits contain no quote (decoded to the
        digits, Quoted; finding F5 fixed by ced041a) / ANY quoted text.
        The ONLY exclusion (hence "partial"): WF requires the LAST printed tuple to have at
        least one column.  A change of a relation without live columns prints nothing after
        the operation and is rejected (finding F5b, C09_roundtrip_empty_tuple_refuted); the
        full statement  forall c, WF' c -> parse_full (print c) = Ok (expected c)  with WF'
        lacking that condition is therefore false. ---- *)
Theorem C09_roundtrip_partial : forall c, WF c = true -> parse_full (print c) = Ok (expected c).
Proof. exact roundtrip. Qed.
Print Assumptions C09_roundtrip_partial.

(* every type name format_type_be can print meets WF's condition on type strings *)
Theorem C09_types_printable : forall t, pgtype_ok t = true -> type_ok (format_type t) = true.
Proof. exact format_type_ok. Qed.
Print Assumptions C09_types_printable.

(* with distinct printed column names the expected map is just the list of columns *)
Theorem C09_expected_is_column_list : forall t,
  NoDup (map (fun c => quote_ident (c_name c)) t) -> exp_cols [] t = map col_entry t.
Proof. intros t H. exact (exp_cols_distinct t [] H). Qed.
Print Assumptions C09_expected_is_column_list.

(* ---- finding F5 (fixed by ced041a): B'1010' used to decode to "'1010"; regression witness ---- *)
Definition f5_change : change :=
  CInsert "public" "t" (Some [mkCol "b" "bit varying" (VBit "1010")]).

Example C09_bit_regression :
  WF f5_change = true /\
  print f5_change = "table public.t: INSERT: b[bit varying]:B'1010'" /\
  parse_full (print f5_change) =
    Ok (mkPR "" "public.t" "INSERT" false [("b", mkCV "1010" "bit varying" true)] []).
Proof. repeat split; vm_compute; reflexivity. Qed.

(* an unquoted token starting with B' that is no bit literal (not printable by test_decoding) *)
Example C09_total_b_prefix_example :
  parse_full "table public.t: INSERT: a[text]:B'x y' b[text]:B'' c[text]:Bx'1' d[text]:B'p'q'r'" =
    Ok (mkPR "" "public.t" "INSERT" false
          [("a", mkCV "x y" "text" true); ("b", mkCV "" "text" true);
           ("c", mkCV "x'1" "text" true); ("d", mkCV "p'q'r" "text" true)] []).
Proof. vm_compute. reflexivity. Qed.

(* ---- finding F5b (known): a change of a relation without live columns prints nothing after the
        operation ("table public.t: INSERT:") and is REJECTED; hence WF's non-empty condition ---- *)
Theorem C09_roundtrip_empty_tuple_refuted :
  print (CInsert "public" "t" (Some [])) = "table public.t: INSERT:" /\
  parse_full (print (CInsert "public" "t" (Some []))) = Err.
Proof. split; vm_compute; reflexivity. Qed.
Print Assumptions C09_roundtrip_empty_tuple_refuted.

(* ---- non-vacuity ---- *)
(* an UPDATE with keyword-quoted relation, old key, quoted column name containing brackets,
   colon and a doubled quote, array-of-quoted-type, text with quotes/brackets/newline, null,
   unchanged-toast-datum, bit string: satisfies WF, and decodes to [expected] *)
Definition ex_update : change :=
  CUpdate "My Schema" "user"
    (Some [mkCol "id" "integer" (VRaw "7"); mkCol "old-key" "text" (VText "k: 'v'")])
    (Some [mkCol "id" "integer" (VRaw "-7");
           mkCol "a[1]: ""x""" """My]Type""[]" (VText "it's ]: [x] 'q'''");
           mkCol "note" "character varying" VNull;
           mkCol "big" "public.""T T""" VToast;
           mkCol "e" "text" (VText "");
           mkCol "flags" "bit(4)" (VBit "0101")]).

Example C09_partial_nonvacuous :
  WF ex_update = true /\
  print ex_update =
    "table ""My Schema"".""user"": UPDATE: old-key: id[integer]:7 ""old-key""[text]:'k: ''v''' new-tuple: id[integer]:-7 ""a[1]: """"x""""""[""My]Type""[]]:'it''s ]: [x] ''q''''''' note[character varying]:null big[public.""T T""]:unchanged-toast-datum e[text]:'' flags[bit(4)]:B'0101'" /\
  parse_full (print ex_update) = Ok (expected ex_update) /\
  pr_old (expected ex_update) =
    [("id", mkCV "7" "integer" false); ("""old-key""", mkCV "k: 'v'" "text" true)].
Proof. repeat split; vm_compute; reflexivity. Qed.

Example C09_types_nonvacuous :
  pgtype_ok (TBuiltin "timestamp with time zone" true) = true /\
  format_type (TBuiltin "timestamp with time zone" true) = "timestamp with time zone[]" /\
  format_type (TNamed (Some "My Schema") "user" true) = """My Schema"".""user""[]" /\
  format_type (TQuotedChar false) = """char""".
Proof. repeat split; reflexivity. Qed.

(* TRUNCATE of several relations: the Relation field is the comma separated list as printed
   (the decoder has a single Relation string; /repo's TestTruncateCascade asserts exactly this,
   so it is the intended reading and [expected] follows it) *)
Example C09_truncate_multi :
  parse_full (print (CTruncate [("public", "customers"); ("public", "orders")] false true)) =
  Ok (mkPR "" "public.customers, public.orders" "TRUNCATE" false [] []).
Proof. vm_compute. reflexivity. Qed.

(* garbage and truncated input: a result or an error, computed *)
Example C09_total_examples :
  parse_full "" = Err /\ parse_full "table" = Err /\
  parse_full "table public.t: INSERT: a[int]:'x" = Err /\
  parse_full "table x: y: []: " = Err /\
  parse_full "BEGIN 1 2" = Err.
Proof. repeat split; vm_compute; reflexivity. Qed.
