(* C02 — acknowledgement always catches up: the progress ledger never wedges.
   Ledger layer, positive DRAIN half under the no-stale-completion contract (E5), for
   histories of any length.  Vocabulary as in props/C01_ledger_order.v (definitions in
   proofs/LedgerOrder.v). *)
From Bifrost.model Require Import Base Ledger.
From Bifrost.proofs Require Import LedgerProofs LedgerOrder.

(* the tracker never panics on a contract-respecting history: updateSeen's only error (a Seen
   for an entry whose commit is already set) needs a second Seen of the same key, or a
   deleted-and-recreated entry, and no_stale excludes the latter *)
Theorem C02_ledger_no_error : forall h, WF h -> ~ In RError (snd (lrun empty_ledger h)).
Proof. exact ledger_no_error. Qed.
Print Assumptions C02_ledger_no_error.

(* no bookkeeping is lost or left over: at every moment the ledger holds exactly the current
   deliveries that have not been released *)
Theorem C02_ledger_tracks_exactly : forall h l, WF h -> Reach h l ->
  forall k, In k (map fst (items l)) <-> current k h /\ ~ In k (released_keys h).
Proof. exact ledger_tracks_exactly. Qed.
Print Assumptions C02_ledger_tracks_exactly.

(* DRAIN: once every delivery still tracked is seen and fully written, ONE tick empties the
   ledger completely — items and index — and acknowledges the commit of its last entry *)
Theorem C02_ledger_drains : forall h l, WF h -> Reach h l ->
  (forall k, current k h -> ~ In k (released_keys h) ->
     exists t n c, In (OSeen t k n c) h /\ certified k h = n) ->
  let '(r, l') := emit l in
  items l' = [] /\ idx l' = [] /\
  (items l = [] -> r = None) /\
  (items l <> [] -> exists its k e, items l = its ++ [(k, e)] /\ r = Some (e_commit e)).
Proof. exact ledger_drains. Qed.
Print Assumptions C02_ledger_drains.

Theorem C02_ledger_drains_run : forall h l rs, WF h -> lrun empty_ledger h = (l, rs) ->
  (forall k, current k h -> ~ In k (released_keys h) ->
     exists t n c, In (OSeen t k n c) h /\ certified k h = n) ->
  let '(r, l') := emit l in
  items l' = [] /\ idx l' = [] /\
  (items l = [] -> r = None) /\
  (items l <> [] -> exists its k e, items l = its ++ [(k, e)] /\ r = Some (e_commit e)).
Proof. exact ledger_drains_run. Qed.
Print Assumptions C02_ledger_drains_run.

(* the position acknowledged by that tick is the commit announced by the Seen of the NEWEST
   live delivery: the current, unreleased key with the greatest first mention *)
Corollary C02_ledger_last_is_newest : forall h l, WF h -> Reach h l ->
  (forall k, current k h -> ~ In k (released_keys h) ->
     exists t n c, In (OSeen t k n c) h /\ certified k h = n) ->
  items l <> [] ->
  exists its k e, items l = its ++ [(k, e)] /\ fst (emit l) = Some (e_commit e) /\
    In (OSeen (e_txn e) k (e_total e) (e_commit e)) h /\ certified k h = e_total e /\
    current k h /\ ~ In k (released_keys h) /\
    forall k', current k' h -> ~ In k' (released_keys h) ->
               k' = k \/ first_pos k' h < first_pos k h.
Proof. exact ledger_last_is_newest. Qed.
Print Assumptions C02_ledger_last_is_newest.

(* the boolean checker used below decides the drain hypothesis *)
Theorem C02_all_settledb_decides : forall h,
  all_settledb h = true <->
  (forall k, current k h -> ~ In k (released_keys h) ->
     exists t n c, In (OSeen t k n c) h /\ certified k h = n).
Proof. exact all_settledb_ok. Qed.
Print Assumptions C02_all_settledb_decides.

(* ---------- non-vacuity ---------- *)
(* redelivery 7-1 -> 7-2, interleaved transaction 8, several emits (same history as in
   props/C01_ledger_order.v up to the point where everything is written) *)
Definition ex_settled : list lop :=
  [ OWritten "7" "7-1" 1;
    OWritten "7" "7-2" 1;
    OSeen "7" "7-2" 3 100;
    OSeen "8" "8-1" 1 200;
    OEmit;
    OWritten "8" "8-1" 1;
    OEmit;
    OWritten "7" "7-2" 2 ].

Example C02_drain_ex :
  let l := fst (lrun empty_ledger ex_settled) in
  WF ex_settled /\ Reach ex_settled l /\
  (forall k, current k ex_settled -> ~ In k (released_keys ex_settled) ->
     exists t n c, In (OSeen t k n c) ex_settled /\ certified k ex_settled = n) /\
  map fst (items l) = ["7-2"; "8-1"] /\
  idx l <> [] /\
  emit l = (Some 200%N, empty_ledger).
Proof.
  cbv zeta. split; [apply wf_hist_ok; vm_compute; reflexivity|].
  split; [apply (lrun_reach _ _ (snd (lrun empty_ledger ex_settled)));
          [vm_compute; reflexivity|vm_compute; intuition discriminate]|].
  split; [apply all_settledb_ok; vm_compute; reflexivity|].
  split; [vm_compute; reflexivity|].
  split; [vm_compute; discriminate|].
  vm_compute. reflexivity.
Qed.

(* the hypothesis is needed: one step earlier 7-2 is seen but not fully written, the drain
   hypothesis is false and the tick releases nothing *)
Example C02_drain_ex_not_yet :
  let h := firstn 7 ex_settled in
  WF h /\ all_settledb h = false /\ fst (emit (fst (lrun empty_ledger h))) = None.
Proof. cbv zeta. split; [apply wf_hist_ok; vm_compute; reflexivity|]. vm_compute. split; reflexivity. Qed.

(* a longer WF history with two redeliveries of the same transaction, an empty transaction and
   a key released before its transaction id is reused: never an error, drains completely *)
Definition ex_long : list lop :=
  [ OWritten "7" "7-1" 2; OWritten "7" "7-2" 1; OWritten "7" "7-3" 1; OSeen "7" "7-3" 2 100;
    OSeen "8" "8-1" 2 200; OWritten "8" "8-1" 1; OEmit; OWritten "8" "8-1" 1; OEmit;
    OSeen "9" "9-1" 0 300; OWritten "7" "7-3" 1; OEmit;
    OSeen "7" "7-4" 1 400; OWritten "7" "7-4" 1; OEmit ].

Example C02_drain_ex_long :
  WF ex_long /\
  lrun empty_ledger ex_long =
    (empty_ledger,
     [RNone; RNone; RNone; RNone; RNone; RNone; RNone; RNone; RNone; RNone; RNone; REmit 300;
      RNone; RNone; REmit 400]) /\
  released_keys ex_long = ["7-3"; "8-1"; "9-1"; "7-4"].
Proof. split; [apply wf_hist_ok; vm_compute; reflexivity|]. vm_compute. split; reflexivity. Qed.

(* the wedge witness of props/C02.v (finding F1) is outside the contract: it violates no_stale,
   and only no_stale *)
Example C02_f1_complete_violates_exactly_no_stale :
  ~ no_stale f1_complete_ops /\
  key_txn_fun f1_complete_ops /\ seen_once f1_complete_ops /\ commit_nonzero f1_complete_ops /\
  pos_counts f1_complete_ops /\ no_over_report f1_complete_ops.
Proof.
  split.
  - intros H. apply no_staleb_ok in H. vm_compute in H. discriminate.
  - split; [apply key_txn_funb_ok; vm_compute; reflexivity|].
    split; [apply seen_onceb_ok; vm_compute; reflexivity|].
    split; [apply commit_nonzerob_ok; vm_compute; reflexivity|].
    split; [apply pos_countsb_ok; vm_compute; reflexivity|].
    apply no_over_reportb_ok; vm_compute; reflexivity.
Qed.
