(* C02 — acknowledgement always catches up: the ledger never wedges.
   COMPOSITION level (model/Pipeline.v), for ALL configurations with at least one worker and ALL label
   lists.  Statements closed by [exact], their assumptions, the wedge witness, non-vacuity.

   Vocabulary beyond props/C01_pipeline.v (proofs/PipelineProofs.v):
     quiescent st        all worker queues empty, written channel empty, every open batch has an empty
                         transactions map, no pending Seen list, batcher alive: no stage other than the
                         tracker's tick has anything left to do
     input_complete cfg ls   every delivery the ledger history still shows as current had its COMMIT handed
                         to the batcher, and no change was dropped as invalid
     work_left st        1 + 2 * (queued batches + open batches) + waiting reports
     key_txn_ok ms       all messages of one delivery key carry the same transaction id
     commits_nonzero ms  no COMMIT carries position 0 *)
From Bifrost.model Require Import Base Crc32 Batch Batcher Ledger.
From Bifrost.proofs Require Import BatchProofs BatcherProofs LedgerProofs LedgerOrder.
From Bifrost.model Require Import Pipeline.
From Bifrost.proofs Require Import PipelineProofs.

(* DRAIN: complete input, no stale completion, quiescent: ONE more tracker tick empties the ledger —
   items and index — and the position it acknowledges is the commit announced for the NEWEST delivery the
   ledger was still tracking (current, unreleased, greatest first mention).  The tracker does not fail. *)
Theorem C02_pipeline_drains : forall cfg ls, workers_ok cfg -> framed (fed_of ls) = true ->
  p_failed (prun cfg ls) = false -> quiescent (prun cfg ls) -> input_complete cfg ls ->
  key_txn_ok (fed_of ls) -> commits_nonzero (fed_of ls) -> no_stale (p_lops (prun cfg ls)) ->
  let st := prun cfg ls in
  let h := p_lops st in
  let st' := pstep cfg st LEmit in
  items (p_ledger st') = [] /\ idx (p_ledger st') = [] /\ p_failed st' = false /\
  (items (p_ledger st) = [] -> p_acked st' = p_acked st) /\
  (items (p_ledger st) <> [] ->
     exists its k e, items (p_ledger st) = its ++ [(k, e)] /\ p_acked st' = p_acked st ++ [e_commit e] /\
       In (OSeen (e_txn e) k (e_total e) (e_commit e)) h /\ certified k h = e_total e /\
       current k h /\ ~ In k (released_keys h) /\
       forall k', current k' h -> ~ In k' (released_keys h) -> k' = k \/ first_pos k' h < first_pos k h).
Proof. exact pipeline_drains. Qed.
Print Assumptions C02_pipeline_drains.

(* under the same hypotheses every delivery the ledger still tracks is seen and exactly written *)
Theorem C02_pipeline_quiescent_settled : forall cfg ls, workers_ok cfg -> framed (fed_of ls) = true ->
  p_failed (prun cfg ls) = false -> quiescent (prun cfg ls) -> input_complete cfg ls ->
  forall k, current k (p_lops (prun cfg ls)) -> ~ In k (released_keys (p_lops (prun cfg ls))) ->
  exists t n c, In (OSeen t k n c) (p_lops (prun cfg ls)) /\ certified k (p_lops (prun cfg ls)) = n.
Proof. exact quiescent_settled. Qed.
Print Assumptions C02_pipeline_quiescent_settled.

(* QUIESCENCE IS REACHABLE: from every reachable state in which batcher and tracker are alive, without
   handing anything new to the batcher, at most work_left labels (one tick late enough to flush every
   open batch — an admissible oracle exists, C16_oracle_exists —, then the workers accept, then the
   tracker reads) lead to a quiescent state; the only other outcome is that the tracker fails on a
   Seen of that tick and stops for good (C17). *)
Theorem C02_pipeline_quiescence_reachable : forall cfg ls, workers_ok cfg -> (0 < c_mem_limit cfg)%Z ->
  dead (p_b (prun cfg ls)) = false -> p_failed (prun cfg ls) = false ->
  exists ls', fed_of ls' = [] /\ List.length ls' <= work_left (prun cfg ls) /\
    (p_failed (prun cfg (ls ++ ls')) = true \/ quiescent (prun cfg (ls ++ ls'))).
Proof. exact pipeline_quiescence_reachable. Qed.
Print Assumptions C02_pipeline_quiescence_reachable.

(* Full statement (no hypothesis on stale completions) — FALSE, finding F1, wedge half at pipeline level:
   the F1 schedule of props/C01_pipeline.v continued to completion.  Both COMMITs were handed over, every
   change of both transactions' current deliveries is in the sink, queues, written channel and batcher are
   empty — and the ledger keeps the entry [kx2 commit=0 1/0] for ever: 100 is never acknowledged,
   however many ticks follow. *)
Theorem C02_pipeline_wedge_refuted : forall n,
  let st := prun f1_cfg (f1_done ++ repeat LEmit n) in
  items (p_ledger st) <> [] /\ p_acked st = [200%N] /\
  map r_id (p_accepted st) = [2; 5; 9; 3; 6]%N /\
  queued (p_queues st) = [] /\ p_written st = [] /\ open (p_b st) = [] /\ seenl (p_b st) = [] /\
  dead (p_b st) = false /\ p_failed st = false.
Proof. exact f1_wedges_pipeline. Qed.
Print Assumptions C02_pipeline_wedge_refuted.

(* that run satisfies every hypothesis of C02_pipeline_drains except no_stale, and of the six conjuncts of
   WF exactly no_stale fails *)
Theorem C02_pipeline_wedge_outside_contract :
  let st := prun f1_cfg f1_done in
  workers_ok f1_cfg /\ framed (fed_of f1_done) = true /\ p_failed st = false /\ quiescent st /\
  (forall m, In m (fed_of f1_done) -> is_marker m = false -> fate_of f1_cfg m <> FDroppedInvalid) /\
  In (f1_mk 7 "COMMIT" "kx2" "701" 100) (fed_of f1_done) /\ In (f1_mk 10 "COMMIT" "ky" "702" 200) (fed_of f1_done) /\
  map (fun p => (fst p, e_commit (snd p), e_count (snd p), e_total (snd p))) (items (p_ledger st)) = [("kx2", 0%N, 1%Z, 0%Z)] /\
  ~ no_stale (p_lops st) /\
  key_txn_fun (p_lops st) /\ seen_once (p_lops st) /\ commit_nonzero (p_lops st) /\ pos_counts (p_lops st) /\
  no_over_report (p_lops st).
Proof.
  cbv zeta.
  split; [unfold workers_ok; vm_compute; discriminate|].
  split; [vm_compute; reflexivity|]. split; [vm_compute; reflexivity|].
  split; [vm_compute; repeat split; auto; intros p ob []|].
  split; [intros m _ _; unfold fate_of; simpl; discriminate|].
  split; [vm_compute; auto 10|]. split; [vm_compute; auto 15|]. split; [vm_compute; reflexivity|].
  split; [intros H; apply no_staleb_ok in H; vm_compute in H; discriminate|].
  split; [apply key_txn_funb_ok; vm_compute; reflexivity|].
  split; [apply seen_onceb_ok; vm_compute; reflexivity|].
  split; [apply commit_nonzerob_ok; vm_compute; reflexivity|].
  split; [apply pos_countsb_ok; vm_compute; reflexivity|].
  apply no_over_reportb_ok; vm_compute; reflexivity.
Qed.
Print Assumptions C02_pipeline_wedge_outside_contract.

(* ---------- non-vacuity ---------- *)
(* nv_pre (proofs/PipelineProofs.v): 2 workers, redelivery k71 -> k72, out-of-order accepts, two tracker
   ticks so far.  Every hypothesis of C02_pipeline_drains holds, the ledger holds k72 and k81, and the
   next tick empties it and acknowledges 200, the commit of the newest delivery k81. *)
Example C02_pipeline_drains_nonvacuous :
  let st := prun f1_cfg nv_pre in
  workers_ok f1_cfg /\ framed (fed_of nv_pre) = true /\ p_failed st = false /\ quiescent st /\
  input_complete f1_cfg nv_pre /\ key_txn_ok (fed_of nv_pre) /\ commits_nonzero (fed_of nv_pre) /\
  no_stale (p_lops st) /\
  map fst (items (p_ledger st)) = ["k72"; "k81"] /\ idx (p_ledger st) <> [] /\ p_acked st = [] /\
  p_acked (pstep f1_cfg st LEmit) = [200%N] /\ p_ledger (pstep f1_cfg st LEmit) = empty_ledger.
Proof.
  cbv zeta.
  split; [unfold workers_ok; vm_compute; discriminate|].
  split; [vm_compute; reflexivity|]. split; [vm_compute; reflexivity|].
  split.
  { vm_compute. repeat split; auto. intros p ob [E|[]]. inversion E; subst. reflexivity. }
  split.
  { split.
    - intros k Hc. pose proof (current_in_keys _ _ Hc) as Hin. vm_compute in Hin.
      assert (Hk : k = "k71" \/ k = "k72" \/ k = "k81") by (intuition congruence). clear Hin.
      destruct Hk as [-> | [-> | ->]].
      + exfalso. revert Hc. apply not_current_by_compute. vm_compute. reflexivity.
      + exists (f1_mk 6 "COMMIT" "k72" "7" 100). vm_compute. auto 15.
      + exists (f1_mk 9 "COMMIT" "k81" "8" 200). vm_compute. auto 15.
    - intros m _ _. unfold fate_of. simpl. discriminate. }
  split.
  { intros m m' Hm Hm' E. vm_compute in Hm, Hm'.
    repeat (destruct Hm as [<-|Hm]; [repeat (destruct Hm' as [<-|Hm']; [first [reflexivity|discriminate E]|]); destruct Hm'|]).
    destruct Hm. }
  split.
  { intros m Hm Hc. vm_compute in Hm. repeat (destruct Hm as [<-|Hm]; [first [discriminate Hc|vm_compute; discriminate]|]). destruct Hm. }
  split; [apply no_staleb_ok; vm_compute; reflexivity|].
  split; [vm_compute; reflexivity|]. split; [vm_compute; discriminate|]. split; [vm_compute; reflexivity|].
  split; vm_compute; reflexivity.
Qed.

(* quiescence is reached: from the state in which worker 0 still holds a batch, the written channel a
   report and the batcher an open batch (after 17 labels of nv_ls), four labels — fewer than
   work_left = 5 — lead to a quiescent state without handing anything over *)
Example C02_pipeline_quiescence_nonvacuous :
  let ls := firstn 17 nv_ls in let ls' := [LTick 100000 [""] []; LAccept 0; LRead; LRead] in
  dead (p_b (prun f1_cfg ls)) = false /\ p_failed (prun f1_cfg ls) = false /\ ~ quiescent (prun f1_cfg ls) /\
  work_left (prun f1_cfg ls) = 5 /\ fed_of ls' = [] /\ List.length ls' = 4 /\
  quiescent (prun f1_cfg (ls ++ ls')) /\ p_failed (prun f1_cfg (ls ++ ls')) = false.
Proof.
  cbv zeta. split; [vm_compute; reflexivity|]. split; [vm_compute; reflexivity|].
  split; [intros (H & _); vm_compute in H; discriminate|].
  split; [vm_compute; reflexivity|]. split; [reflexivity|]. split; [reflexivity|].
  split; [|vm_compute; reflexivity].
  vm_compute. repeat split; auto. intros p ob [].
Qed.
