(* C19 — operational statistics are conserved by aggregation.
   Statements closed by [exact], their assumptions, non-vacuity examples, refutation witness.

   Reading guide.  A history is a list of events of model/Aggregator.v:
     Check s now  (ingest worker: bucket = window * (ts quot window); expiry test at clock reading
                   [now], made WITHOUT the lock; expired => the stat is dropped),
     Insert s     (ingest worker, under the lock: create bucket/aggregate or update),
     Scan now     (reporter, under the lock: send every aggregate of every expired bucket, delete them).
   [arun w [] evs = (st, outs, false)]: the history ran from the empty map without a goroutine
   panic (C19_no_panic: window <> 0 and stat types count/histogram suffice), leaving the open
   buckets [st] and one output per event [outs].  [wf w evs] says that evs is an interleaving of ONE
   ingest goroutine with scans, clock readings non-decreasing.  The conservation and histogram
   theorems do not even need [wf]: they hold for every event list, in particular for the race
       Check s (not expired) ; Scan (later reading: reports and DELETES the bucket) ; Insert s
   which re-creates the bucket with s alone; a later Scan sends a SECOND report for that window.

   Answer to the question the property poses about that race: "the values reported for that window
   add up to the values recorded in it" is true when summed over ALL reports of the window
   (C19_conservation_by_key / C19_conservation: the sums range over every Scan of the run), and false for
   "the" report of a window taken singly — a window can be reported more than once
   (C19_race_second_report).  Nothing inserted is ever lost or counted twice:
   inserted = reported + still open.  What is still open when the process stops is never
   reported (reportAggregatesWorker has no final flush; after shutdown it even deletes expired
   buckets without sending): that is outside this property and not modelled. *)
From Bifrost.model Require Import Base Aggregator.
From Bifrost.proofs Require Import AggregatorProofs.
From Bifrost.gen Require Import GenConsts.
From Coq Require Import Permutation.
Open Scope Z_scope.

(* the model's constants are the code's (gen/GenConsts.v is re-translated from /repo on every run) *)
Example C19_grace_is_the_codes : grace = Z.of_N agg_report_grace_nano.
Proof. reflexivity. Qed.

(* ---------------------------------------------------------------------------------------------- *)
(* Conservation, per (window, aggregate key): every history, no hypothesis but "nobody panicked".
   rep_sum = sum of the main stat's value over every report of (bt, k) in every Scan of the run,
   open_sum = value still open for (bt, k), ins_sum = values of the stats inserted for (bt, k). *)
Theorem C19_conservation_by_key : forall w evs st outs bt k,
  arun w [] evs = (st, outs, false) ->
  rep_sum bt k outs + open_sum bt k st = ins_sum w bt k evs.
Proof. exact conservation_by_key. Qed.
Print Assumptions C19_conservation_by_key.

(* The aggregate key (computeAggregateKey after fix 7beb2ab: length-prefixed fields) is injective
   in (component, name, type, unit), for ALL byte strings: two different statistics never share an
   aggregate.  (Finding F9 — the former bare concatenation merged ("ab","c") with ("a","bc") — is
   repaired; corpus/AGG/f9_identity_collision.json stays as a regression case.) *)
Theorem C19_key_injective : forall s1 s2, akey s1 = akey s2 -> sident s1 = sident s2.
Proof. exact akey_injective. Qed.
Print Assumptions C19_key_injective.

(* Conservation per statistic identity (component, name, type, unit) and window, FULL statement:
   every event list (well-formed or not, races included), summed over ALL reports of the window. *)
Theorem C19_conservation : forall w evs st outs id bt,
  arun w [] evs = (st, outs, false) ->
  rep_sum_id id bt outs + open_sum_id id bt st = ins_sum_id w id bt evs.
Proof. exact conservation_by_identity. Qed.
Print Assumptions C19_conservation.

(* the former F9 witness, now conserved: two identities, two aggregates, two reports *)
Definition f9_a : stat := mkStat "ab" "c" "count" "count" 5 1699999980000000001.
Definition f9_b : stat := mkStat "a" "bc" "count" "count" 7 1699999980000000002.
Definition f9_evs : list ev :=
  [ Check f9_a 1699999980000000005; Insert f9_a; Check f9_b 1699999980000000005; Insert f9_b;
    Scan 1700000041000000006 ].
Example C19_former_collision_now_separate :
  let w := 60000000000 in let bt := 1699999980000000000 in
  let '(st, outs, p) := arun w [] f9_evs in
  wf w f9_evs = true /\ p = false /\ st = [] /\
  akey f9_a = "2:ab1:c5:count5:count"%string /\ akey f9_b = "1:a2:bc5:count5:count"%string /\
  ins_sum_id w (sident f9_a) bt f9_evs = 5 /\ rep_sum_id (sident f9_a) bt outs = 5 /\
  ins_sum_id w (sident f9_b) bt f9_evs = 7 /\ rep_sum_id (sident f9_b) bt outs = 7.
Proof. vm_compute. repeat split; reflexivity. Qed.

(* every recorded stat (one Check each) is inserted exactly once or dropped at its Check, or is the
   one stat still between Check and Insert when the history ends *)
Theorem C19_recorded_inserted_once_or_dropped : forall w evs,
  wf w evs = true ->
  Permutation (recorded evs) (inserted evs ++ dropped w evs ++ optl (pending_from w None evs)).
Proof. exact recorded_partition. Qed.
Print Assumptions C19_recorded_inserted_once_or_dropped.

(* ---------------------------------------------------------------------------------------------- *)
(* A stat is dropped only if, at the clock reading of its Check, its bucket was already expired
   (now > bucket + window + grace); and it passes only if it was not.  Every later reading agrees
   that the window is closed (C19_closed_stays_closed). *)
Theorem C19_drop_only_when_closed : forall w evs st st' outs p i s now,
  arun w st evs = (st', outs, p) ->
  nth_error evs i = Some (Check s now) ->
  (nth_error outs i = Some ODrop -> expired w (bucket_time w (s_ts s)) now = true) /\
  (nth_error outs i = Some OPass -> expired w (bucket_time w (s_ts s)) now = false).
Proof. exact check_outcome. Qed.
Print Assumptions C19_drop_only_when_closed.

Theorem C19_closed_stays_closed : forall w bt now now',
  now <= now' -> expired w bt now = true -> expired w bt now' = true.
Proof. exact expired_mono. Qed.
Print Assumptions C19_closed_stays_closed.

(* ---------------------------------------------------------------------------------------------- *)
(* Every report of every Scan of every history (st = state after any prefix evs): the aggregate sent
   for (bt, k) is exactly newAggregate + update over [cov w bt k evs] = the stats inserted for (bt, k)
   since bucket bt was last reported; all of them were inserted, into this bucket, under this key. *)
Theorem C19_report_covers_exactly : forall w evs st outs now bt k a,
  arun w [] evs = (st, outs, false) ->
  In (bt, k, a) (scan_report w now st) ->
  expired w bt now = true /\
  agg_of bt (cov w bt k evs) = Some a /\
  (forall s, In s (cov w bt k evs) -> In (Insert s) evs /\ hits w bt k s = true).
Proof. exact report_is_summary_of_covered. Qed.
Print Assumptions C19_report_covers_exactly.

(* Histogram reports: sum, trunc(sum/count) (Z.quot: toward zero), max and min of exactly the covered
   values.  Go computes int64(float64(sum)/float64(count)); this equals Z.quot for |sum| < 2^53
   (see model/Aggregator.v) — that bound, and int64 values, are the domain. *)
Theorem C19_histogram : forall w evs st outs now bt k a,
  arun w [] evs = (st, outs, false) ->
  In (bt, k, a) (scan_report w now st) ->
  a_type a = ty_hist ->
  let ss := cov w bt k evs in
  let vs := map s_value ss in
  (forall s, In s ss -> int64 (s_value s)) ->
  vs <> [] /\
  (forall s, In s ss -> In (Insert s) evs /\ bucket_time w (s_ts s) = bt /\ akey s = k) /\
  exists mn mx, is_min mn vs /\ is_max mx vs /\
    to_stats a = Some
      [ mkStat (a_comp a) (a_name a) ty_hist (a_unit a) (sum_Z vs) bt;
        mkStat (a_comp a) (a_name a ++ "_avg")%string ty_hist (a_unit a)
               (Z.quot (sum_Z vs) (Z.of_nat (List.length vs))) bt;
        mkStat (a_comp a) (a_name a ++ "_max")%string ty_hist (a_unit a) mx bt;
        mkStat (a_comp a) (a_name a ++ "_min")%string ty_hist (a_unit a) mn bt ].
Proof. exact histogram_report. Qed.
Print Assumptions C19_histogram.

(* ---------------------------------------------------------------------------------------------- *)
(* The bucket of a stat is the start of the one window containing its timestamp (Go's truncating
   division is the floor for timestamp >= 0), and its Insert changes that (bucket, key) cell only,
   by exactly its value. *)
Theorem C19_exactly_one_window : forall w s, 0 < w -> 0 <= s_ts s ->
  let b := bucket_time w (s_ts s) in
  b = w * (s_ts s / w) /\ b <= s_ts s < b + w /\
  forall st bt k,
    open_sum bt k (fst (insert w s st)) =
    open_sum bt k st + (if (bt =? b) && String.eqb k (akey s) then s_value s else 0) /\
    ((bt =? b) && String.eqb k (akey s) = false -> lookup bt k (fst (insert w s st)) = lookup bt k st).
Proof. exact exactly_one_window. Qed.
Print Assumptions C19_exactly_one_window.

(* outside the domain: for -w < ts < 0 the quotient truncates to 0, bucket 0 covers (-w, w) *)
Theorem C19_negative_timestamps_share_bucket_zero : forall w ts,
  0 < w -> - w < ts < 0 -> bucket_time w ts = 0.
Proof. exact bucket_time_negative. Qed.
Print Assumptions C19_negative_timestamps_share_bucket_zero.

(* ---------------------------------------------------------------------------------------------- *)
(* Nothing inserted is lost: a Scan leaves no expired bucket open, and after a final Scan at a
   reading at which every inserted stat's bucket is expired, everything has been reported. *)
Theorem C19_final_scan_reports_all : forall w evs now st outs bt k,
  arun w [] (evs ++ [Scan now]) = (st, outs, false) ->
  (forall s, In (Insert s) evs -> expired w (bucket_time w (s_ts s)) now = true) ->
  open_entries st = [] /\ rep_sum bt k outs = ins_sum w bt k (evs ++ [Scan now]).
Proof. exact final_scan_reports_all. Qed.
Print Assumptions C19_final_scan_reports_all.

(* the no-panic premise of the theorems above is implied by a checkable condition *)
Theorem C19_no_panic : forall w evs, w <> 0 ->
  forallb (fun s => known_type (s_type s)) (inserted evs) = true ->
  snd (arun w [] evs) = false.
Proof. exact no_panic_from_empty. Qed.
Print Assumptions C19_no_panic.

(* ---------------------------------------------------------------------------------------------- *)
(* The race, concretely (corpus/AGG/race_two_reports.json replays it on the real code): the third
   stat passes its Check at reading ..010, the reporter scans at ..041000000010 (reports 3+4 = 7 and
   deletes the bucket), the Insert re-creates the bucket, the next scan reports 5 for the SAME
   window: two reports, 7 + 5 = 12 = everything inserted; nothing left open. *)
Definition race_s (v ts : Z) : stat := mkStat "transport" "written" "count" "count" v ts.
Definition race_evs : list ev :=
  [ Check (race_s 3 1699999980000000001) 1699999980000000010; Insert (race_s 3 1699999980000000001);
    Check (race_s 4 1699999980000000002) 1699999980000000010; Insert (race_s 4 1699999980000000002);
    Check (race_s 5 1699999980000000003) 1699999980000000010;
    Scan 1700000041000000010;
    Insert (race_s 5 1699999980000000003);
    Scan 1700000041000000010 ].

Example C19_race_second_report :
  let w := 60000000000 in let bt := 1699999980000000000 in
  let '(st, outs, p) := arun w [] race_evs in
  wf w race_evs = true /\ p = false /\ st = [] /\
  flat_map sent_of outs = [ [race_s 7 bt]; [race_s 5 bt] ] /\
  rep_sum_id (sident (race_s 0 0)) bt outs = 12 /\
  ins_sum_id w (sident (race_s 0 0)) bt race_evs = 12.
Proof. vm_compute. repeat split; reflexivity. Qed.

(* non-vacuity of the histogram theorem and of the drop theorem: a history that satisfies the
   premises, has a dropped stat (arrived after its window closed, bucket still open), and reports a
   histogram with avg truncated toward zero *)
Definition hist_s (v ts : Z) : stat := mkStat "client" "skew" "histogram" "ms" v ts.
Definition hist_evs : list ev :=
  [ Check (hist_s (-4) 1699999980000000001) 1699999980000000010; Insert (hist_s (-4) 1699999980000000001);
    Check (hist_s (-3) 1699999980000000002) 1699999980000000010; Insert (hist_s (-3) 1699999980000000002);
    Check (hist_s 9 1699999980000000003) 1700000041000000011 ].

Example C19_histogram_nonvacuous :
  let w := 60000000000 in let bt := 1699999980000000000 in
  let '(st, outs, p) := arun w [] hist_evs in
  wf w hist_evs = true /\ p = false /\
  nth_error outs 4 = Some ODrop /\
  (forall s, In s (cov w bt (akey (hist_s 0 0)) hist_evs) -> int64 (s_value s)) /\
  map (fun e => to_stats (snd e)) (scan_report w 1700000041000000011 st) =
    [ Some [ hist_s (-7) bt;
             mkStat "client" "skew_avg" "histogram" "ms" (-3) bt;
             mkStat "client" "skew_max" "histogram" "ms" (-3) bt;
             mkStat "client" "skew_min" "histogram" "ms" (-4) bt ] ].
Proof.
  cbv zeta.
  replace (arun 60000000000 [] hist_evs) with
    ([(1699999980000000000, [(akey (hist_s 0 0), mkAgg "client" "skew" "histogram" "ms" (-7) 2 (-4) (-3) 1699999980000000000)])],
     [OPass; OInserted; OPass; OInserted; ODrop], false) by (vm_compute; reflexivity).
  split; [vm_compute; reflexivity|]. split; [reflexivity|]. split; [reflexivity|]. split.
  - replace (cov 60000000000 1699999980000000000 (akey (hist_s 0 0)) hist_evs)
      with [hist_s (-4) 1699999980000000001; hist_s (-3) 1699999980000000002] by (vm_compute; reflexivity).
    intros s [<-|[<-|[]]]; unfold int64, min_int64, max_int64; simpl; lia.
  - vm_compute. reflexivity.
Qed.
