(* C03 — acknowledged position monotone and sourced only from the progress channel; restarts never ahead.
   "The WAL position the replication client reports to PostgreSQL never decreases, is only ever a
   value delivered on the progress channel (or the position the server announced at session
   start), never a position taken from received data; after a reconnect replication is
   re-requested from exactly the end of the last transaction whose COMMIT was received (never
   later), except after the announced recovery from a server error, where it is the position the
   server reports."
   Quantifier: every first message, every list of loop iterations [its : list citer] (ticker,
   values waiting on the progress channel in any order — increasing, repeated, decreasing, bursts —,
   channel closed or not, any receive result, the same again for the second handleProgress call
   of the iteration, and the same again for every tick of the progress ticker that is served
   while the output channel is full and the client holds a message it cannot hand over:
   [i_blocked it], any number of ticks; and whether the connection dies silently at the message
   boundary of this iteration: [i_dies it] - ReceiveMessage still returns its result, the
   connection reports closed from then on and the connection manager reconnects at its NEXT call,
   be that the next loop head, the second handleProgress of a timeout / keepalive reply, or a tick
   served inside the blocked-output loop while the client holds the message); no bound on the length.

   This file holds only statements closed by [exact], their assumptions, and non-vacuity examples.
   Vocabulary (model/Client.v, proofs/ClientProofs.v, proofs/ClientProofs2.v):
   [crun first its = (final state, observations)]; [acks obs] = the values of the CSend
   (SendStandbyStatus) observations in order; [CGetStart l fresh] = GetConnWithStartLsn(l), fresh =
   the manager had no live connection, so START_REPLICATION l was issued; [iter_values it] = the
   values delivered on the progress channel during iteration [it] = i_prog it ++ i_prog2 it ++
   blocked_values (i_blocked it) (loop head, second handleProgress call, ticks served while the
   output channel is full); [start_pos first] = ServerWALEnd of the first keepalive. *)
From Bifrost.model Require Import Base Client.
From Bifrost.proofs Require Import ClientProofs ClientProofs2.
From Coq Require Import Sorted.

(* ---------------- monotone ---------------- *)
(* (all points at which a status update is sent: loop head, timeout, keepalive reply, and every
   tick served while the downstream channel is full - [crun] runs the blocked-output loop) *)
Theorem C03_acks_monotone : forall first its, Sorted N.le (acks (snd (crun first its))).
Proof. exact crun_acks_sorted. Qed.
Print Assumptions C03_acks_monotone.

(* ---------------- sourced: only values delivered BEFORE ---------------- *)
(* The observations of a run cut after any number of iterations are a prefix of the observations
   of the whole run, and what was acknowledged up to the cut is the start position, 0 (the
   value before the first keepalive is parsed: only if that keepalive is unparsable), or a value
   delivered on the progress channel during the iterations before the cut.
   STATEMENT CHANGE (blocked-output loop): the source set [iter_values] had to be extended by the
   values delivered at the ticks served while the output channel is full - a status update sent
   from the WriteLoop acknowledges such a value (see C03_blocked_send_nonvacuous). *)
Theorem C03_acks_sourced : forall first its1 its2,
  acks (snd (crun first (its1 ++ its2))) =
    acks (snd (crun first its1)) ++ acks (snd (citers (fst (crun first its1)) its2)) /\
  forall a, In a (acks (snd (crun first its1))) ->
    a = start_pos first \/ a = 0%N \/ In a (flat_map iter_values its1).
Proof. exact crun_acks_sourced_prefix. Qed.
Print Assumptions C03_acks_sourced.

(* finer than iteration granularity: inside one iteration, what is sent before the receive comes
   from the current value or the values waiting at the loop head; what is sent after it may also
   come from the values waiting at the second handleProgress call or (STATEMENT CHANGE, as above)
   at a tick served while the output channel is full *)
Theorem C03_acks_sourced_within_iteration : forall s it s' o,
  cstep s it = (s', o) -> stopped s = false -> i_pclosed it = false ->
  exists pre post, o = pre ++ CRecv :: post /\ ~ In CRecv pre /\ ~ In CRecv post /\
    (forall a, In a (acks pre) -> a = overall s \/ In a (i_prog it)) /\
    (forall a, In a (acks post) -> a = overall s \/ In a (i_prog it) \/ In a (i_prog2 it) \/
                                   In a (blocked_values (i_blocked it))).
Proof. exact cstep_acks_fine. Qed.
Print Assumptions C03_acks_sourced_within_iteration.

(* the blocked sends made explicit: EVERY status update of an iteration (any state, stopped or
   not, wherever it is sent from - in particular from the blocked-output loop) carries the
   position held when the iteration began or a value delivered on the progress channel during
   the iteration; C03_acks_monotone / C03_acks_sourced / C03_acks_never_from_data quantify over
   these sends too *)
Theorem C03_blocked_sends_sourced : forall s it s' o a,
  cstep s it = (s', o) -> In a (acks o) ->
  a = overall s \/ In a (i_prog it) \/ In a (i_prog2 it) \/ In a (blocked_values (i_blocked it)).
Proof. exact cstep_sends_sourced. Qed.
Print Assumptions C03_blocked_sends_sourced.

(* ---------------- never from received data ---------------- *)
(* [data_positions its] = every position carried by a received message (WalStart of XLogData,
   ServerWALEnd of keepalives, the IDENTIFY_SYSTEM answer during recovery).  Non-interference:
   two scripts that differ only in those positions acknowledge exactly the same values.
   ([erase_it] overwrites the positions by 0; the first keepalive's ServerWALEnd IS the
   start position and is kept.) *)
Theorem C03_acks_never_from_data : forall first its its',
  map erase_it its = map erase_it its' ->
  acks (snd (crun first its)) = acks (snd (crun first its')).
Proof. exact crun_acks_data_independent. Qed.
Print Assumptions C03_acks_never_from_data.

(* ---------------- restart position ---------------- *)
(* (a) every connection request of an iteration made BEFORE its receive carries highestWalStart as
   it was at the loop head, every one made AFTER it (second handleProgress of a timeout / keepalive
   reply, ticks of the blocked-output loop) carries highestWalStart as updated by the received
   event, [hi_ev (highest s) (i_ev it)] - a received COMMIT at w gives max (highest s) w: the end of
   the last transaction whose COMMIT was RECEIVED, whether or not it could be handed downstream
   yet.  A request after the receive issues START_REPLICATION only if the connection died at this
   message boundary. *)
Theorem C03_restart_lsn_request_split : forall s it s' o,
  cstep s it = (s', o) -> stopped s = false -> i_pclosed it = false ->
  exists pre post, o = pre ++ CRecv :: post /\ ~ In CRecv pre /\ ~ In CRecv post /\
    (forall l f, In (CGetStart l f) pre -> l = highest s /\ (f = true -> conn_open s = false)) /\
    (forall l f, In (CGetStart l f) post ->
       l = hi_ev (highest s) (i_ev it) /\ (f = true -> i_dies it = true)).
Proof. exact cstep_getstart_split. Qed.
Print Assumptions C03_restart_lsn_request_split.

(* the same without the split (any state, stopped or not): a request carries the loop-head value
   - with one exception.
   STATEMENT CHANGE (blocked-output loop).  Before the loop was modelled this read
   [... -> l = highest s].  That is false now: handleXLogData advances highestWalStart to a
   received COMMIT BEFORE it enters the WriteLoop, so the GetConnWithStartLsn calls made by
   sendProgressStatus from the WriteLoop of that COMMIT carry the NEW value (witness:
   C03_blocked_commit_request_carries_new_position).
   STATEMENT CHANGE (silent connection death).  Those requests issue START_REPLICATION only if
   the connection died at this message boundary (before [i_dies] existed: never, f = false). *)
Theorem C03_restart_lsn_request : forall s it s' o l f,
  cstep s it = (s', o) -> In (CGetStart l f) o ->
  l = highest s \/
  (exists w t, i_ev it = EXLog w (XCommit t) /\ i_blocked it <> [] /\ l = N.max (highest s) w /\
               (f = true -> i_dies it = true)).
Proof. exact cstep_getstart. Qed.
Print Assumptions C03_restart_lsn_request.

(* STATEMENT CHANGE (silent connection death).  Before [i_dies] existed this read
   [In (CGetStart l true) o -> l = highest s]; that literal statement is now false
   (C03_restart_lsn_request_fresh_loop_head_value_refuted): when the connection dies at the
   boundary of a COMMIT that is then held in the blocked-output loop, the tick's
   sendProgressStatus reconnects with START_REPLICATION at the position of THAT COMMIT - which is
   what the property asks for ("from exactly the end of the last transaction whose COMMIT was
   received").  In terms of the received events: C03_restart_after_silent_death. *)
Theorem C03_restart_lsn_request_fresh : forall s it s' o l,
  cstep s it = (s', o) -> In (CGetStart l true) o ->
  l = highest s \/
  (i_dies it = true /\ exists w t, i_ev it = EXLog w (XCommit t) /\ i_blocked it <> [] /\
                                   l = N.max (highest s) w).
Proof. exact cstep_getstart_fresh. Qed.
Print Assumptions C03_restart_lsn_request_fresh.

(* (b) highestWalStart changes only at a received COMMIT (to the maximum) and at recovery (to the
   position the server reports); nothing changes when the client is stopped or stops at the loop
   head (progress channel closed: the event is not consumed) *)
Theorem C03_restart_lsn_update : forall s it,
  highest (fst (cstep s it)) =
  if stopped s || i_pclosed it then highest s else hi_ev (highest s) (i_ev it).
Proof. exact cstep_highest. Qed.
Print Assumptions C03_restart_lsn_update.

Theorem C03_restart_lsn_update_cases : forall s it s' o, cstep s it = (s', o) ->
  highest s' = highest s \/
  (exists w t, i_ev it = EXLog w (XCommit t) /\ highest s' = N.max (highest s) w) \/
  (exists x, i_ev it = EErrorResponse x /\ highest s' = x).
Proof. exact cstep_highest_cases. Qed.
Print Assumptions C03_restart_lsn_update_cases.

(* (c) the prologue asks for position 0 (the server chooses) on a fresh connection, and leaves 0 *)
Theorem C03_restart_lsn_initial : forall first,
  highest (fst (cstart first)) = 0%N /\
  forall l f, In (CGetStart l f) (snd (cstart first)) -> l = 0%N /\ f = true.
Proof. intros first. split; [exact (cstart_highest first)|exact (cstart_getstart first)]. Qed.
Print Assumptions C03_restart_lsn_initial.

(* run level.  [hi_spec 0 evs] folds the received events: COMMIT at w -> max, ErrorResponse
   answered by xlogpos x -> x, anything else -> unchanged.  In iteration k (= after [its1]) of a
   client that is still running, every connection request carries hi_spec of the events received
   in iterations 0..k-1 - the end of the last transaction whose COMMIT was received, never later;
   after a recovery, the server's reported position (then again the maximum with later COMMITs) -
   except the requests made from the WriteLoop of a COMMIT received in iteration k itself, which
   carry hi_spec of the events 0..k, that COMMIT included.  The last conjunct places the
   iteration's outputs in the run.
   STATEMENT CHANGE (blocked-output loop): the exception is new, see C03_restart_lsn_request.
   STATEMENT CHANGE (silent connection death): such a request is a START_REPLICATION only if the
   connection died at this message boundary; the former conjunct
   [f = true -> l = hi_spec 0 (map i_ev its1)] is false in exactly that case and is replaced by
   C03_restart_lsn_split / C03_restart_after_silent_death below. *)
Theorem C03_restart_lsn : forall first its1 it its2 s' o l f,
  stopped (fst (crun first its1)) = false ->
  cstep (fst (crun first its1)) it = (s', o) ->
  In (CGetStart l f) o ->
  (l = hi_spec 0 (map i_ev its1) \/
   (i_blocked it <> [] /\ (exists w t, i_ev it = EXLog w (XCommit t)) /\
    l = hi_spec 0 (map i_ev (its1 ++ [it])) /\ (f = true -> i_dies it = true))) /\
  snd (crun first (its1 ++ it :: its2)) = snd (crun first its1) ++ o ++ snd (citers s' its2).
Proof. exact crun_restart_lsn. Qed.
Print Assumptions C03_restart_lsn.

(* the strongest form, split at the receive of iteration k: before it every connection request
   carries hi_spec of the events received in iterations 0..k-1, after it hi_spec of the events
   0..k - ALWAYS the end of the last transaction whose COMMIT was received (or the recovery
   position), as of the moment the request is made *)
Theorem C03_restart_lsn_split : forall first its1 it s' o,
  stopped (fst (crun first its1)) = false -> i_pclosed it = false ->
  cstep (fst (crun first its1)) it = (s', o) ->
  exists pre post, o = pre ++ CRecv :: post /\ ~ In CRecv pre /\ ~ In CRecv post /\
    (forall l f, In (CGetStart l f) pre -> l = hi_spec 0 (map i_ev its1)) /\
    (forall l f, In (CGetStart l f) post ->
       l = hi_spec 0 (map i_ev (its1 ++ [it])) /\ (f = true -> i_dies it = true)).
Proof. exact crun_restart_split. Qed.
Print Assumptions C03_restart_lsn_split.

(* the connection dies silently at the message boundary of iteration k: every START_REPLICATION
   issued in that iteration after the receive (it can only be issued because of that death)
   carries hi_spec of the events received so far INCLUDING the one just received - if that is a
   COMMIT held in the blocked-output loop, replication is re-requested from the end of its
   transaction, not from the previous one *)
Theorem C03_restart_after_silent_death : forall first its1 it s' o,
  stopped (fst (crun first its1)) = false -> i_pclosed it = false ->
  cstep (fst (crun first its1)) it = (s', o) ->
  exists pre post, o = pre ++ CRecv :: post /\ ~ In CRecv pre /\ ~ In CRecv post /\
    (forall l, In (CGetStart l true) pre -> l = hi_spec 0 (map i_ev its1)) /\
    (forall l, In (CGetStart l true) post ->
       i_dies it = true /\ l = hi_spec 0 (map i_ev (its1 ++ [it]))).
Proof. exact crun_restart_after_silent_death. Qed.
Print Assumptions C03_restart_after_silent_death.

(* ... and that reconnect does happen: COMMIT received, connection dies, output channel full, the
   first tick finds the progress channel open: the next observation after the receive is
   START_REPLICATION at max (highest s) w *)
Theorem C03_silent_death_reconnects_at_held_commit : forall s it s' o w t vs r,
  stopped s = false -> i_pclosed it = false -> i_ev it = EXLog w (XCommit t) -> i_dies it = true ->
  i_blocked it = (vs, false) :: r -> cstep s it = (s', o) ->
  exists post, o = head_pre s it ++ CRecv :: CGetStart (N.max (highest s) w) true :: post.
Proof. exact cstep_silent_death_reconnects. Qed.
Print Assumptions C03_silent_death_reconnects_at_held_commit.

(* a stopped client emits nothing any more *)
Theorem C03_stopped_is_silent : forall its s, stopped s = true -> citers s its = (s, []).
Proof. exact citers_stopped. Qed.
Print Assumptions C03_stopped_is_silent.

(* ---------------- START_REPLICATION only on a closed connection ---------------- *)
(* STATEMENT CHANGE (silent connection death): "... or the connection died at this iteration's
   message boundary" is new; finer: C03_restart_lsn_request_split *)
Theorem C03_fresh_only_when_closed : forall s it s' o l,
  cstep s it = (s', o) -> In (CGetStart l true) o -> conn_open s = false \/ i_dies it = true.
Proof. exact cstep_fresh. Qed.
Print Assumptions C03_fresh_only_when_closed.

(* and the manager loses its connection only by: shutdown, a receive error on a closed
   connection, a dropped BEGIN (Close is called), recovery, or (STATEMENT CHANGE: new disjunct) the
   connection dying at this message boundary *)
Theorem C03_connection_closed_only_by : forall s it s' o,
  cstep s it = (s', o) -> conn_open s' = false ->
  stopped s' = true \/ i_ev it = EClosedErr \/
  (exists w t, i_ev it = EXLog w (XBegin t) /\ saw_commit s = false /\ first_iter s = false /\ In CClose o) \/
  (exists x, i_ev it = EErrorResponse x) \/
  i_dies it = true.
Proof. exact cstep_conn_closes. Qed.
Print Assumptions C03_connection_closed_only_by.

(* ---------------- non-vacuity ---------------- *)
Definition c03_first : cev := EKeepalive 100 false false.
Definition c03_it (tick : bool) (prog : list N) (e : cev) : citer := mkIter tick prog false e [] false [] false.

(* a transaction whose COMMIT (position 500) is received while the progress channel delivers 150
   (an older transaction became durable): 150 is acknowledged, twice; 500 — a data position — is not *)
Definition c03_run1 : list citer :=
  [ c03_it false [] (EXLog 200 (XBegin "7")); c03_it false [] (EXLog 300 (XChange "INSERT"));
    c03_it false [] (EXLog 500 (XCommit "7")); c03_it true [150; 120]%N ETimeout ].

Example C03_data_position_not_acknowledged :
  acks (snd (crun c03_first c03_run1)) = [150; 150]%N /\
  In 500%N (data_positions c03_run1) /\ ~ In 500%N (acks (snd (crun c03_first c03_run1))) /\
  stopped (fst (crun c03_first c03_run1)) = false.
Proof. vm_compute. intuition discriminate. Qed.

(* a BEGIN without the previous COMMIT closes the connection; the next iteration issues
   START_REPLICATION at 500 = the end of the last transaction whose COMMIT was received, although
   data up to 700 had been received *)
Definition c03_run2 : list citer :=
  [ c03_it false [] (EXLog 200 (XBegin "7")); c03_it false [] (EXLog 500 (XCommit "7"));
    c03_it false [] (EXLog 600 (XBegin "8")); c03_it false [] (EXLog 650 (XChange "INSERT"));
    c03_it false [] (EXLog 700 (XBegin "9")) ].

Example C03_restart_nonvacuous :
  stopped (fst (crun c03_first c03_run2)) = false /\
  hi_spec 0 (map i_ev c03_run2) = 500%N /\
  snd (cstep (fst (crun c03_first c03_run2)) (c03_it false [] ENil)) = [CGetStart 500 true; CRecv] /\
  In CClose (snd (crun c03_first c03_run2)).
Proof. vm_compute. intuition. Qed.

(* recovery: the restart position is what IDENTIFY_SYSTEM answered (900), then the maximum with
   later COMMITs *)
Example C03_restart_after_recovery :
  let its := c03_run2 ++ [c03_it false [] (EErrorResponse 900)] in
  stopped (fst (crun c03_first its)) = false /\
  hi_spec 0 (map i_ev its) = 900%N /\
  snd (cstep (fst (crun c03_first its)) (c03_it false [] ENil)) = [CGetStart 900 true; CRecv].
Proof. vm_compute. intuition. Qed.

(* the blocked-output loop: the COMMIT at 500 is held for three ticks because the output channel
   is full; the ticks find 150, nothing, then 120 and 170 on the progress channel: 150, 150, 170
   are acknowledged (sorted, each a delivered value, never the data position 500), THEN the COMMIT
   is forwarded; the client keeps running *)
Definition c03_blocked_commit : citer :=
  mkIter false [] false (EXLog 500 (XCommit "7")) [] false [([150], false); ([], false); ([120; 170], false)]%N false.

Example C03_blocked_send_nonvacuous :
  let s := fst (crun c03_first [c03_it false [] (EXLog 200 (XBegin "7"))]) in
  snd (cstep s c03_blocked_commit) =
    [CGetStart 0 false; CRecv; CGetStart 500 false; CSend 150; CGetStart 500 false; CSend 150;
     CGetStart 500 false; CSend 170; COut "COMMIT" "7" "7-0" 500] /\
  stopped (fst (cstep s c03_blocked_commit)) = false /\
  blocked_values (i_blocked c03_blocked_commit) = [150; 120; 170]%N.
Proof. vm_compute. repeat split. Qed.

(* the witness for the statement change of C03_restart_lsn_request: highestWalStart is 0 at the
   loop head, the requests made while the COMMIT at 500 is held carry 500 (and are not fresh) *)
Example C03_blocked_commit_request_carries_new_position :
  let s := fst (crun c03_first [c03_it false [] (EXLog 200 (XBegin "7"))]) in
  highest s = 0%N /\ In (CGetStart 500 false) (snd (cstep s c03_blocked_commit)) /\
  highest (fst (cstep s c03_blocked_commit)) = 500%N.
Proof. vm_compute. intuition. Qed.

(* a tick served while the output channel is full finds the progress channel closed: the update
   of the tick before it is sent, the COMMIT is never forwarded, the client stops *)
Example C03_blocked_channel_closed :
  let s := fst (crun c03_first [c03_it false [] (EXLog 200 (XBegin "7"))]) in
  let it := mkIter false [] false (EXLog 500 (XCommit "7")) [] false [([150], false); ([160], true); ([170], false)]%N false in
  snd (cstep s it) = [CGetStart 0 false; CRecv; CGetStart 500 false; CSend 150; CClose; CStop] /\
  stopped (fst (cstep s it)) = true.
Proof. vm_compute. split; reflexivity. Qed.

(* ---------------- the connection dies silently at a message boundary ---------------- *)
(* transaction 7 committed at 500, transaction 8 begun; the COMMIT of 8 at 700 is received, the
   connection dies at that boundary, the output channel is full for one tick: the tick's status
   update reconnects with START_REPLICATION at 700 - the end of the last transaction whose COMMIT
   was received -, not at 500 (the value at the loop head); then the COMMIT is handed over *)
Definition c03_death_prefix : list citer :=
  [ c03_it false [] (EXLog 200 (XBegin "7")); c03_it false [] (EXLog 500 (XCommit "7"));
    c03_it false [] (EXLog 600 (XBegin "8")) ].
Definition c03_death_commit : citer :=
  mkIter false [] false (EXLog 700 (XCommit "8")) [] false [([500], false)]%N true.

Example C03_restart_after_silent_death_nonvacuous :
  let s := fst (crun c03_first c03_death_prefix) in
  stopped s = false /\ highest s = 500%N /\ i_dies c03_death_commit = true /\
  hi_spec 0 (map i_ev (c03_death_prefix ++ [c03_death_commit])) = 700%N /\
  snd (cstep s c03_death_commit) =
    [CGetStart 500 false; CRecv; CGetStart 700 true; CSend 500; COut "COMMIT" "8" "8-1" 700] /\
  conn_open (fst (cstep s c03_death_commit)) = true.
Proof. vm_compute. repeat split. Qed.

(* the former literal statement of C03_restart_lsn_request_fresh, refuted by that iteration *)
Example C03_restart_lsn_request_fresh_loop_head_value_refuted :
  ~ (forall s it s' o l, cstep s it = (s', o) -> In (CGetStart l true) o -> l = highest s).
Proof.
  intros H.
  pose (s := fst (crun c03_first c03_death_prefix)).
  assert (E : cstep s c03_death_commit = (fst (cstep s c03_death_commit), snd (cstep s c03_death_commit)))
    by (destruct (cstep s c03_death_commit); reflexivity).
  assert (I : In (CGetStart 700 true) (snd (cstep s c03_death_commit)))
    by (vm_compute; right; right; left; reflexivity).
  specialize (H _ _ _ _ _ E I). vm_compute in H. discriminate H.
Qed.

(* the death is noticed wherever the next connection request is made: with room downstream, at
   the next loop head (START_REPLICATION at 700 there); at a timeout, by the second
   handleProgress of the same iteration *)
Example C03_silent_death_noticed_at_next_request :
  let s := fst (crun c03_first c03_death_prefix) in
  let dies_free := mkIter false [] false (EXLog 700 (XCommit "8")) [] false [] true in
  snd (cstep s dies_free) = [CGetStart 500 false; CRecv; COut "COMMIT" "8" "8-1" 700] /\
  conn_open (fst (cstep s dies_free)) = false /\
  snd (cstep (fst (cstep s dies_free)) (c03_it false [] ENil)) = [CGetStart 700 true; CRecv] /\
  snd (cstep s (mkIter false [] false ETimeout [] false [] true)) =
    [CGetStart 500 false; CRecv; CGetStart 500 true; CSend 100].
Proof. vm_compute. repeat split. Qed.
