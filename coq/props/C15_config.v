(* C15_config.v — the configured kafka-max-message-bytes reaches BOTH of its consumers unchanged in the
   production wiring (transport/transporters/kafka/factory.go, re-read from the source text on every run by
   translator/wiring.go into gen/GenWiring.v).  model/Kafka.v proves "a message larger than the batch's
   limit is dropped and counted, everything else is handed to the producer" (C15_kafka_message_limit,
   C14_size_rule) for ONE number; the worker only writes what the batch accepted if the sarama producer's own
   client-side limit (config.Producer.MaxMessageBytes) is that same number: a producer limit below the
   batch's makes an accepted row fail the whole batch and fail-stop the process on every replay; a batch limit
   above the configured one lets a row through that the operator asked to have dropped.
   The facts: kafka.New and kafka.NewBatchFactory each read transportConfig[ConfVarKafkaMaxMessageBytes] into
   a variable that is never written again and hand the bare variable on: New to parameter #6 of
   producerConfig, which is the parameter assigned to Producer.MaxMessageBytes; NewBatchFactory to field #1 of
   KafkaBatchFactory, which is the field passed as NewKafkaBatch's maxMessageBytes argument (#3). *)
From Bifrost.model Require Import Base.
From Bifrost.gen Require Import GenWiring.

Theorem C15_kafka_limit_never_rewritten : kafka_limit_writes = [].
Proof. reflexivity. Qed.
Print Assumptions C15_kafka_limit_never_rewritten.

Theorem C15_kafka_limit_reaches_the_producer_unchanged :
  In ("New", "producerConfig#6", "plain") kafka_limit_uses /\
  kafka_producer_limit_assigned = [nth 6 kafka_producer_config_params ""] /\
  nth 6 kafka_producer_config_params "" <> "".
Proof. repeat split; [vm_compute; tauto | discriminate]. Qed.
Print Assumptions C15_kafka_limit_reaches_the_producer_unchanged.

Theorem C15_kafka_limit_reaches_the_batches_unchanged :
  In ("NewBatchFactory", "KafkaBatchFactory#1", "plain") kafka_limit_uses /\
  nth 3 kafka_new_batch_args "" = ("f." ++ nth 1 kafka_batch_factory_fields "")%string /\
  nth 1 kafka_batch_factory_fields "" <> "".
Proof. repeat split; [vm_compute; tauto | discriminate]. Qed.
Print Assumptions C15_kafka_limit_reaches_the_batches_unchanged.

(* nothing else consumes the value: exactly these two hand-overs *)
Theorem C15_kafka_limit_has_exactly_two_consumers : List.length kafka_limit_uses = 2%nat.
Proof. reflexivity. Qed.
Print Assumptions C15_kafka_limit_has_exactly_two_consumers.
