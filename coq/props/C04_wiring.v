(* C04_wiring.v — every worker that a sink factory returns is a value of its own and reads the batcher queue
   of its own index (transport/transporters/{kafka,kinesis,rabbitmq,s3,stdout}/factory.go, func New; re-read
   from the source text on every run by translator/wiring.go into gen/GenWiring.v).
   model/Pipeline.v has one FIFO queue per worker and an [LAccept w] step for every w below the worker count:
   "the batch at the head of queue w is eventually taken by worker w" is what C04 (nothing lost), C02 (the
   ledger drains) and C05 (one worker per partition key) rest on.  In Go the factory stores `&t` in a slice of
   pointers; if `t` is not declared inside the loop body all entries alias one variable and the process runs N
   copies of the LAST worker: the other queues are never served.  The facts, per sink: the variable whose
   address is stored is declared inside the loop body, and the statement defining it reads inputChans[i] with
   the loop's own index.  (The stdout, Kinesis, S3 and Kafka factories are also executed by STDOUT, APP and
   KAFKAPROD; RabbitMQ's needs an AMQP dial and is covered by this file only.) *)
From Bifrost.model Require Import Base.
From Bifrost.gen Require Import GenWiring.

Theorem C04_every_sink_factory_is_examined :
  map (fun r => fst (fst r)) factory_workers = ["kafka"; "kinesis"; "rabbitmq"; "s3"; "stdout"].
Proof. reflexivity. Qed.
Print Assumptions C04_every_sink_factory_is_examined.

Theorem C04_each_worker_is_a_value_of_its_own :
  forallb (fun r => snd (fst r)) factory_workers = true.
Proof. reflexivity. Qed.
Print Assumptions C04_each_worker_is_a_value_of_its_own.

Theorem C04_worker_i_reads_queue_i :
  forallb (fun r => snd r) factory_workers = true.
Proof. reflexivity. Qed.
Print Assumptions C04_worker_i_reads_queue_i.
