(* C15_kafka.v — the Kafka clauses of C15 ("no batch handed to a ... Kafka worker exceeds the configured
   record count, and no Kafka message exceeds the configured byte limit"; "a record that cannot be sent
   because of a per-record limit is dropped ... and still counted towards its transaction").
   Model: model/Kafka.v (KafkaBatch.Add, tied to the code by component KAFKA). *)
From Bifrost.model Require Import Base Kafka.
From Bifrost.proofs Require Import KafkaProofs KafkaLimits.

(* every batch built by ANY sequence of Add calls (any sizes, keys, partition methods) holds at most
   kafka-batch-size messages *)
Theorem C15_kafka_count_limit : forall cfg ms,
  (0 <= c_max_batch cfg)%Z -> (num_msgs (build cfg ms) <= c_max_batch cfg)%Z.
Proof. exact build_count_limit. Qed.
Print Assumptions C15_kafka_count_limit.

(* ... and none of its messages measures more than kafka-max-message-bytes by the producer's own rule
   (sarama ByteSize(2) = 36 + |key| + |value|, the KEY INCLUDED) *)
Theorem C15_kafka_message_limit : forall cfg ms p, In p (b_msgs (build cfg ms)) ->
  (byte_size p <= c_max_bytes cfg)%Z.
Proof. exact build_message_limit. Qed.
Print Assumptions C15_kafka_message_limit.

(* the per-record limit drops exactly the records above it, and a dropped record is still counted *)
Theorem C15_kafka_drop_counted : forall cfg b m,
  is_control m = false -> num_msgs b <> c_max_batch cfg ->
  ((byte_size (to_pmsg cfg m) > c_max_bytes cfg)%Z ->
     exists b', add cfg b m = (b', ATooBig) /\ b_msgs b' = b_msgs b /\
       count_of (m_tbk m) (b_txns b') = (count_of (m_tbk m) (b_txns b) + 1)%Z) /\
  ((byte_size (to_pmsg cfg m) <= c_max_bytes cfg)%Z ->
     exists b', add cfg b m = (b', AOk) /\ b_msgs b' = b_msgs b ++ [to_pmsg cfg m]).
Proof. exact add_limit_drop_counted. Qed.
Print Assumptions C15_kafka_drop_counted.

(* non-vacuity: with the table name as key, a value that fits WITHOUT the key but not with it is dropped *)
Example C15_kafka_key_counts_towards_limit :
  let cfg := mkKCfg "t" 10 60 KTableName "u" in
  let m := mkKMsg "INSERT" "0123456789abcdef" "7-1" "7" "public.tbl" in
  (36 + slen (m_json m) <= c_max_bytes cfg)%Z /\ snd (add cfg empty_batch m) = ATooBig.
Proof. vm_compute. split; [discriminate | reflexivity]. Qed.
