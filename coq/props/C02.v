(* C02 — acknowledgement always catches up: the progress ledger never wedges. *)
From Bifrost.model Require Import Base Ledger.
From Bifrost.proofs Require Import LedgerProofs.

(* finding F1 (wedge half): a complete history — every delivery seen, every batch reported —
   after which an entry with commit 0 stays in the ledger for ever. *)
Theorem C02_ledger_wedge_refuted : forall n,
  let l := fst (lrun empty_ledger (f1_complete_ops ++ repeat OEmit n)) in
  items l <> [] /\ ~ In (REmit 100) (snd (lrun empty_ledger (f1_complete_ops ++ repeat OEmit n))).
Proof. exact f1_wedges_forever. Qed.
Print Assumptions C02_ledger_wedge_refuted.
