(* C01, the batcher's half of the contract the ledger layer relies on (E4): a batch is handed to a
   worker only after every COMMIT received so far has been announced to the progress tracker.
   This file holds only statements closed by [exact], their assumptions, and non-vacuity examples.
   Vocabulary (proofs/BatcherProofs.v):
     seen_outs t     all OSeenList outputs of t concatenated, in order
     seens_of ms     the Seen records the batcher makes from the received messages ms: one per COMMIT,
                     in COMMIT order (scan_commits / C01_one_seen_per_commit), with the running total
     changes l       the messages of l that are not BEGIN / COMMIT *)
From Bifrost.model Require Import Base Crc32 Batch Batcher.
From Bifrost.proofs Require Import BatchProofs BatcherProofs.

(* EVERY run (any events, any tick oracles, also runs that later stop fatally): at every position of the
   trace where a batch goes to a worker (t = t1 ++ OBatch w b :: t2), all Seen records of the COMMITs
   received in t1 have already been sent in t1, every record of b was received in t1, and so every COMMIT
   received before any record of b has its Seen in an OSeenList of t1. *)
Theorem C01_seen_before_dispatch : forall cfg evs st t,
  workers_ok cfg -> brun cfg binit evs = (st, t) ->
  forall t1 w b t2, t = t1 ++ TOut (OBatch w b) :: t2 ->
    seen_outs t1 = seens_of (fed t1) /\
    incl (ids b) (map m_id (changes (fed t1))) /\
    (forall c, In c (fed t1) -> is_commit c = true ->
       exists n, In (mkSeen (m_txn c) (m_key c) n (m_wal c)) (seen_outs t1)).
Proof. exact run_dispatch_order_all. Qed.
Print Assumptions C01_seen_before_dispatch.

(* nothing is announced twice, skipped or reordered: the announcements so far plus the pending list are
   exactly the Seen records of the COMMITs received (runs that did not stop fatally) *)
Theorem C01_seen_announced_once : forall cfg evs st t,
  workers_ok cfg -> brun cfg binit evs = (st, t) -> dead st = false ->
  seen_outs t ++ seenl st = seens_of (fed t).
Proof. exact run_seen_announced. Qed.
Print Assumptions C01_seen_announced_once.

Theorem C01_one_seen_per_commit : forall ms cur tot,
  map (fun s => (s_txn s, s_key s, s_commit s)) (snd (scan cur tot ms)) =
  map (fun m => (m_txn m, m_key m, m_wal m)) (filter is_commit ms).
Proof. exact scan_commits. Qed.
Print Assumptions C01_one_seen_per_commit.

(* ---- non-vacuity: a COMMIT is received, then a batch is flushed by a tick: the Seen goes out first ---- *)
Definition x_msg (id : N) (op : string) (jlen : N) (key pk : string) := mkMsg id op "t" jlen key "tx" id pk.
Definition x_cfg := mkBcfg (BGeneric 5) (mkLimits 500 5242880 1048576) 1 RoundRobin 1000 5000 1000.
Definition x_evs := [BMsg 0 (x_msg 1 "BEGIN" 0 "k1" ""); BMsg 1 (x_msg 2 "INSERT" 10 "k1" "");
                     BMsg 2 (x_msg 3 "COMMIT" 0 "k1" ""); BTick 10000 [""] []].

Example C01_seen_before_dispatch_nonvacuous :
  let '(st, t) := brun x_cfg binit x_evs in
  dead st = false /\
  map (fun e => match e with TFeed m => ("feed " ++ m_op m)%string | TOut (OSeenList _) => "seen"
                           | TOut (OBatch _ _) => "batch" | TOut _ => "other" end) t =
  ["feed BEGIN"; "feed INSERT"; "feed COMMIT"; "seen"; "batch"].
Proof. vm_compute. auto. Qed.
