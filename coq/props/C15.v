(* C15 — batches always respect the sink's hard limits.
   This file holds only statements closed by [exact], their assumptions, and non-vacuity examples. *)
From Bifrost.model Require Import Base Crc32 Batch Batcher.
From Bifrost.proofs Require Import BatchProofs BatcherProofs.
(* >>> COORDINATOR: source of the code's constants (MAX_RECORDS, MAX_BATCH_SIZE_BYTES, MAX_RECORD_SIZE_BYTES
   of transport/transporters/kinesis/batch/batch.go, re-read from the Go source on every run) <<< *)
From Bifrost.gen Require Import GenConsts.

(* the limits the code uses; the AWS limits are the literals in the theorems below, so raising a
   constant in the Go source above the AWS value breaks [code_limits_within_aws] and with it C15 *)
Definition code_limits : klimits :=
  mkLimits kinesis_max_records kinesis_max_batch_size_bytes kinesis_max_record_size_bytes.

Lemma code_limits_within_aws : within_aws code_limits.
Proof. vm_compute. repeat split; discriminate. Qed.

(* BATCH level: any sequence of Add on a fresh Kinesis batch, any messages, no bound on the sequence.
   rsize r = r_len r + |r_pk r|  (what PutRecords counts for a record) *)
Theorem C15_kinesis_limits : forall meth pk ms b obs,
  run_adds code_limits (new_batch (BKinesis meth) pk) ms = (b, obs) ->
  (N.of_nat (List.length (b_items b)) <= 500)%N /\
  sum_N (map rsize (b_items b)) = b_bytes b /\
  (sum_N (map rsize (b_items b)) <= 5 * 2^20)%N /\
  Forall (fun r => (r_len r <= 2^20)%N) (b_items b).
Proof. exact (kinesis_limits_aws code_limits code_limits_within_aws). Qed.
Print Assumptions C15_kinesis_limits.

Theorem C15_generic_limit : forall L mx pk ms b obs,
  (0 <= mx)%Z -> run_adds L (new_batch (BGeneric mx) pk) ms = (b, obs) -> (nitems b <= mx)%Z.
Proof. exact generic_limit. Qed.
Print Assumptions C15_generic_limit.

(* a record above the single-record limit is not put into the batch, but it IS counted in the batch's
   transactions map (otherwise the ledger would wait for it for ever) *)
Theorem C15_drop_counted : forall L b m meth,
  b_kind b = BKinesis meth -> is_marker m = false -> (max_record_bytes L < m_jlen m)%N ->
  exists b', add L b m = (b', ATooBig) /\ b_items b' = b_items b /\ b_bytes b' = b_bytes b /\
             forall k, txcount k (b_txns b') = (txcount k (b_txns b) + (if String.eqb k (m_key m) then 1 else 0))%Z.
Proof. exact drop_counted. Qed.
Print Assumptions C15_drop_counted.

(* BATCHER level: every batch handed to a worker, in EVERY run (any messages, any tick placement, any
   oracle, also runs that later stop fatally), is non-empty, of the configured kind and within the limits.
   workers_ok cfg = 1 <= c_workers cfg;  kind_ok cfg = a generic batch size is >= 0. *)
Theorem C15_dispatched_limits : forall cfg evs st t,
  workers_ok cfg -> kind_ok cfg -> brun cfg binit evs = (st, t) ->
  forall w b, In (w, b) (dispatched t) ->
    is_empty b = false /\ b_kind b = c_kind cfg /\ batch_ok (c_limits cfg) b.
Proof. exact run_dispatched_limits_all. Qed.
Print Assumptions C15_dispatched_limits.

(* ... which for the code's Kinesis configuration are the AWS numbers *)
Theorem C15_dispatched_kinesis : forall cfg meth evs st t,
  workers_ok cfg -> c_kind cfg = BKinesis meth -> c_limits cfg = code_limits ->
  brun cfg binit evs = (st, t) ->
  forall w b, In (w, b) (dispatched t) ->
    b_items b <> [] /\ (N.of_nat (List.length (b_items b)) <= 500)%N /\
    sum_N (map rsize (b_items b)) = b_bytes b /\ (sum_N (map rsize (b_items b)) <= 5 * 2^20)%N /\
    Forall (fun r => (r_len r <= 2^20)%N) (b_items b).
Proof. exact (run_dispatched_kinesis_all code_limits code_limits_within_aws). Qed.
Print Assumptions C15_dispatched_kinesis.

(* ---- the domain: the batcher never stops fatally (and the Go recursion in addToBatch ends) ---- *)
(* cfg_ok  = at least one worker, generic batch size >= 1, Kinesis max records >= 1;
   fits    = a record within the single-record limit, together with its Kinesis key, fits an EMPTY batch.
   Under these hypotheses no run ends dead, so "dead st = false" in the other theorems is dischargeable. *)
Theorem C15_never_fatal : forall cfg evs st t,
  cfg_ok cfg = true -> forallb (fits cfg) (msgs_of evs) = true -> brun cfg binit evs = (st, t) -> dead st = false.
Proof. exact run_never_dead. Qed.
Print Assumptions C15_never_fatal.

Lemma code_limits_room : (max_record_bytes code_limits + 4 * 2^20 <= max_batch_bytes code_limits)%N.
Proof. vm_compute. discriminate. Qed.

(* with the code's constants [fits] only asks for a partition key of at most 4 MiB *)
Theorem C15_code_limits_fit : forall cfg meth m,
  c_kind cfg = BKinesis meth -> c_limits cfg = code_limits ->
  (N.of_nat (String.length (pk_of meth m)) <= 4 * 2^20)%N -> fits cfg m = true.
Proof. exact (fits_bounded_key code_limits (4 * 2^20) code_limits_room). Qed.
Print Assumptions C15_code_limits_fit.

(* [fits] is needed: with limits where a legal record does not fit an empty batch, ERR_CANT_FIT repeats on
   every fresh batch; the Go recursion addToBatch -> sendBatch -> addToBatch never ends (the model runs out
   of fuel and stops).  Not reachable with the code's constants unless a partition key exceeds 4 MiB. *)
Definition w_msg (id : N) (op : string) (jlen : N) (key pk : string) := mkMsg id op "t" jlen key "tx" id pk.
Definition w_cfg := mkBcfg (BKinesis KBatch) (mkLimits 5 10 20) 1 RoundRobin 1000 5000 1000.
Theorem C15_cant_fit_for_ever_refuted :
  cfg_ok w_cfg = true /\ fits w_cfg (w_msg 1 "INSERT" 15 "k" "a") = false /\
  dead (fst (brun w_cfg binit [BMsg 0 (w_msg 1 "INSERT" 15 "k" "a")])) = true.
Proof. vm_compute. auto. Qed.
Print Assumptions C15_cant_fit_for_ever_refuted.

(* [cfg_ok] is needed: a generic batch size of 0 is fatal on the first change ("batch is full") *)
Theorem C15_generic_size_zero_refuted :
  let cfg := mkBcfg (BGeneric 0) (mkLimits 5 10 20) 1 RoundRobin 1000 5000 1000 in
  cfg_ok cfg = false /\ dead (fst (brun cfg binit [BMsg 0 (w_msg 1 "INSERT" 15 "k" "a")])) = true.
Proof. vm_compute. auto. Qed.
Print Assumptions C15_generic_size_zero_refuted.

(* ---- non-vacuity ---- *)
(* 501 changes offered to one Kinesis batch with the code's limits: 500 accepted, the last is refused *)
Example C15_kinesis_limits_nonvacuous :
  let ms := map (fun i => w_msg (N.of_nat i) "INSERT" 100 "k" "a") (seq 0 501) in
  let '(b, obs) := run_adds code_limits (new_batch (BKinesis KBatch) "a") ms in
  List.length (b_items b) = 500%nat /\ b_bytes b = 50500%N /\ nth 500 (map res_of obs) AOk = AFull.
Proof. vm_compute. auto. Qed.

(* a record of 1 MiB + 1 byte is dropped and counted; 6 records of 1 MiB do not fit 5 MiB *)
Example C15_kinesis_bytes_nonvacuous :
  let ms := w_msg 0 "INSERT" 1048577 "k" "a" :: map (fun i => w_msg (N.of_nat i) "INSERT" 1048575 "k" "a") (seq 1 6) in
  let '(b, obs) := run_adds code_limits (new_batch (BKinesis KBatch) "a") ms in
  map res_of obs = [ATooBig; AOk; AOk; AOk; AOk; AOk; ACantFit] /\ b_bytes b = 5242880%N /\
  txcount "k" (b_txns b) = 6%Z.
Proof. vm_compute. auto. Qed.

Example C15_dispatched_nonvacuous :
  let cfg := mkBcfg (BKinesis KBatch) code_limits 2 ByPartition 1000 5000 1000 in
  let evs := map (fun i => BMsg 0 (w_msg (N.of_nat i) "INSERT" 1048575 "k" "a")) (seq 0 7) in
  cfg_ok cfg = true /\ forallb (fits cfg) (msgs_of evs) = true /\
  map (fun wb => ids (snd wb)) (dispatched (snd (brun cfg binit evs))) = [[0; 1; 2; 3; 4]%N].
Proof. vm_compute. auto. Qed.
