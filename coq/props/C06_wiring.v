(* C06_wiring.v — the configured partition method reaches the partitioner and the transport from ONE text
   (main/main.go, re-read on every run by translator/wiring.go into gen/GenWiring.v).  model/Batcher.v and
   model/Partition.v take one method: "records of a partitioned Kinesis batch all carry that key, un-partitioned
   records are keyed by their own LSN" presupposes that the partitioner (which makes the keys) and the Kinesis
   batch factory (which decides whether a record carries the batch's key or its own LSN) were given the same
   method.  main.go looks the flag up twice; both look-ups must be applied to the same expression. *)
From Bifrost.model Require Import Base.
From Bifrost.gen Require Import GenWiring.

Theorem C06_partition_method_is_read_twice : List.length main_partition_method_reads = 2%nat.
Proof. reflexivity. Qed.
Print Assumptions C06_partition_method_is_read_twice.

Theorem C06_both_reads_use_the_same_text :
  forall a b, In a main_partition_method_reads -> In b main_partition_method_reads -> a = b.
Proof.
  intros a b Ha Hb. vm_compute in Ha, Hb.
  repeat (destruct Ha as [Ha|Ha]; [|]); repeat (destruct Hb as [Hb|Hb]; [|]); subst; try reflexivity; try contradiction.
Qed.
Print Assumptions C06_both_reads_use_the_same_text.
