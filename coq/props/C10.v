(* C10 -- JSON rendering is faithful and independent of earlier messages.
   This file holds only statements closed by [exact], their assumptions, non-vacuity examples and
   refutation witnesses.  [nomo] is the marshaller's noMarshalOldValue setting. *)
From Bifrost.model Require Import Base Json Marshal.
From Bifrost.proofs Require Import JsonProofs MarshalProofs.
From Coq Require Import Permutation.

(* Valid and faithful, at full strength: for EVERY change whose strings (operation, table, key,
   column names, values and types, old and new) are well-formed UTF-8 -- any characters, incl.
   quotes, backslashes, control characters, < > &, U+2028/9, 2/3/4-byte sequences -- every LSN
   and every ServerTime, the emitted bytes are accepted by the reference JSON parser (strict
   UTF-8, no raw control characters, no leading zeros, whole input consumed) and read back to
   exactly [tree nomo c].  What [tree] contains is C10_record_fields / C10_decision_table. *)
Theorem C10_valid_and_faithful : forall nomo c, valid_utf8_fields c = true ->
  json_parse (render nomo c) = Some (tree nomo c).
Proof. exact render_faithful. Qed.
Print Assumptions C10_valid_and_faithful.

(* the seven fields, in the declared order: time, time_ms, txn = TimeBasedKey, lsn, table,
   operation, columns *)
Theorem C10_record_fields : forall nomo c,
  tree nomo c =
  JObj [ ("time", JStr (fmt_time (ch_time c))); ("time_ms", JInt (ch_time c)); ("txn", JStr (ch_key c));
         ("lsn", JStr (fmt_lsn (ch_wal c))); ("table", JStr (ch_table c)); ("operation", JStr (ch_op c));
         ("columns", JObj (tree_columns nomo c)) ].
Proof. exact tree_shape. Qed.
Print Assumptions C10_record_fields.

(* the string layer on its own: escaping is inverted by the reader for every well-formed string *)
Theorem C10_escape_roundtrip : forall s, valid_utf8 s = true -> forall rest,
  unescape (escape s ++ String c_dq rest) = Some (s, rest).
Proof. exact escape_roundtrip_valid. Qed.
Print Assumptions C10_escape_roundtrip.

(* Decision table.  The columns object has exactly one member per entry of Pr.Columns (distinct
   names, as in a Go map), and that member is [pairjson] of the decision; the decision is:
     DELETE                                   -> old only (the value found in Columns)
     no old value recorded                    -> new only
     old value with the same text             -> new only
     text differs, not the TOAST marker       -> new, and old next to it unless noMarshalOldValue
     text differs, new text is the marker     -> the PREVIOUS value as new, and as old unless nomo *)
Theorem C10_decision_table : forall nomo c, NoDup (map fst (ch_cols c)) ->
  (forall k j, In (k, j) (tree_columns nomo c) <->
     exists v, In (k, v) (ch_cols c) /\ j = pairjson (col_decision nomo (ch_op c) v (aget k (ch_old c)))) /\
  (forall op v oldv,
     (op = "DELETE" -> col_decision nomo op v oldv = DOld v) /\
     (op <> "DELETE" -> oldv = None -> col_decision nomo op v oldv = DNew v) /\
     (forall o, op <> "DELETE" -> oldv = Some o -> cv_value v = cv_value o -> col_decision nomo op v oldv = DNew v) /\
     (forall o, op <> "DELETE" -> oldv = Some o -> cv_value v <> cv_value o -> cv_value v <> toast_marker ->
        col_decision nomo op v oldv = if nomo then DNew v else DBoth v o) /\
     (forall o, op <> "DELETE" -> oldv = Some o -> cv_value v <> cv_value o -> cv_value v = toast_marker ->
        col_decision nomo op v oldv = if nomo then DNew o else DBoth o o)).
Proof. exact decision_table_full. Qed.
Print Assumptions C10_decision_table.

(* LSN: the standard form for the whole 64-bit range, proved by induction on the digits *)
Theorem C10_lsn : forall w, (w < 2 ^ 64)%N ->
  parse_lsn (fmt_lsn w) = Some w /\ canonical_lsn (fmt_lsn w) = true.
Proof. exact lsn_full. Qed.
Print Assumptions C10_lsn.

(* time: the RFC 3339 UTC string denotes the instant of ServerTime (whole seconds, floor; so also
   negative ServerTime) for every ServerTime whose nanosecond count fits an int64, i.e.
   1677-09-21 .. 2262-04-11.  Outside, the Go code's int64 multiplication wraps; [fmt_time] models
   the wrap exactly (checked against the real code) but then names another instant; time_ms is
   exact for every int64 (C10_record_fields). *)
Theorem C10_time : forall ms, (-9223372036854 <= ms <= 9223372036854)%Z ->
  parse_time (fmt_time ms) = Some (ms / 1000)%Z.
Proof. exact parse_fmt_time. Qed.
Print Assumptions C10_time.

(* History independence.  Whatever the package-level pools, colsTemp, lsnBuffer and
   reusedWalEntry hold (value maps with arbitrary leftover contents under the keys v t q, in any
   order; pair maps emptied), and whichever pooled maps sync.Pool hands out (oracle [choices]),
   the bytes are those of the stateless rendering, and the pools satisfy the invariant again. *)
Theorem C10_history_independent : forall nomo pl choices c, PoolInv pl ->
  fst (render_with_pool nomo pl choices c) = render nomo c /\
  PoolInv (snd (render_with_pool nomo pl choices c)).
Proof. exact render_with_pool_spec. Qed.
Print Assumptions C10_history_independent.

(* ... hence for sequences of any length through one marshaller (BEGIN/COMMIT pass through with
   Json = nil and do not touch the pools; the six header fields are copied) *)
Theorem C10_sequence_independent : forall nomo cs chs pl, PoolInv pl ->
  fst (marshal_stage nomo pl chs cs) = map (pure_out nomo) cs /\
  PoolInv (snd (marshal_stage nomo pl chs cs)).
Proof. exact marshal_stage_spec. Qed.
Print Assumptions C10_sequence_independent.

Theorem C10_position_independent : forall nomo pl chs cs1 c cs2, PoolInv pl ->
  nth_error (fst (marshal_stage nomo pl chs (cs1 ++ c :: cs2))) (List.length cs1) = Some (pure_out nomo c).
Proof. exact position_independent. Qed.
Print Assumptions C10_position_independent.

(* the order in which Go iterates over Pr.Columns is not observable either *)
Theorem C10_column_order_irrelevant : forall nomo c cols',
  Permutation (ch_cols c) cols' -> NoDup (map fst (ch_cols c)) ->
  (forall k, In k (map fst (ch_cols c)) -> valid_utf8 k = true) ->
  render nomo (with_cols c cols') = render nomo c.
Proof. exact render_order_irrelevant. Qed.
Print Assumptions C10_column_order_irrelevant.

(* ---------- finding F6 ----------
   Full statement that the faithful model does NOT satisfy:
     forall nomo c k v, In (k, v) (ch_cols c) -> ch_op c <> "DELETE" ->
       the "new" entry of column k in tree nomo c is valjson v.
   marshalWalToJson tests v.Value == "unchanged-toast-datum" without looking at v.Quoted, so a
   QUOTED (i.e. real) text value that happens to be that word, with a different old value, is
   replaced by the old value. *)
Definition f6_new : colval := mkCV "unchanged-toast-datum" "text" true.
Definition f6_old : colval := mkCV "previous" "text" true.
Definition f6_change : change :=
  mkChange "UPDATE" "public.t" "" [("c", f6_new)] [("c", f6_old)] 4294967296 1 "7-1" "".

Theorem C10_toast_quoted_refuted :
  cv_quoted f6_new = true /\
  json_parse (render false f6_change) = Some (tree false f6_change) /\
  tree_columns false f6_change = [("c", JObj [("new", valjson f6_old); ("old", valjson f6_old)])] /\
  valjson f6_old <> valjson f6_new.
Proof. vm_compute. repeat split; try reflexivity. discriminate. Qed.
Print Assumptions C10_toast_quoted_refuted.

(* the strongest true restriction: unless its text is the marker, the new value is rendered *)
Theorem C10_new_value_partial : forall nomo op v oldv,
  op <> "DELETE" -> cv_value v <> toast_marker -> dec_new (col_decision nomo op v oldv) = Some v.
Proof. exact new_is_value_unless_marker. Qed.
Print Assumptions C10_new_value_partial.

(* Same root cause, second symptom: "changed" is decided on the text alone, so SQL NULL (unquoted
   null) against the string 'null' (quoted) counts as unchanged and the old value is not shown
   although old values are enabled.  Full statement not satisfied:
     old is shown (old values enabled, not DELETE) whenever (value, quoted) differs. *)
Definition f6b_change : change :=
  mkChange "UPDATE" "public.t" "" [("e", mkCV "null" "text" false)] [("e", mkCV "null" "text" true)] 1 0 "7-1" "".
Theorem C10_quoted_flag_ignored_refuted :
  tree_columns false f6b_change = [("e", JObj [("new", valjson (mkCV "null" "text" false))])].
Proof. vm_compute. reflexivity. Qed.
Print Assumptions C10_quoted_flag_ignored_refuted.

Theorem C10_old_shown_partial : forall nomo op v oldv o,
  op <> "DELETE" -> dec_old (col_decision nomo op v oldv) = Some o ->
  nomo = false /\ oldv = Some o /\ cv_value v <> cv_value o.
Proof. exact old_shown_only_if_text_differs. Qed.
Print Assumptions C10_old_shown_partial.

(* ---------- non-vacuity ---------- *)
(* a change with every escape class satisfies the hypothesis of C10_valid_and_faithful *)
Definition ex_change : change :=
  mkChange "UPDATE" "public.""t""" "55"
    [ ("a ", mkCV (hx "225c0a0d09003c3e267fe280a8c3a9e5908df09f9880") "text" true);
      ("a", mkCV "1" "integer" false); ("a!", mkCV "unchanged-toast-datum" "text" false) ]
    [ ("a ", mkCV "old" "text" true); ("a!", mkCV (hx "e280a9") "text" true) ]
    18446744073709551615 1709164800123 "55-1569888000000000000" "pk".

Example C10_faithful_nonvacuous :
  valid_utf8_fields ex_change = true /\ NoDup (map fst (ch_cols ex_change)) /\
  map fst (tree_columns false ex_change) = ["a "; "a!"; "a"] /\
  json_parse (render false ex_change) = Some (tree false ex_change).
Proof.
  split; [reflexivity|]. split; [repeat constructor; simpl; intuition discriminate|].
  split; vm_compute; reflexivity.
Qed.

(* a pool that satisfies PoolInv with leftovers in every key order, and an oracle that uses them *)
Definition ex_pool : pool :=
  mkPool [ [("q", "true"); ("v", "stale"); ("t", "jsonb")]; [("t", "x")]; []; [("v", "1"); ("t", "integer"); ("q", "false")] ]
         [ []; [] ] [("gone", [("new", [("v", "9")])])] "A/B"
         (mkWE "1999-01-01T00:00:00Z" 7 "k" "A/B" "tbl" "DELETE" [("gone", [])]).

Example C10_history_nonvacuous :
  PoolInv ex_pool /\
  fst (render_with_pool false ex_pool [3; 0; 1; 9; 0] ex_change) = render false ex_change /\
  p_vals (snd (render_with_pool false ex_pool [3; 0; 1; 9; 0] ex_change)) <> p_vals ex_pool.
Proof.
  split; [|split; [vm_compute; reflexivity|vm_compute; discriminate]].
  assert (K : forall m : vmap, NoDup (map fst m) ->
              forallb (fun k => String.eqb k "v" || String.eqb k "t" || String.eqb k "q") (map fst m) = true ->
              vkeys_ok m).
  { intros m Hn Hk. split; [exact Hn|]. rewrite forallb_forall in Hk. intros k Hin. specialize (Hk k Hin).
    repeat (apply orb_true_iff in Hk as [Hk|Hk]); apply String.eqb_eq in Hk; auto. }
  split; simpl.
  - repeat (apply Forall_cons; [apply K; [repeat constructor; simpl; intuition discriminate|reflexivity]|]).
    apply Forall_nil.
  - repeat constructor.
Qed.

(* PoolInv is not decoration: a value map with a foreign key leaks into the output *)
Example C10_poolinv_needed :
  fst (render_with_pool false (mkPool [[("x", "leak")]] [] [] "" (p_entry empty_pool)) [] ex_change)
  <> render false ex_change.
Proof. vm_compute. discriminate. Qed.

Example C10_lsn_examples :
  fmt_lsn 0 = "0/0" /\ fmt_lsn 4294967295 = "0/FFFFFFFF" /\ fmt_lsn 4294967296 = "1/0" /\
  fmt_lsn 18446744073709551615 = "FFFFFFFF/FFFFFFFF" /\ fmt_lsn 22088280 = "0/1510A58".
Proof. vm_compute. repeat split; reflexivity. Qed.

Example C10_time_examples :
  fmt_time 0 = "1970-01-01T00:00:00Z" /\ fmt_time 1 = "1970-01-01T00:00:00Z" /\
  fmt_time (-1) = "1969-12-31T23:59:59Z" /\ fmt_time 951782400000 = "2000-02-29T00:00:00Z" /\
  fmt_time 9223372036854 = "2262-04-11T23:47:16Z" /\ fmt_time 9223372036855 = "1677-09-21T00:12:43Z".
Proof. vm_compute. repeat split; reflexivity. Qed.
