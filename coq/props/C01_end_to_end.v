(* C01_end_to_end.v — C01 as PostgreSQL sees it: "whenever pg-bifrost REPORTS a flush position F to
   PostgreSQL ...".  Two layers are composed: the replication client (model/Client.v, C03: every position
   it sends is the session's start position or a value that arrived on its progress channel) and the
   composed pipeline (model/Pipeline.v, C01_pipeline_released_complete: a position the ledger emitted
   belongs to a delivery ALL of whose changes are in the sink or were dropped as too big and counted).
   The progress channel of the client is the ledger's output channel (app/runner.go hands
   progressTracker.OutputChan to replicationClient.Start), which is the hypothesis [fed_by_ledger].
   For every client run (any interleaving of data, keepalives, timeouts, nil messages, lost and dying
   connections, error responses, ticks served while the output is blocked) beside every pipeline schedule. *)
From Bifrost.model Require Import Base Batch Batcher Ledger Pipeline Client.
From Bifrost.proofs Require Import BatchProofs BatcherProofs LedgerProofs ClientProofs ClientProofs2 PipelineProofs EndToEnd.

Theorem C01_acknowledged_to_postgres_is_in_the_sink : forall cfg ls first its, workers_ok cfg ->
  NoDup (map m_id (fed_of ls)) -> framed (fed_of ls) = true ->
  fed_by_ledger cfg ls its ->
  forall F, In F (acks (snd (crun first its))) ->
  F = start_pos first \/ F = 0%N \/
  exists t k n, In (OSeen t k n F) (p_lops (prun cfg ls)) /\
    n = nchanges k (fed_of ls) /\
    (forall m, In m (fed_of ls) -> is_marker m = false -> m_key m = k -> fate_of cfg m = FAccepted ->
               In (m_id m) (map r_id (p_accepted (prun cfg ls)))) /\
    (forall m, In m (fed_of ls) -> is_marker m = false -> m_key m = k -> fate_of cfg m <> FDroppedInvalid).
Proof. exact acknowledged_to_postgres_is_in_the_sink. Qed.
Print Assumptions C01_acknowledged_to_postgres_is_in_the_sink.

(* the client half alone: nothing but the start position and ledger emissions is ever sent *)
Theorem C01_client_sends_only_ledger_emissions : forall cfg ls first its a,
  fed_by_ledger cfg ls its ->
  In a (acks (snd (crun first its))) ->
  a = start_pos first \/ a = 0%N \/ In a (p_acked (prun cfg ls)).
Proof. exact client_acks_are_ledger_emissions. Qed.
Print Assumptions C01_client_sends_only_ledger_emissions.
