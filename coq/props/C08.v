(* C08 — table filter semantics from command line to output.   VARIANT FOR THE REPAIRED TREE.
   NOT COMPILED while finding F4 is present (the file name does not end in .v).
   To switch after the fix to main/main.go (see the patch in registry/32_filter.json / the report):
     1. cp coq/alt/C08_after_fix.v.txt coq/props/C08.v
     2. in coq/proofs/FilterProofs.v delete the section "finding F4" (lemmas cli_cfg_wlr_today,
        cli_cfg_blr_today, cli_refuted_wlr, cli_refuted_blr, cli_statement_refuted,
        cli_exclusive_refuted, cli_combination_today): they are true of the old chain only and stop
        compiling against the regenerated GenCli.v.  cli_partial and everything else stays.
     3. mark F4-C08 "fixed" in known_findings.json; the corpus cases corpus/CLI/f4_*.json stay
        (they then run silently).
   The two proofs below need nothing else: they compute the regenerated chain on a non-empty list.

   Regular-expression matching is the oracle M : item -> relation -> bool = Go's
   regexp.MatchString (an unanchored search); a user regexp that does not compile is outside the
   domain.  cli_filter_cfg comes from gen/GenCli.v, re-translated from main/main.go on every run. *)
From Bifrost.model Require Import Base Filter.
From Bifrost.gen Require Import GenCli.
From Bifrost.proofs Require Import FilterProofs.

Theorem C08_filter_stage : forall c bad M ms,
  regs_compile c bad ->
  stage c bad M ms = Done (List.filter (fun m => is_marker m || decide c M (f_rel m)) ms).
Proof. exact stage_filter. Qed.
Print Assumptions C08_filter_stage.

Theorem C08_decide_permitted : forall kind lst M rel,
  decide (cfg_of kind lst) M rel = true <-> permitted kind lst M rel.
Proof. exact decide_permitted. Qed.
Print Assumptions C08_decide_permitted.

Theorem C08_filter_stage_panic_prefix : forall c bad M ms,
  exists rest, List.filter (fun m => is_marker m || decide c M (f_rel m)) ms
               = forwarded (stage c bad M ms) ++ rest.
Proof. exact stage_prefix. Qed.
Print Assumptions C08_filter_stage_panic_prefix.

(* the repaired chain hands filter.New exactly the configuration each kind needs *)
Lemma cli_cfg_repaired : forall kind x l,
  cli_cfg (flags_of kind (x :: l)) = Some (cfg_of kind (x :: l)).
Proof. intros kind x l. destruct kind; reflexivity. Qed.

(* Command line, full statement: each flag given alone means what the user meant. *)
Theorem C08_cli : forall kind lst, lst <> [] ->
  forall c, cli_cfg (flags_of kind lst) = Some c ->
  forall M rel, decide c M rel = true <-> permitted kind lst M rel.
Proof. intros kind. apply cli_ok_from_cfg. intros x l. apply cli_cfg_repaired. Qed.
Print Assumptions C08_cli.

Theorem C08_cli_nofilter : forall c M rel, cli_cfg ([], [], [], []) = Some c -> decide c M rel = true.
Proof. exact cli_nofilter_all. Qed.
Print Assumptions C08_cli_nofilter.

(* the four flags are mutually exclusive: any two of them are refused *)
Theorem C08_cli_exclusive : forall f, 2 <= flags_given f -> cli_cfg f = None.
Proof.
  intros [[[wl bl] wlr] blr] H.
  destruct wl, bl, wlr, blr; try reflexivity; simpl in H; lia.
Qed.
Print Assumptions C08_cli_exclusive.

(* ---- non-vacuity ---- *)
Example C08_stage_nonvacuous :
  let c := (true, true, ["^public\.a$"]) in
  let mx := [("^public\.a$", "public.a")] in
  let ms := [mkF 0 "BEGIN" ""; mkF 1 "INSERT" "public.a"; mkF 2 "UPDATE" "public.""A.b""";
             mkF 3 "TRUNCATE" "public.a, public.b"; mkF 4 "COMMIT" ""] in
  regs_compile c (fun _ => false) /\
  map f_id (forwarded (stage c (fun _ => false) (matrix_fn mx) ms)) = [0; 1; 4]%N.
Proof. split; [intros _ it _; reflexivity|reflexivity]. Qed.

(* every single flag is accepted, so the premise of C08_cli is satisfiable for every kind *)
Example C08_cli_nonvacuous : forall kind, exists c, cli_cfg (flags_of kind ["public.a"]) = Some c.
Proof. intros kind. eexists. apply cli_cfg_repaired. Qed.
