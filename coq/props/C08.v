(* C08 — table filter semantics from command line to output.   VARIANT FOR THE CURRENT TREE
   (finding F4 present).  After main.go is repaired replace this file by
   coq/alt/C08_after_fix.v.txt (full theorem, no refutations).

   Regular-expression matching is the oracle M : item -> relation -> bool = Go's
   regexp.MatchString (an unanchored search); a user regexp that does not compile is outside the
   domain (hypothesis regs_compile; see C08_filter_stage_panic_prefix for what happens then).
   cli_filter_cfg comes from gen/GenCli.v, re-translated from main/main.go on every run. *)
From Bifrost.model Require Import Base Filter.
From Bifrost.gen Require Import GenCli.
From Bifrost.proofs Require Import FilterProofs.

(* Stage, all configurations, all streams: the output is the input filtered by
   (BEGIN/COMMIT or decide), in input order. *)
Theorem C08_filter_stage : forall c bad M ms,
  regs_compile c bad ->
  stage c bad M ms = Done (List.filter (fun m => is_marker m || decide c M (f_rel m)) ms).
Proof. exact stage_filter. Qed.
Print Assumptions C08_filter_stage.

(* decide is the user's intent for each of the four kinds of list and for no filter *)
Theorem C08_decide_permitted : forall kind lst M rel,
  decide (cfg_of kind lst) M rel = true <-> permitted kind lst M rel.
Proof. exact decide_permitted. Qed.
Print Assumptions C08_decide_permitted.

(* outside the domain: a nil *Regexp panics, the stage stops; what was forwarded is a prefix of
   the intended output (nothing wrong is ever forwarded) *)
Theorem C08_filter_stage_panic_prefix : forall c bad M ms,
  exists rest, List.filter (fun m => is_marker m || decide c M (f_rel m)) ms
               = forwarded (stage c bad M ms) ++ rest.
Proof. exact stage_prefix. Qed.
Print Assumptions C08_filter_stage_panic_prefix.

(* Command line.  Full statement (C08_cli_statement):
     forall kind lst, lst <> [] -> forall c, cli_cfg (flags_of kind lst) = Some c ->
     forall M rel, decide c M rel = true <-> permitted kind lst M rel.
   It is FALSE for today's main.go (finding F4): *)
Theorem C08_cli_refuted :
  ~ C08_cli_statement /\
  (exists lst c, lst <> [] /\ cli_cfg (flags_of WLR lst) = Some c /\
     decide c (matrix_fn f4_matrix) "public.b" = true /\ ~ permitted WLR lst (matrix_fn f4_matrix) "public.b") /\
  (exists lst c, lst <> [] /\ cli_cfg (flags_of BLR lst) = Some c /\
     decide c (matrix_fn f4_matrix) "public.a" = true /\ ~ permitted BLR lst (matrix_fn f4_matrix) "public.a").
Proof. exact (conj cli_statement_refuted (conj cli_refuted_wlr cli_refuted_blr)). Qed.
Print Assumptions C08_cli_refuted.

(* the strongest true restriction: --whitelist, --blacklist and no filter flag work *)
Theorem C08_cli_partial : forall kind, kind = WL \/ kind = BL \/ kind = NoFilter ->
  forall lst, lst <> [] -> forall c, cli_cfg (flags_of kind lst) = Some c ->
  forall M rel, decide c M rel = true <-> permitted kind lst M rel.
Proof. exact cli_partial. Qed.
Print Assumptions C08_cli_partial.

Theorem C08_cli_nofilter : forall c M rel, cli_cfg ([], [], [], []) = Some c -> decide c M rel = true.
Proof. exact cli_nofilter_all. Qed.
Print Assumptions C08_cli_nofilter.

(* second half of F4: the four flags are documented as mutually exclusive
   (forall f, 2 <= flags_given f -> cli_cfg f = None), but the test is a conjunction of all four *)
Theorem C08_cli_exclusive_refuted : ~ C08_cli_exclusive_statement.
Proof. exact cli_exclusive_refuted. Qed.
Print Assumptions C08_cli_exclusive_refuted.

(* ---- non-vacuity ---- *)
(* a stream with quoted, dotted and multi-table TRUNCATE relations through a regexp whitelist *)
Example C08_stage_nonvacuous :
  let c := (true, true, [f4_rx]) in
  let ms := [mkF 0 "BEGIN" ""; mkF 1 "INSERT" "public.a"; mkF 2 "UPDATE" "public.""A.b""";
             mkF 3 "TRUNCATE" "public.a, public.b"; mkF 4 "COMMIT" ""] in
  regs_compile c (fun _ => false) /\
  map f_id (forwarded (stage c (fun _ => false) (matrix_fn f4_matrix) ms)) = [0; 1; 4]%N.
Proof. split; [intros _ it _; reflexivity|reflexivity]. Qed.

(* the premises of C08_cli_partial are satisfiable: the binary accepts a single flag *)
Example C08_cli_partial_nonvacuous :
  cli_cfg (flags_of WL ["public.a"]) = Some (true, false, ["public.a"]) /\
  cli_cfg (flags_of BL ["public.a"]) = Some (false, false, ["public.a"]).
Proof. split; reflexivity. Qed.
