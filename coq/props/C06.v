(* C06 — the partition method decides batch composition (batch and batcher level).
   This file holds only statements closed by [exact], their assumptions, and non-vacuity examples.
   Vocabulary (proofs/BatchProofs.v, proofs/BatcherProofs.v):
     fed t / dispatched t   the messages received / the (worker, batch) pairs handed to workers, in order
     rec_of_kind k m        the record a batch of kind k makes from message m
     workers_ok cfg         1 <= c_workers cfg *)
From Bifrost.model Require Import Base Crc32 Batch Batcher.
From Bifrost.proofs Require Import BatchProofs BatcherProofs.

(* BATCH level, any add sequence: every record of a Kinesis batch was made from an offered change m
   (same id, same length) and carries the Kinesis partition key the method prescribes: the decimal
   WAL position (KWalStart) or the message's partition key (KBatch); it is never empty. *)
Theorem C06_kinesis_key : forall L meth pk ms b obs r,
  run_adds L (new_batch (BKinesis meth) pk) ms = (b, obs) -> In r (b_items b) ->
  exists m, In m ms /\ change m = true /\ r_id r = m_id m /\ r_len r = m_jlen m /\
            r_pk r = match meth with KWalStart => dec (m_wal m) | KBatch => m_pkey m end /\
            r_pk r <> "".
Proof. exact kinesis_key. Qed.
Print Assumptions C06_kinesis_key.

(* BATCHER level, EVERY run (any events, any tick oracles, also runs that later stop fatally): the items of
   every dispatched batch are the records of a subsequence ms of the received messages, each of them an
   accepted change whose partition key is the batch's. *)
Theorem C06_homogeneous : forall cfg evs st t,
  workers_ok cfg -> brun cfg binit evs = (st, t) ->
  forall w b, In (w, b) (dispatched t) ->
    exists ms, sublist ms (fed t) /\ b_items b = map (rec_of_kind (c_kind cfg)) ms /\
               forall m, In m ms -> is_marker m = false /\ fate_of cfg m = FAccepted /\ m_pkey m = b_pkey b.
Proof. exact run_items_all. Qed.
Print Assumptions C06_homogeneous.

(* the open batches of a run that did not stop fatally: stored under their own key, of the configured kind *)
Theorem C06_open_homogeneous : forall cfg evs st t,
  workers_ok cfg -> brun cfg binit evs = (st, t) -> dead st = false ->
  forall p ob, In (p, ob) (open st) -> b_pkey (ob_batch ob) = p /\ b_kind (ob_batch ob) = c_kind cfg.
Proof. exact run_open_homogeneous. Qed.
Print Assumptions C06_open_homogeneous.

(* ---- non-vacuity: a run with two partition keys, a full batch, a dropped record and a tick ---- *)
Definition x_cfg := mkBcfg (BKinesis KBatch) (mkLimits 2 100 50) 2 ByPartition 1000 5000 1000.
Definition x_msg (id : N) (op : string) (jlen : N) (key pk : string) := mkMsg id op "t" jlen key "tx" id pk.
Definition x_evs :=
  [BMsg 0 (x_msg 1 "BEGIN" 0 "k1" "a"); BMsg 1 (x_msg 2 "INSERT" 10 "k1" "a"); BMsg 2 (x_msg 3 "INSERT" 60 "k1" "b");
   BMsg 3 (x_msg 4 "INSERT" 10 "k1" "a"); BMsg 4 (x_msg 5 "INSERT" 10 "k1" "a"); BMsg 5 (x_msg 6 "COMMIT" 0 "k1" "a");
   BTick 10000 ["a"; "b"] []].

Example C06_homogeneous_nonvacuous :
  workers_ok x_cfg /\ dead (fst (brun x_cfg binit x_evs)) = false /\
  map (fun wb => (b_pkey (snd wb), ids (snd wb))) (dispatched (snd (brun x_cfg binit x_evs))) =
  [("a", [2; 4]%N); ("a", [5]%N)].
Proof. split; [unfold workers_ok; simpl; lia|]. vm_compute. auto. Qed.
