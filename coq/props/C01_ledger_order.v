(* C01 — no WAL position is acknowledged before its data is in the sink.
   Ledger layer, positive ORDER half under the no-stale-completion contract (E5), for
   histories of any length.  Statements closed by [exact], their assumptions, non-vacuity.

   Vocabulary (definitions in proofs/LedgerOrder.v):
     mention o         the (transaction, delivery key) of a Seen / Written op
     WF h              key_txn_fun /\ no_stale /\ seen_once /\ commit_nonzero /\ pos_counts /\
                       no_over_report          (decided by the boolean  wf_hist h)
     current k h       some op mentions (t,k) and every later op mentioning t mentions it with k
                       (decided by  currentb k h)
     first_pos k h     index of the first op mentioning k
     released_keys h   keys released by the Emit ops of the run of h from the empty ledger *)
From Bifrost.model Require Import Base Ledger.
From Bifrost.proofs Require Import LedgerProofs LedgerOrder.
From Bifrost.props Require Import C01.

(* the boolean checkers used in the Examples decide the declarative predicates *)
Theorem C01_wf_hist_decides_WF : forall h, wf_hist h = true <-> WF h.
Proof. exact wf_hist_ok. Qed.
Print Assumptions C01_wf_hist_decides_WF.

Theorem C01_currentb_decides_current : forall k h, currentb k h = true <-> current k h.
Proof. exact currentb_ok. Qed.
Print Assumptions C01_currentb_decides_current.

(* ORDER: when an emission now would release e (and acknowledge a position at or beyond e's
   commit), every non-superseded delivery the ledger heard of before e's delivery has been
   released earlier or is released with it.  With C01_ledger_released_exact every such delivery
   is complete. *)
Theorem C01_ledger_order_safe : forall h l, WF h -> Reach h l ->
  forall e, In e (rel_prefix (items l)) ->
  forall k, current k h -> first_pos k h < first_pos (e_key e) h ->
  In k (released_keys h) \/ In k (map e_key (rel_prefix (items l))).
Proof. exact ledger_order_safe. Qed.
Print Assumptions C01_ledger_order_safe.

(* the same, stated on the run itself: a WF history never makes the tracker fail
   (C02_ledger_no_error), so no side condition on the results is needed *)
Theorem C01_ledger_order_safe_run : forall h l rs, WF h -> lrun empty_ledger h = (l, rs) ->
  forall e, In e (rel_prefix (items l)) ->
  forall k, current k h -> first_pos k h < first_pos (e_key e) h ->
  In k (released_keys h) \/ In k (map e_key (rel_prefix (items l))).
Proof. exact ledger_order_safe_run. Qed.
Print Assumptions C01_ledger_order_safe_run.

(* EXACT: under WF a released entry has exactly its announced number of changes certified
   (L1 gives <=), and its Seen — same transaction, key, total, commit — is in the history *)
Theorem C01_ledger_released_exact : forall h l e, WF h -> Reach h l -> In e (rel_prefix (items l)) ->
  e_commit e <> 0%N /\ In (OSeen (e_txn e) (e_key e) (e_total e) (e_commit e)) h /\
  e_count e = certified (e_key e) h /\ certified (e_key e) h = e_total e.
Proof. exact ledger_released_exact. Qed.
Print Assumptions C01_ledger_released_exact.

(* history-level form: whatever any earlier emission released was seen and fully written *)
Theorem C01_ledger_released_keys_exact : forall h k, WF h -> In k (released_keys h) ->
  exists t n c, In (OSeen t k n c) h /\ certified k h = n.
Proof. exact ledger_released_keys_exact. Qed.
Print Assumptions C01_ledger_released_keys_exact.

(* ---------- non-vacuity ---------- *)
(* transaction 7 is delivered as 7-1 (one change written), the connection drops, it is
   re-delivered as 7-2 (3 changes, commit 100); transaction 8 (1 change, commit 200) is complete
   first but must wait for 7-2 *)
Definition ex_hist : list lop :=
  [ OWritten "7" "7-1" 1;
    OWritten "7" "7-2" 1;          (* 7-2 supersedes 7-1 *)
    OSeen "7" "7-2" 3 100;
    OSeen "8" "8-1" 1 200;
    OEmit;
    OWritten "8" "8-1" 1;          (* 8-1 complete, 7-2 is not *)
    OEmit;
    OWritten "7" "7-2" 2;          (* 7-2 complete *)
    OEmit;
    OSeen "9" "9-1" 0 300;         (* an empty transaction *)
    OEmit ].

Example C01_order_ex_WF : WF ex_hist.
Proof. apply wf_hist_ok. vm_compute. reflexivity. Qed.

Example C01_order_ex_run :
  snd (lrun empty_ledger ex_hist) =
    [RNone; RNone; RNone; RNone; RNone; RNone; RNone; RNone; REmit 200; RNone; REmit 300] /\
  released_keys ex_hist = ["7-2"; "8-1"; "9-1"] /\
  items (fst (lrun empty_ledger ex_hist)) = [].
Proof. vm_compute. repeat split. Qed.

(* the hypotheses of C01_ledger_order_safe hold non-trivially just before the third Emit:
   e = the entry of 8-1 is about to be released, k = 7-2 is current and older, 7-2 is not yet
   released — and indeed it is released together with 8-1.  7-1 is superseded (not current). *)
Example C01_order_ex_instance :
  let h := firstn 8 ex_hist in
  let l := fst (lrun empty_ledger h) in
  WF h /\ Reach h l /\
  map e_key (rel_prefix (items l)) = ["7-2"; "8-1"] /\
  current "7-2" h /\ ~ current "7-1" h /\ first_pos "7-2" h < first_pos "8-1" h /\
  ~ In "7-2" (released_keys h).
Proof.
  cbv zeta. split; [apply wf_hist_ok; vm_compute; reflexivity|].
  split; [apply (lrun_reach _ _ (snd (lrun empty_ledger (firstn 8 ex_hist))));
          [vm_compute; reflexivity|vm_compute; intuition discriminate]|].
  split; [vm_compute; reflexivity|].
  split; [apply currentb_ok; vm_compute; reflexivity|].
  split; [apply not_current_by_compute; vm_compute; reflexivity|].
  split; [vm_compute; lia|].
  vm_compute. tauto.
Qed.

(* before that, 8-1 is complete but blocked behind the incomplete 7-2: nothing is releasable *)
Example C01_order_ex_blocked :
  let l := fst (lrun empty_ledger (firstn 7 ex_hist)) in
  rel_prefix (items l) = [] /\ map fst (items l) = ["7-2"; "8-1"].
Proof. vm_compute. split; reflexivity. Qed.

(* the F1 history of props/C01.v violates exactly the no_stale part of WF: positions 0 < 1 < 4
   mention transaction 701 with keys 701-1, 701-2, 701-1 *)
Example C01_f1_violates_exactly_no_stale :
  ~ no_stale f1_ops /\
  (mention_at f1_ops 0 = Some ("701", "701-1") /\ mention_at f1_ops 1 = Some ("701", "701-2") /\
   mention_at f1_ops 4 = Some ("701", "701-1")) /\
  key_txn_fun f1_ops /\ seen_once f1_ops /\ commit_nonzero f1_ops /\ pos_counts f1_ops /\
  no_over_report f1_ops.
Proof.
  split.
  - intros H. apply no_staleb_ok in H. vm_compute in H. discriminate.
  - split; [vm_compute; repeat split|].
    split; [apply key_txn_funb_ok; vm_compute; reflexivity|].
    split; [apply seen_onceb_ok; vm_compute; reflexivity|].
    split; [apply commit_nonzerob_ok; vm_compute; reflexivity|].
    split; [apply pos_countsb_ok; vm_compute; reflexivity|].
    apply no_over_reportb_ok; vm_compute; reflexivity.
Qed.
