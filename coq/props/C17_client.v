(* C17 — fail-stop, at the level of the REPLICATION CLIENT: the recovery from a server ErrorResponse fails.
   "If any stage hits an unrecoverable condition ... the shared termination signal is raised ...  From that
    moment on nothing is acknowledged beyond what the sink had accepted, and pg-bifrost never keeps running
    with one stage dead."

   The stage here is replication/client/client.go.  When PostgreSQL sends an ErrorResponse, Start calls
   recoverFromErrorResponse: synthetic COMMIT for the open transaction (if any), Close of the broken
   connection, GetConn for a recovery connection, IDENTIFY_SYSTEM on it, Close.  Two of those steps can
   fail: no connection can be had (GetConn returns an error), or the connection is there and
   IDENTIFY_SYSTEM fails on it.  recoverFromErrorResponse then returns the error and Start returns: its
   deferred shutdown runs (cancel, Close, close the output channels) - observation [CStop], preceded by
   [CClose].  In model/Client.v this is the event [EErrorResponseFail at_identify] of an iteration
   ([at_identify = false]: no recovery connection; [true]: IDENTIFY_SYSTEM failed) and the function
   [recover_fail]; the differential correspondence (harness/comp/client) drives the real Start into both
   failures and compares observation by observation.

   Quantifier: every state / every first message and every list of loop iterations (see C03.v): a run
   is [crun first its], one iteration [cstep s it].  The hypotheses [stopped s = false] (the client is
   running) and [i_pclosed it = false] (the progress channel is not found closed at the loop head - if
   it is, the message is never received: the iteration is (Close, Stop), C18_every_iteration_reads_or_stops)
   say that the ErrorResponse is actually received.

   This file holds only statements closed by [exact], their assumptions, and non-vacuity examples.
   Vocabulary: [head_pre s it] = the observations of an iteration before its receive (connection
   requests and, if the ticker fired or the channel delivered a newer value, one CSend)
   (proofs/ClientProofs2.v); [acks o] = the positions of the status updates (CSend) in [o]
   (proofs/ClientProofs.v); [open_txn s] = a BEGIN was forwarded and neither a COMMIT, nor a dropped
   BEGIN, nor a recovery followed; [hp_val s (i_prog it)] = overallProgress after the loop-head
   handleProgress of this iteration; [failed_recovery_obs s it at_identify] (proofs/ClientFailProofs.v) =
   the observations after the receive:
       [COut "COMMIT" txn key pos]   only if a transaction is open - the same synthetic COMMIT, with the
                                     same position, that a successful recovery forwards (C02_client.v)
       CClose                        the broken connection
       [CGetPlain true]              only if at_identify: the recovery connection was obtained
       CClose; CStop                 Start returned: shutdown. *)
From Bifrost.model Require Import Base Client.
From Bifrost.proofs Require Import ClientProofs ClientProofs2 ClientFailProofs.

(* the failing iteration, exactly: one receive, then the observations above and nothing else; the
   client is stopped, holds no connection, and its positions are those of the loop head *)
Theorem C17_client_failed_recovery_exact : forall s it s' o idf,
  stopped s = false -> i_pclosed it = false -> i_ev it = EErrorResponseFail idf ->
  cstep s it = (s', o) ->
  o = head_pre s it ++ CRecv :: failed_recovery_obs s it idf /\
  stopped s' = true /\ conn_open s' = false /\
  overall s' = hp_val s (i_prog it) /\ highest s' = highest s.
Proof. exact cstep_failed_recovery_exact. Qed.
Print Assumptions C17_client_failed_recovery_exact.

(* the client stops and announces it: the observations of the iteration end with Close, Stop *)
Theorem C17_client_failed_recovery_stops : forall s it s' o idf,
  stopped s = false -> i_pclosed it = false -> i_ev it = EErrorResponseFail idf ->
  cstep s it = (s', o) ->
  stopped s' = true /\ conn_open s' = false /\ exists pre, o = pre ++ [CClose; CStop].
Proof. exact cstep_failed_recovery_stops. Qed.
Print Assumptions C17_client_failed_recovery_stops.

(* run level: the failing iteration k (= after [its1]) is the last one that does anything.  Whatever
   the later iterations [its2] are fed, they observe nothing - no receive, no status update, no
   forwarded message -, every single later iteration returns the same stopped state and [], and the
   observations of the whole run are those of the prefix followed by those of the failing iteration *)
Theorem C17_client_failed_recovery_is_last : forall first its1 it its2 s' o idf,
  stopped (fst (crun first its1)) = false -> i_pclosed it = false -> i_ev it = EErrorResponseFail idf ->
  cstep (fst (crun first its1)) it = (s', o) ->
  citers s' its2 = (s', []) /\
  (forall its it', cstep (fst (citers s' its)) it' = (s', [])) /\
  crun first (its1 ++ it :: its2) = (s', snd (crun first its1) ++ o).
Proof. exact crun_failed_recovery_is_last. Qed.
Print Assumptions C17_client_failed_recovery_is_last.

(* nothing is acknowledged to PostgreSQL while failing: after the receive of the failing iteration
   there is no status update (and no connection request carrying a start position); the status
   updates of the iteration are those sent before the receive, which carry the position held when the
   iteration began or a value delivered on the progress channel at its loop head (C03) *)
Theorem C17_client_failed_recovery_sends_nothing : forall s it s' o idf,
  stopped s = false -> i_pclosed it = false -> i_ev it = EErrorResponseFail idf ->
  cstep s it = (s', o) ->
  exists pre post, o = pre ++ CRecv :: post /\ ~ In CRecv pre /\ ~ In CRecv post /\
    acks post = [] /\ (forall l, ~ In (CSend l) post) /\ (forall l f, ~ In (CGetStart l f) post) /\
    acks o = acks pre /\
    (forall a, In a (acks o) -> a = overall s \/ In a (i_prog it)).
Proof. exact cstep_failed_recovery_sends_nothing. Qed.
Print Assumptions C17_client_failed_recovery_sends_nothing.

(* what the failing iteration forwards downstream: the synthetic COMMIT of the open transaction, if
   there is one, and nothing else - the transaction announced downstream is closed out before the
   client stops, so the ledger can drain it (C02) *)
Theorem C17_client_failed_recovery_forwards_synthetic_commit : forall s it idf,
  stopped s = false -> i_pclosed it = false -> i_ev it = EErrorResponseFail idf ->
  couts (snd (cstep s it)) =
  if open_txn s
  then [COut "COMMIT" (ctxn s) (ckey s) (if (highest s =? 0)%N then hp_val s (i_prog it) else highest s)]
  else [].
Proof. exact cstep_failed_recovery_couts. Qed.
Print Assumptions C17_client_failed_recovery_forwards_synthetic_commit.

(* ---------------- non-vacuity ---------------- *)
Definition c17c_first : cev := EKeepalive 100 false false.
Definition c17c_it (e : cev) : citer := mkIter false [] false e [] false [] false.

(* a BEGIN is forwarded, then the server sends an ErrorResponse and IDENTIFY_SYSTEM fails on the
   recovery connection: synthetic COMMIT (at the acknowledged position 100: no COMMIT was received
   yet), Close, GetConn, Close, Stop; the COMMIT that arrives afterwards is never read *)
Example C17_client_failed_recovery_at_identify :
  let its1 := [c17c_it (EXLog 200 (XBegin "7"))] in
  let fail := c17c_it (EErrorResponseFail true) in
  let later := [c17c_it (EXLog 300 (XCommit "7")); c17c_it ETimeout] in
  stopped (fst (crun c17c_first its1)) = false /\ open_txn (fst (crun c17c_first its1)) = true /\
  snd (crun c17c_first (its1 ++ fail :: later)) =
    [CGetStart 0 true; CRecv;
     CGetStart 0 false; CRecv; COut "BEGIN" "7" "7-0" 200;
     CGetStart 0 false; CRecv; COut "COMMIT" "7" "7-0" 100; CClose; CGetPlain true; CClose; CStop] /\
  stopped (fst (crun c17c_first (its1 ++ fail :: later))) = true /\
  acks (snd (crun c17c_first (its1 ++ fail :: later))) = [].
Proof. vm_compute. repeat split. Qed.

(* no recovery connection can be had: the same without the GetConn *)
Example C17_client_failed_recovery_no_connection :
  snd (crun c17c_first [c17c_it (EXLog 200 (XBegin "7")); c17c_it (EErrorResponseFail false)]) =
    [CGetStart 0 true; CRecv;
     CGetStart 0 false; CRecv; COut "BEGIN" "7" "7-0" 200;
     CGetStart 0 false; CRecv; COut "COMMIT" "7" "7-0" 100; CClose; CClose; CStop].
Proof. vm_compute. reflexivity. Qed.

(* no transaction open (the COMMIT was received): no synthetic COMMIT; the status update of the
   ticker, sent BEFORE the receive, is the only one of the iteration *)
Example C17_client_failed_recovery_no_open_txn :
  let its1 := [c17c_it (EXLog 200 (XBegin "7")); c17c_it (EXLog 300 (XCommit "7"))] in
  let fail := mkIter true [250]%N false (EErrorResponseFail true) [270]%N false [] false in
  open_txn (fst (crun c17c_first its1)) = false /\
  snd (cstep (fst (crun c17c_first its1)) fail) =
    [CGetStart 300 false; CSend 250; CGetStart 300 false; CRecv; CClose; CGetPlain true; CClose; CStop] /\
  failed_recovery_obs (fst (crun c17c_first its1)) fail true = [CClose; CGetPlain true; CClose; CStop].
Proof. vm_compute. repeat split. Qed.

(* contrast: the same ErrorResponse with a recovery that succeeds - the client keeps running *)
Example C17_client_successful_recovery_keeps_running :
  let its := [c17c_it (EXLog 200 (XBegin "7")); c17c_it (EErrorResponse 900)] in
  stopped (fst (crun c17c_first its)) = false /\
  snd (cstep (fst (crun c17c_first [c17c_it (EXLog 200 (XBegin "7"))])) (c17c_it (EErrorResponse 900))) =
    [CGetStart 0 false; CRecv; COut "COMMIT" "7" "7-0" 100; CClose; CGetPlain true; CIdentify; CClose].
Proof. vm_compute. repeat split. Qed.
