(* C04 — every change handed to the batcher reaches a worker exactly once, or is dropped and counted
   (batch and batcher level).
   This file holds only statements closed by [exact], their assumptions, refutation witnesses and
   non-vacuity examples.
   Vocabulary (proofs/BatchProofs.v, proofs/BatcherProofs.v):
     fed t / dispatched t / empties t   messages received / (worker, batch) pairs sent / the transactions
                                        maps of flushed EMPTY batches (OEmptyWritten), all in order
     change m = negb (is_marker m);  accepted / is_big / is_invalid cfg m  = the three values of fate_of cfg m
     ids b = map r_id (b_items b);   open_ids st = the ids in all open batches
     txcount k t                     the count a transactions map attributes to delivery key k
     outcomes ms obs                 the (message, result) pairs of an add sequence
     workers_ok cfg = 1 <= c_workers cfg;  cfg_ok / fits: see C15.v *)
From Bifrost.model Require Import Base Crc32 Batch Batcher.
From Bifrost.proofs Require Import BatchProofs BatcherProofs.
From Coq Require Import Permutation.

(* BATCH level, any add sequence on a fresh batch of any kind: the transactions map counts, per
   delivery key, exactly the changes whose Add returned OK or TOO BIG; the items are exactly the
   records of the OK changes in order. *)
Theorem C04_batch_counts : forall L k pk ms b obs,
  run_adds L (new_batch k pk) ms = (b, obs) ->
  (forall key, txcount key (b_txns b) = counted_for key (outcomes ms obs)) /\
  b_items b = map (rec_of_kind k) (accepted_of (outcomes ms obs)) /\
  sublist (ids b) (map m_id ms).
Proof. exact batch_counts. Qed.
Print Assumptions C04_batch_counts.

(* BATCHER level, every run that did not stop fatally (any events, any oracles; ids need not even be
   distinct): the ids of the accepted changes are, as a multiset, the ids dispatched plus the ids
   still open — nothing lost, duplicated or invented — and the drop statistics count the rest. *)
Theorem C04_conservation : forall cfg evs st t,
  workers_ok cfg -> brun cfg binit evs = (st, t) -> dead st = false ->
  Permutation (map m_id (filter (fun m => change m && accepted cfg m) (fed t)))
              (flat_map (fun wb => ids (snd wb)) (dispatched t) ++ open_ids st) /\
  drops_big st = N.of_nat (List.length (filter (fun m => change m && is_big cfg m) (fed t))) /\
  drops_invalid st = N.of_nat (List.length (filter (fun m => change m && is_invalid cfg m) (fed t))).
Proof. exact run_conservation_full. Qed.
Print Assumptions C04_conservation.

(* on the stated domain "did not stop fatally" is a consequence, and everything offered is received *)
Theorem C04_conservation_domain : forall cfg evs st t,
  cfg_ok cfg = true -> forallb (fits cfg) (msgs_of evs) = true -> brun cfg binit evs = (st, t) ->
  dead st = false /\ fed t = msgs_of evs /\
  Permutation (map m_id (filter (fun m => change m && accepted cfg m) (fed t)))
              (flat_map (fun wb => ids (snd wb)) (dispatched t) ++ open_ids st) /\
  drops_big st = N.of_nat (List.length (filter (fun m => change m && is_big cfg m) (fed t))) /\
  drops_invalid st = N.of_nat (List.length (filter (fun m => change m && is_invalid cfg m) (fed t))).
Proof. exact run_conservation_domain. Qed.
Print Assumptions C04_conservation_domain.

(* the Seen records: all OSeenList outputs concatenated, plus what is still pending, are one Seen per
   received COMMIT, in COMMIT order, and under transaction framing ([framed], defined in
   BatcherProofs.v: BEGIN k opens a block with a fresh delivery key, its changes and its optional
   COMMIT carry k) each carries the number of CHANGES with its delivery key received before it
   ([seens_spec]).  This is the total the ledger waits for (C02). *)
Theorem C04_totals : forall cfg evs st t,
  workers_ok cfg -> brun cfg binit evs = (st, t) -> dead st = false -> framed (fed t) = true ->
  seen_outs t ++ seenl st = seens_spec [] (fed t).
Proof. exact run_totals. Qed.
Print Assumptions C04_totals.

(* reading of [seens_spec] *)
Theorem C04_totals_reading : forall ms pre s, In s (seens_spec pre ms) ->
  exists ms1 c ms2, ms = ms1 ++ c :: ms2 /\ is_commit c = true /\
                    s = mkSeen (m_txn c) (m_key c) (nchanges (m_key c) (pre ++ ms1)) (m_wal c).
Proof. exact seens_spec_in. Qed.
Print Assumptions C04_totals_reading.

(* what the workers and the empty-batch path can ever report as written for delivery key k, plus what
   is still open, is the number of received changes of k that were not dropped as INVALID *)
Theorem C04_written_counts : forall cfg evs st t k,
  workers_ok cfg -> brun cfg binit evs = (st, t) -> dead st = false ->
  (zsum (fun wb => txcount k (b_txns (snd wb))) (dispatched t) + zsum (txcount k) (empties t) + open_txcount k st)%Z =
  Z.of_nat (List.length (filter (fun m => change m && (String.eqb (m_key m) k && negb (is_invalid cfg m))) (fed t))).
Proof. exact run_written_counts. Qed.
Print Assumptions C04_written_counts.

(* The full statement "written counts = announced totals" is FALSE of the model (and of the code):
   a change dropped as ERR_MSG_INVALID (empty Kinesis partition key) is counted in the Seen total
   (totalMsgsInTxn += 1 after BATCH_ADD_FAIL) but in no batch's transactions map.  Witness: one such
   change; the Seen announces 1, everything is flushed, and the only written report is empty. *)
Definition y_msg (id : N) (op : string) (jlen : N) (key pk : string) := mkMsg id op "t" jlen key "tx" id pk.
Definition y_cfg := mkBcfg (BKinesis KBatch) (mkLimits 500 5242880 1048576) 1 RoundRobin 1000 5000 1000.
Definition y_evs := [BMsg 0 (y_msg 1 "BEGIN" 0 "k1" ""); BMsg 1 (y_msg 2 "INSERT" 10 "k1" "");
                     BMsg 2 (y_msg 3 "COMMIT" 0 "k1" ""); BTick 10000 [""] []].

Theorem C04_invalid_change_never_written_refuted :
  let '(st, t) := brun y_cfg binit y_evs in
  cfg_ok y_cfg = true /\ forallb (fits y_cfg) (msgs_of y_evs) = true /\ framed (fed t) = true /\
  dead st = false /\ open st = [] /\
  seen_outs t = [mkSeen "tx" "k1" 1 3] /\
  (zsum (fun wb => txcount "k1" (b_txns (snd wb))) (dispatched t) + zsum (txcount "k1") (empties t))%Z = 0%Z.
Proof. vm_compute. repeat split; reflexivity. Qed.
Print Assumptions C04_invalid_change_never_written_refuted.

(* ---- non-vacuity: two partition keys, a full batch, a record dropped as too big, COMMIT, tick ---- *)
Definition x_cfg := mkBcfg (BKinesis KBatch) (mkLimits 2 100 50) 2 ByPartition 1000 5000 1000.
Definition x_evs :=
  [BMsg 0 (y_msg 1 "BEGIN" 0 "k1" "a"); BMsg 1 (y_msg 2 "INSERT" 10 "k1" "a"); BMsg 2 (y_msg 3 "INSERT" 60 "k1" "b");
   BMsg 3 (y_msg 4 "INSERT" 10 "k1" "a"); BMsg 4 (y_msg 5 "INSERT" 10 "k1" "a"); BMsg 5 (y_msg 6 "COMMIT" 0 "k1" "a");
   BTick 10000 ["a"; "b"] []].

Example C04_nonvacuous :
  let '(st, t) := brun x_cfg binit x_evs in
  cfg_ok x_cfg = true /\ forallb (fits x_cfg) (msgs_of x_evs) = true /\ framed (fed t) = true /\
  dead st = false /\
  flat_map (fun wb => ids (snd wb)) (dispatched t) = [2; 4; 5]%N /\ drops_big st = 1%N /\
  seen_outs t = [mkSeen "tx" "k1" 4 6] /\
  (zsum (fun wb => txcount "k1" (b_txns (snd wb))) (dispatched t) + zsum (txcount "k1") (empties t))%Z = 4%Z.
Proof. vm_compute. repeat split; reflexivity. Qed.

Example C04_batch_counts_nonvacuous :
  let '(b, obs) := run_adds (mkLimits 2 100 50) (new_batch (BKinesis KBatch) "a")
                     [y_msg 2 "INSERT" 10 "k1" "a"; y_msg 3 "INSERT" 60 "k1" "a"; y_msg 4 "INSERT" 10 "k2" "a"] in
  map res_of obs = [AOk; ATooBig; AOk] /\ ids b = [2; 4]%N /\
  txcount "k1" (b_txns b) = 2%Z /\ txcount "k2" (b_txns b) = 1%Z.
Proof. vm_compute. repeat split; reflexivity. Qed.
