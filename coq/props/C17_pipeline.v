(* C17 — fail-stop, the part that lives in the composition of batcher, workers, sink and ledger
   (model/Pipeline.v): nothing is acknowledged beyond what the sink accepted, in every reachable state,
   including every state reached after a fault.  A fault of a component = after some prefix ls1 that
   component takes no more labels (a worker whose sink is exhausted takes no LAccept, a stopped batcher
   no LFeed/LTick, a panicked tracker no LRead/LEmit); the other components may go on with any ls2.
   Statements closed by [exact], their assumptions, non-vacuity.  Vocabulary: props/C01_pipeline.v. *)
From Bifrost.model Require Import Base Crc32 Batch Batcher Ledger.
From Bifrost.proofs Require Import BatchProofs BatcherProofs LedgerProofs LedgerOrder.
From Bifrost.model Require Import Pipeline.
From Bifrost.proofs Require Import PipelineProofs.

(* C01's invariant at EVERY prefix ls1 of EVERY execution ls1 ++ ls2, whatever happens afterwards: each
   position acknowledged so far belongs to a delivery all of whose changes — including any that would only
   be handed over later: there are none — are in the sink already at ls1, or were dropped as too big and
   counted.  No hypothesis on which components are still alive. *)
Theorem C17_pipeline_no_ack_beyond_sink : forall cfg ls1 ls2, workers_ok cfg ->
  NoDup (map m_id (fed_of (ls1 ++ ls2))) -> framed (fed_of (ls1 ++ ls2)) = true ->
  forall F, In F (p_acked (prun cfg ls1)) ->
  exists t k n, In (OSeen t k n F) (p_lops (prun cfg ls1)) /\
    certified k (p_lops (prun cfg ls1)) = n /\ n = nchanges k (fed_of (ls1 ++ ls2)) /\
    (forall m, In m (fed_of (ls1 ++ ls2)) -> is_marker m = false -> m_key m = k -> fate_of cfg m = FAccepted ->
               In (m_id m) (map r_id (p_accepted (prun cfg ls1)))) /\
    (forall m, In m (fed_of (ls1 ++ ls2)) -> is_marker m = false -> m_key m = k -> fate_of cfg m <> FDroppedInvalid).
Proof. exact pipeline_released_complete_prefix. Qed.
Print Assumptions C17_pipeline_no_ack_beyond_sink.

(* once updateSeen has returned an error (the tracker panicked) no label changes anything: in
   particular nothing more is ever acknowledged *)
Theorem C17_pipeline_failed_tracker_stops : forall cfg ls1 ls2,
  p_failed (prun cfg ls1) = true -> prun cfg (ls1 ++ ls2) = prun cfg ls1.
Proof. exact pipeline_failed_tracker_stops. Qed.
Print Assumptions C17_pipeline_failed_tracker_stops.

(* a tracker that has stopped ticking acknowledges nothing, whatever batcher, workers and the written
   channel do: only LEmit extends p_acked *)
Theorem C17_pipeline_ack_only_by_emit : forall cfg ls2, (forall l, In l ls2 -> l <> LEmit) ->
  forall st, p_acked (fold_left (pstep cfg) ls2 st) = p_acked st.
Proof. exact pipeline_ack_only_by_emit. Qed.
Print Assumptions C17_pipeline_ack_only_by_emit.

(* ---------- non-vacuity ---------- *)
(* a run in which the tracker does fail (the shape of finding F3: a second COMMIT for a delivery that
   already has one): the second Seen makes updateSeen return an error at the second tick; from then on
   the state is frozen although the change is in the sink and its report is waiting *)
Definition fail_ls : list plabel :=
  [ LFeed 0 (f1_mk 1 "BEGIN" "k1" "7" 10); LFeed 0 (f1_mk 2 "INSERT" "k1" "7" 11);
    LFeed 0 (f1_mk 3 "COMMIT" "k1" "7" 100);
    LTick 100000 [""] []; LAccept 0; LRead;
    LFeed 0 (f1_mk 4 "COMMIT" "k1" "7" 100);
    LTick 200000 [""] [] ].

Example C17_pipeline_failed_nonvacuous :
  p_failed (prun f1_cfg (firstn 7 fail_ls)) = false /\ p_failed (prun f1_cfg fail_ls) = true /\
  p_lops (prun f1_cfg fail_ls) = [OSeen "7" "k1" 1 100; OSeen "7" "k1" 1 100] /\
  map r_id (p_accepted (prun f1_cfg fail_ls)) = [2%N] /\
  p_acked (prun f1_cfg (fail_ls ++ [LRead; LRead; LEmit; LEmit])) = [].
Proof. vm_compute. repeat split; reflexivity. Qed.

(* the hypotheses of C17_pipeline_no_ack_beyond_sink hold non-trivially at a real crash point: after 20
   labels of nv_ls (props/C01_pipeline.v) 200 has been acknowledged; whatever follows, the deliveries
   k72 and k81 are complete in the sink at that point *)
Example C17_pipeline_no_ack_beyond_sink_nonvacuous :
  let ls1 := firstn 20 nv_ls in let ls2 := skipn 20 nv_ls in
  workers_ok f1_cfg /\ NoDup (map m_id (fed_of (ls1 ++ ls2))) /\ framed (fed_of (ls1 ++ ls2)) = true /\
  p_acked (prun f1_cfg ls1) = [200%N] /\ map r_id (p_accepted (prun f1_cfg ls1)) = [2; 4; 8; 5]%N /\
  List.length ls2 = 3.
Proof.
  cbv zeta. split; [unfold workers_ok; vm_compute; discriminate|].
  split; [vm_compute; repeat constructor; simpl; intuition discriminate|].
  vm_compute. repeat split; reflexivity.
Qed.
