(* C17 — fail-stop, at the level of ONE transport worker, in every transport flavour.
   "If any stage hits an unrecoverable condition - a sink that keeps failing past its retry budget,
    ... or a panic inside a stage - the shared termination signal is raised ...  From that moment on
    nothing is acknowledged beyond what the sink had accepted, and pg-bifrost never keeps running
    with one stage dead ... in every transport flavour."

   This file holds only statements closed by [exact], their assumptions, and non-vacuity examples.
   The worker models are the four executable models that the differential correspondence ties to
   the real StartTransporting of each flavour (model/KinesisRetry.v, model/S3.v, model/Rabbit.v,
   model/Kafka.v).  Every model yields ONE ENTRY PER BATCH THE WORKER TOOK — Kinesis [breport]
   (sink calls + written?), S3 [bres] (attempts + outcome), Kafka [tobs] (payload handed to the
   producer? transactions put on txnsWritten?), RabbitMQ the events of the trace, each tagged with
   the batch the worker was busy with — and an END OUTCOME.

   THE UNIFORM SHAPE, proved of each model for every batch sequence, every fault script and every
   retry budget (no bound anywhere):

     a batch that the worker took and did not report written is the LAST batch it ever takes
       (last)   its entry is the last entry: no later batch is attempted, sent to the sink or
                reported written (sink calls and written reports exist only inside entries);
       (prefix) every earlier entry is a written report;
       (stop)   the run ends in the model's "returned / panicked" outcome — the outcome in which the
                real worker has run its deferred shutdown(), whose first action after logging is
                shutdownHandler.CancelFunc(), i.e. the shared context is cancelled (props/C17_wiring.v
                reads the defer and the CancelFunc call from the source text) — unless the model has
                an explicit "blocked for ever" outcome, which is then NAMED in the statement:
                Kinesis  TRunning with RPending (no answer from PutRecords),
                RabbitMQ FBlocked (waitForConfirmations waits for a confirmation that never comes).

   The four models reuse names (run, outcome, attempt, msg, bres, b_script, CNone, SOk, mkStep ...):
   everything model-specific is written with its module prefix. *)
From Bifrost.model Require Import Base KinesisRetry S3 Rabbit Kafka.
From Bifrost.proofs Require Import WorkerFailStop.

(* ---------------------------------------------------------------------------------------- *)
(* Kinesis                                                                                    *)
(* ---------------------------------------------------------------------------------------- *)

(* [reps]: one report per batch taken from inputChan (past both selects), with every PutRecords call
   made for it.  An unwritten report (retries exhausted, permanent error, panic in the operation,
   cancellation seen by Retry, or no answer from the sink) is the last report, all reports before it
   are written reports, report i is the run of transportWithRetry on batch i, and the transporter
   ended TStopped (returned: deferred shutdown() cancelled TerminateCtx and closed txnsWritten) or
   TPanicked (the same after recover()).  The only other end is the model's blocked outcome:
   TRunning, and then the retry run of this very batch is RPending — the worker sits inside
   PutRecords, which has not answered. *)
Theorem C17_kinesis_worker_fail_stop : forall n ctx bs reps e i rep,
  KinesisRetry.transporter n ctx bs = (reps, e) ->
  nth_error reps i = Some rep -> KinesisRetry.r_written rep = false ->
  List.length reps = S i /\
  (forall j rj, j < i -> nth_error reps j = Some rj -> KinesisRetry.r_written rj = true) /\
  exists b res cx, nth_error bs i = Some b /\
    KinesisRetry.transport_with_retry n (KinesisRetry.b_pre b) (KinesisRetry.b_recs b) (KinesisRetry.b_script b)
      = (KinesisRetry.r_calls rep, res, cx) /\
    res <> KinesisRetry.RWritten /\
    (e = KinesisRetry.TStopped \/ e = KinesisRetry.TPanicked \/
     (e = KinesisRetry.TRunning /\ res = KinesisRetry.RPending)).
Proof. exact kinesis_worker_fail_stop. Qed.
Print Assumptions C17_kinesis_worker_fail_stop.

(* three batches, budget 1 (two calls): the second batch fails twice; it is the last report, the
   first is written, the third is never taken, the transporter has stopped *)
Example C17_kinesis_nonvacuous :
  let ok ids := KinesisRetry.mkStep (KinesisRetry.Resp 0 (map (fun _ => false) ids)) false in
  let bs := [KinesisRetry.mkBatch [1; 2]%N false [ok [1; 2]%N];
             KinesisRetry.mkBatch [3]%N false
               [KinesisRetry.mkStep (KinesisRetry.WholeErr false) false;
                KinesisRetry.mkStep (KinesisRetry.Resp 1 [true]) false];
             KinesisRetry.mkBatch [4]%N false [ok [4]%N]] in
  KinesisRetry.transporter 1 false bs =
    ([KinesisRetry.mkRep [([1; 2]%N, KinesisRetry.Resp 0 [false; false])] true;
      KinesisRetry.mkRep [([3]%N, KinesisRetry.WholeErr false); ([3]%N, KinesisRetry.Resp 1 [true])] false],
     KinesisRetry.TStopped).
Proof. reflexivity. Qed.

(* the named blocked outcome is reachable: the sink does not answer the second batch *)
Example C17_kinesis_blocked_outcome :
  KinesisRetry.transporter 1 false
    [KinesisRetry.mkBatch [1]%N false [KinesisRetry.mkStep (KinesisRetry.Resp 0 [false]) false];
     KinesisRetry.mkBatch [2]%N false [];
     KinesisRetry.mkBatch [3]%N false [KinesisRetry.mkStep (KinesisRetry.Resp 0 [false]) false]] =
    ([KinesisRetry.mkRep [([1]%N, KinesisRetry.Resp 0 [false])] true; KinesisRetry.mkRep [] false],
     KinesisRetry.TRunning) /\
  KinesisRetry.transport_with_retry 1 false [2]%N [] = ([], KinesisRetry.RPending, false).
Proof. split; reflexivity. Qed.

(* ---------------------------------------------------------------------------------------- *)
(* S3                                                                                         *)
(* ---------------------------------------------------------------------------------------- *)

(* [S3.run gzip ks max_reuse retries w bs]: one result per batch that entered transportWithRetry,
   for any compressor, worker state, reuse limit, key space and budget.  The model has no separate
   end outcome and no blocked outcome (an exhausted sink script succeeds): the END OF THE LIST is
   the end of StartTransporting.  A result that is not Written, or whose batch saw a cancellation
   of terminateCtx at any point, is the last result, and all results before it are Written.
   What the real worker does at each unwritten outcome (transporter.go):
     RetriesExhausted     backoff.Retry returned the error after maxRetries+1 failed PutObject calls:
                          `t.log.Error("max retries exceeded"); return` -> deferred shutdown() ->
                          CancelFunc();
     PanicEmptyBatch      messagesSlice[0] on an empty slice panics before any upload; the panic
                          unwinds to the deferred shutdown(), which calls CancelFunc() and then
                          recovers;
     UploadedNotReported  only when terminateCtx was ALREADY cancelled at transportWithRetry's own
                          check (the signal is up): the object is uploaded all the same, nothing is
                          put on txnsWritten, `continue`, and the next pass of the loop returns at one
                          of its two selects on TerminateCtx.Done() -> deferred shutdown().
   A Written batch with a cancellation during the upload is reported (the sink accepted it) and is
   the last one as well. *)
Theorem C17_s3_worker_fail_stop : forall (gzip : string -> string) ks max_reuse retries w bs i res,
  nth_error (S3.run gzip ks max_reuse retries w bs) i = Some res ->
  exists b, nth_error bs i = Some b /\
    (S3.r_outcome res <> S3.Written \/ S3.b_cancel b <> S3.CNone ->
       List.length (S3.run gzip ks max_reuse retries w bs) = S i) /\
    (forall j rj, j < i -> nth_error (S3.run gzip ks max_reuse retries w bs) j = Some rj ->
       S3.r_outcome rj = S3.Written) /\
    (S3.r_outcome res = S3.UploadedNotReported -> S3.b_cancel b = S3.CBeforeCheck) /\
    (S3.r_outcome res = S3.PanicEmptyBatch -> S3.b_msgs b = [] /\ S3.r_atts res = []) /\
    (S3.r_outcome res = S3.RetriesExhausted ->
       List.length (S3.r_atts res) = S (N.to_nat retries) /\
       forall a, In a (S3.r_atts res) -> S3.a_ok a = false).
Proof. exact s3_worker_fail_stop. Qed.
Print Assumptions C17_s3_worker_fail_stop.

(* three batches, budget 1: the second batch's PutObject fails twice (reading 3, then 0 bytes);
   two results, Written then RetriesExhausted with two failed attempts; the third batch is never
   touched.  (identity "compressor": the theorem holds for every gzip) *)
Example C17_s3_nonvacuous :
  let t := S3.mkT "2026" "10" "01" "09" "20261001093000" in
  let b ms sc := S3.mkB ms t S3.CNone sc in
  let bs := [b [S3.mkMsg "{""a"":1}" 100%N] [];
             b [S3.mkMsg "{""a"":2}" 200%N] [S3.SFail 3; S3.SFail 0];
             b [S3.mkMsg "{""a"":3}" 300%N] []] in
  let out := S3.run (fun x => x) "ks" 5 1 S3.init_worker bs in
  map S3.r_outcome out = [S3.Written; S3.RetriesExhausted] /\
  map (fun r => map S3.a_ok (S3.r_atts r)) out = [[true]; [false; false]].
Proof. vm_compute. split; reflexivity. Qed.

(* the other two unwritten outcomes, each followed by a batch that is never touched *)
Example C17_s3_nonvacuous_panic_and_cancel :
  let t := S3.mkT "2026" "10" "01" "09" "20261001093000" in
  let good := S3.mkB [S3.mkMsg "{}" 1%N] t S3.CNone [] in
  map S3.r_outcome (S3.run (fun x => x) "ks" 5 1 S3.init_worker [good; S3.mkB [] t S3.CNone []; good])
    = [S3.Written; S3.PanicEmptyBatch] /\
  map S3.r_outcome (S3.run (fun x => x) "ks" 5 1 S3.init_worker
                      [good; S3.mkB [S3.mkMsg "{}" 2%N] t S3.CBeforeCheck []; good])
    = [S3.Written; S3.UploadedNotReported].
Proof. vm_compute. split; reflexivity. Qed.

(* ---------------------------------------------------------------------------------------- *)
(* RabbitMQ                                                                                   *)
(* ---------------------------------------------------------------------------------------- *)

(* [Rabbit.trace retries sizes ps ss]: the chronological events of StartTransporting over batches
   of the given sizes, for any publish script, setup script and budget; [rabbit_ev_batch e] is the
   batch the worker was busy with when it emitted e (publish, publish error, confirmation read,
   failed attempt, written report, give-up; a setupChannel carries none).  By end outcome:
     FDone        every batch has its written report, nothing else was touched;
     FTerminated  backoff.Retry gave up on batch k (`max retries exceeded`, return -> deferred
                  shutdown() -> CancelFunc()): exactly the batches before k have a written report,
                  no event belongs to a batch after k, and EGiveUp k is the last event of the run;
     FPanic       the slice-bounds panic of `messagesSlice[len-remaining:]` inside the operation
                  (unwinds to the deferred shutdown(), CancelFunc() then recover()): the same facts;
     FBlocked     NAMED SEPARATELY: the model's "waits for ever" outcome — waitForConfirmations
                  waits with an empty publishNotify and an open channel, and only a cancellation
                  raised by another stage ends the wait; this worker raises nothing.  It belongs to
                  the confirmation accounting (territory of known finding F8).  The no-hole facts
                  hold there too: nothing after batch k is touched or reported. *)
Theorem C17_rabbit_worker_fail_stop : forall retries sizes ps ss,
  let t := Rabbit.trace retries sizes ps ss in
  let f := snd (Rabbit.run retries sizes ps ss) in
  let written b := exists cf q, In (Rabbit.EWritten b cf q) t in
  let stops_at k :=
    k < List.length sizes /\
    (forall b, written b <-> b < k) /\
    (forall e b, In e t -> rabbit_ev_batch e = Some b -> b <= k) in
  (f = Rabbit.FDone ->
     (forall b, written b <-> b < List.length sizes) /\
     (forall e b, In e t -> rabbit_ev_batch e = Some b -> b < List.length sizes)) /\
  (f = Rabbit.FTerminated -> exists k, stops_at k /\ exists t0, t = t0 ++ [Rabbit.EGiveUp k]) /\
  (f = Rabbit.FPanic -> exists k, stops_at k) /\
  (f = Rabbit.FBlocked -> exists k, stops_at k).
Proof. exact rabbit_worker_fail_stop. Qed.
Print Assumptions C17_rabbit_worker_fail_stop.

(* the same in the per-batch shape of the other flavours: a batch the worker touched and did not
   report written is the last batch any event belongs to, every earlier batch has its written
   report, and the run ended FTerminated or FPanic (shutdown() ran) or in the named FBlocked *)
Theorem C17_rabbit_worker_last_batch : forall retries sizes ps ss k e,
  let t := Rabbit.trace retries sizes ps ss in
  let f := snd (Rabbit.run retries sizes ps ss) in
  In e t -> rabbit_ev_batch e = Some k ->
  (forall cf q, ~ In (Rabbit.EWritten k cf q) t) ->
  (forall e' b, In e' t -> rabbit_ev_batch e' = Some b -> b <= k) /\
  (forall b, b < k -> exists cf q, In (Rabbit.EWritten b cf q) t) /\
  (f = Rabbit.FTerminated \/ f = Rabbit.FPanic \/ f = Rabbit.FBlocked).
Proof. exact rabbit_worker_last_batch. Qed.
Print Assumptions C17_rabbit_worker_last_batch.

(* three one-message batches, no retry: the first is acked and written, the second is nacked: one
   failed attempt, give-up, terminated; no event of batch 2 *)
Example C17_rabbit_nonvacuous :
  snd (Rabbit.run 0 [1; 1; 1] [Rabbit.PConf true false; Rabbit.PConf false false] []) = Rabbit.FTerminated /\
  Rabbit.trace 0 [1; 1; 1] [Rabbit.PConf true false; Rabbit.PConf false false] [] =
    [Rabbit.ESetup Rabbit.SOk 1;
     Rabbit.EPub 1 1 0 0 0 (Some true);
     Rabbit.ECons (Rabbit.mkConf 1 true false 1 0 0 0) 0;
     Rabbit.EWritten 0 1 0;
     Rabbit.EPub 1 2 1 0 0 (Some false);
     Rabbit.ECons (Rabbit.mkConf 2 false false 1 1 0 0) 1;
     Rabbit.EAttemptFail 1 0 1 0;
     Rabbit.EGiveUp 1].
Proof. vm_compute. repeat split; reflexivity. Qed.

(* ---------------------------------------------------------------------------------------- *)
(* Kafka                                                                                      *)
(* ---------------------------------------------------------------------------------------- *)

(* [Kafka.r_obs (Kafka.transport sc)]: one observation per batch the worker got to look at (what
   SendMessages received, what went onto txnsWritten), for any script of batches, cancellation
   points and producer results.  An observation without a written report (ProducerErrors for any
   subset, a foreign error whose type assertion panics, a batch of the wrong type, shutdown
   requested first) is the last one, all earlier ones carry a written report, observation i is
   the iteration on script entry i, and StartTransporting has returned with the deferred
   shutdown() done: producer closed exactly once, CancelFunc() called (r_terminated), txnsWritten
   closed.  The model has no blocked outcome. *)
Theorem C17_kafka_worker_fail_stop : forall sc i o,
  let r := Kafka.transport sc in
  nth_error (Kafka.r_obs r) i = Some o -> Kafka.o_written o = None ->
  List.length (Kafka.r_obs r) = S i /\
  (forall j oj, j < i -> nth_error (Kafka.r_obs r) j = Some oj -> Kafka.o_written oj <> None) /\
  (exists s, nth_error sc i = Some s /\ o = fst (fst (Kafka.iterate s))) /\
  Kafka.r_stopped r = true /\ Kafka.r_terminated r = true /\
  Kafka.r_closes r = 1%N /\ Kafka.r_chan_closed r = true.
Proof. exact kafka_worker_fail_stop. Qed.
Print Assumptions C17_kafka_worker_fail_stop.

(* three batches of two messages; the producer rejects message 1 of the second batch: two
   observations, the first with a written report, the second sent but not written; stopped,
   terminated, producer closed once, txnsWritten closed; the third batch is never looked at *)
Example C17_kafka_nonvacuous :
  let cfg := Kafka.mkKCfg "bifrost" 3 60 Kafka.KTxn "" in
  let ms := [Kafka.mkKMsg "INSERT" "{}" "700-1" "700" "public.t";
             Kafka.mkKMsg "INSERT" "{}" "701-2" "701" "public.t"] in
  let st r := Kafka.mkStep (Kafka.TKafka cfg ms) Kafka.CNone r in
  let r := Kafka.transport [st Kafka.PAllOk; st (Kafka.PFailed [1]); st Kafka.PAllOk] in
  map Kafka.o_written (Kafka.r_obs r) =
    [Some [("700-1", ("700", 1%Z)); ("701-2", ("701", 1%Z))]; None] /\
  map (fun o => match Kafka.o_sent o with Some l => List.length l | None => 0 end) (Kafka.r_obs r) = [2; 2] /\
  (Kafka.r_stopped r, Kafka.r_terminated r, Kafka.r_closes r, Kafka.r_chan_closed r) = (true, true, 1%N, true).
Proof. vm_compute. repeat split; reflexivity. Qed.
