(* C02 (client part) — the synthetic COMMIT of recoverFromErrorResponse is well formed.
   For the ledger to drain, every transaction announced downstream must get exactly one COMMIT
   that the ledger can release.  After the repair of findings F2/F3 (commit ea2ed5f in /repo)
   recovery from a server ErrorResponse emits its closing COMMIT only while a transaction is open
   on the client's side, with that transaction's delivery key, and never at position 0 unless the
   session itself started at 0.
   Quantifier: every first message and every list of loop iterations (see C03.v), no bound.
   Domain: [script_ok] (the operation string of an XChange is neither "BEGIN" nor "COMMIT", see C07.v)
   where keys of forwarded BEGINs are mentioned.

   This file holds only statements closed by [exact], their assumptions, and non-vacuity examples.
   Vocabulary (proofs/ClientProofs2.v): [couts o] = the messages forwarded downstream among the
   observations [o]; [open_txn s] = not firstIteration and not sawCommit;
   [flags_spec evs] = (firstIteration, sawCommit) folded over the received events: an accepted
   BEGIN gives (false, false), a dropped BEGIN (forced reconnect) (true, false), a COMMIT sets
   sawCommit, a recovery gives (true, false) — so "open" = a BEGIN was forwarded and neither a
   COMMIT, nor a forced reconnect, nor a recovery followed;
   [hp_val s (i_prog it)] = overallProgress after the handleProgress call at the loop head of
   the iteration (>= overall s). *)
From Bifrost.model Require Import Base Client.
From Bifrost.proofs Require Import ClientProofs ClientProofs2.

(* A recovery step in iteration k (after [its1]) of a running client forwards
   (a) nothing if no transaction is open, and exactly one message, a COMMIT, if one is — where
       "open" is the stated function of the events received so far; then a BEGIN was forwarded,
       it is the LAST forwarded BEGIN, and no COMMIT with its key has been forwarded yet;
   (b) carrying the transaction id and the key stamped at that BEGIN;
   (c) at position highestWalStart if that is non-zero, else at the acknowledged position
       overallProgress (as just updated at the loop head), which is at least the session start
       position. *)
Theorem C02_synthetic_commit_wellformed : forall first its1 it x,
  script_ok its1 = true ->
  stopped (fst (crun first its1)) = false -> i_pclosed it = false -> i_ev it = EErrorResponse x ->
  let s := fst (crun first its1) in
  let w := if (highest s =? 0)%N then hp_val s (i_prog it) else highest s in
  couts (snd (cstep s it)) = (if open_txn s then [COut "COMMIT" (ctxn s) (ckey s) w] else []) /\
  open_txn s = (let fl := flags_spec (map i_ev its1) in negb (fst fl) && negb (snd fl)) /\
  (open_txn s = true ->
     (exists K0, begin_keys (snd (crun first its1)) = K0 ++ [ckey s]) /\
     ~ In (ckey s) (commit_keys (snd (crun first its1)))) /\
  (start_pos first <= overall s <= hp_val s (i_prog it))%N.
Proof. exact crun_synthetic_commit. Qed.
Print Assumptions C02_synthetic_commit_wellformed.

(* one step, any state: what a recovery forwards *)
Theorem C02_synthetic_commit_step : forall s it x,
  stopped s = false -> i_pclosed it = false -> i_ev it = EErrorResponse x ->
  couts (snd (cstep s it)) =
  if open_txn s
  then [COut "COMMIT" (ctxn s) (ckey s) (if (highest s =? 0)%N then hp_val s (i_prog it) else highest s)]
  else [].
Proof. exact cstep_recovery_couts. Qed.
Print Assumptions C02_synthetic_commit_step.

(* if the session start position is not 0, no recovery step of any run forwards a COMMIT at
   position 0 (position 0 is never released by the ledger: finding F2) *)
Theorem C02_synthetic_commit_nonzero : forall first its1 it x s' o op t k w,
  start_pos first <> 0%N ->
  cstep (fst (crun first its1)) it = (s', o) -> i_ev it = EErrorResponse x ->
  In (COut op t k w) o -> w <> 0%N.
Proof. exact crun_synthetic_commit_nonzero. Qed.
Print Assumptions C02_synthetic_commit_nonzero.

(* together with C07_one_commit (props/C07.v): on scripts where no COMMIT arrives between an
   ErrorResponse and the next BEGIN, every delivery key gets at most one COMMIT, synthetic ones
   included. *)

(* ---------------- non-vacuity ---------------- *)
Definition c02_first : cev := EKeepalive 100 false false.
Definition c02_it (prog : list N) (e : cev) : citer := mkIter false prog false e [] false [] false.

(* open transaction, a COMMIT at 500 received earlier: the synthetic COMMIT is at 500 *)
Example C02_synthetic_commit_open :
  let its := [ c02_it [] (EXLog 200 (XBegin "7")); c02_it [] (EXLog 500 (XCommit "7"));
               c02_it [] (EXLog 600 (XBegin "8")); c02_it [] (EXLog 650 (XChange "INSERT")) ] in
  let s := fst (crun c02_first its) in
  script_ok its = true /\ stopped s = false /\ open_txn s = true /\
  couts (snd (cstep s (c02_it [] (EErrorResponse 900)))) = [COut "COMMIT" "8" "8-1" 500] /\
  begin_keys (snd (crun c02_first its)) = ["7-0"; "8-1"]%string.
Proof. vm_compute. repeat split. Qed.

(* first transaction of the process (highestWalStart = 0); progress 150 arrives at the loop head
   of the recovery iteration: the synthetic COMMIT is at 150 >= start position 100, not at 0 *)
Example C02_synthetic_commit_first_transaction :
  let its := [ c02_it [] (EXLog 200 (XBegin "7")); c02_it [] (EXLog 300 (XChange "INSERT")) ] in
  let s := fst (crun c02_first its) in
  start_pos c02_first = 100%N /\ open_txn s = true /\ highest s = 0%N /\
  couts (snd (cstep s (c02_it [150]%N (EErrorResponse 900)))) = [COut "COMMIT" "7" "7-0" 150].
Proof. vm_compute. repeat split. Qed.

(* no transaction open (already committed / never begun / BEGIN dropped / just recovered):
   nothing is forwarded *)
Example C02_synthetic_commit_none_when_closed :
  let rec := c02_it [] (EErrorResponse 900) in
  let committed := [ c02_it [] (EXLog 200 (XBegin "7")); c02_it [] (EXLog 500 (XCommit "7")) ] in
  let dropped := [ c02_it [] (EXLog 200 (XBegin "7")); c02_it [] (EXLog 600 (XBegin "8")) ] in
  couts (snd (cstep (fst (crun c02_first committed)) rec)) = [] /\
  couts (snd (cstep (fst (crun c02_first [])) rec)) = [] /\
  couts (snd (cstep (fst (crun c02_first dropped)) rec)) = [] /\
  couts (snd (cstep (fst (crun c02_first (committed ++ [c02_it [] (EXLog 600 (XBegin "8")); rec]))) rec)) = [].
Proof. vm_compute. repeat split. Qed.
