(* C13 — RabbitMQ: "written" means the broker positively confirmed every message.
   Statements closed by [exact], their assumptions, refutation witnesses, non-vacuity examples.

   Vocabulary (model/Rabbit.v).  [trace retries sizes ps ss] is the chronological event list of
   the worker fed with batches of the given sizes, under retry budget [retries]
   (backoff.WithMaxRetries), publish script [ps] (one broker action per Channel.Publish call:
   ack/nack [+ closure after it is read], publish error [+ closure], silent closure) and
   channel-opening script [ss].  Events: [EPub chan tag b m att verdict] (accepted publish of
   message m of batch b in attempt att, and what the broker answers), [ECons c cur] (the worker
   read confirmation c — which carries the identity of the publish it answers — while working on
   batch cur), [EWritten b _ _] (batch b reported on txnsWritten).
   [confirmed_in t b m]: the worker read, while working on b, an ACK answering a publish of (b, m)
   made for b, and that publish is in the trace.

   FULL STATEMENTS (DESIGN.md, C13) — both FALSE on the faithful model, finding F8:

     C13_written_confirmed :  forall retries sizes ps ss b cf q n m,
         In (EWritten b cf q) (trace retries sizes ps ss) -> nth_error sizes b = Some n -> m < n ->
         confirmed_in (trace retries sizes ps ss) b m.
     C13_no_cross_counting :  forall retries sizes ps ss c cur,
         In (ECons c cur) (trace retries sizes ps ss) -> c_b c = cur.

   They are the propositions [written_confirmed_statement] and [no_cross_counting_statement]
   of proofs/RabbitProofs.v; the two [_refuted] theorems below prove their negations. *)
From Bifrost.model Require Import Base Rabbit.
From Bifrost.proofs Require Import RabbitProofs.

(* F8, first half.  Batch of 3; the broker acks tag 1, nacks tag 2, acks tag 3 and nacks both
   republishes (tags 4, 5).  The worker reads ack 1, nack 2, republishes m1 m2, then reads the OLD
   ack of tag 3 (channelConfirms := 3 >= desired = 2 + 1) and reports the batch, with two
   confirmations left in the queue.  No publish of m1 was ever positively confirmed. *)
Theorem C13_written_confirmed_refuted :
  ~ written_confirmed_statement /\
  (let t := trace 3 [3] f8_script [] in
   In (EWritten 0 3 2) t /\ acked_pub_in t 0 1 = false /\ consumed_ack_in t 0 1 = false).
Proof. exact (conj written_confirmed_refuted f8_written_unconfirmed). Qed.
Print Assumptions C13_written_confirmed_refuted.

(* F8, second half.  Same start, republishes acked; the next batch's only message (tag 6) is
   nacked: the stale ack of tag 4 (a publish made for batch 0) is read and counted for batch 1,
   which is reported written without any positive confirmation. *)
Theorem C13_no_cross_counting_refuted :
  ~ no_cross_counting_statement /\
  (let t := trace 3 [3; 1] f8_script2 [] in
   cross_counted_in t = true /\ In (EWritten 1 4 2) t /\ acked_pub_in t 1 0 = false).
Proof. exact (conj no_cross_counting_refuted f8_cross_counted). Qed.
Print Assumptions C13_no_cross_counting_refuted.

(* F8, third way in: a Publish error that leaves the channel open. *)
Theorem C13_publish_error_refuted :
  let t := trace 3 [3] f8_script3 [] in
  In (EWritten 0 3 1) t /\ acked_pub_in t 0 2 = false.
Proof. exact f8_publish_error. Qed.
Print Assumptions C13_publish_error_refuted.

(* The strongest restriction proved: if every failure the broker produces closes the channel
   (no nack and no publish error leaves it open; closures at any point, lost confirmations,
   failed channel openings are all allowed), then for EVERY retry budget, batch sequence and
   script, without bound: a written batch had every message positively confirmed by a
   confirmation read for that batch, answering a publish made for that batch; and no
   confirmation is ever counted across batches. *)
Theorem C13_written_confirmed_partial : forall retries sizes ps ss,
  closure_only ps = true ->
  (forall b cf q n m, In (EWritten b cf q) (trace retries sizes ps ss) ->
     nth_error sizes b = Some n -> m < n -> confirmed_in (trace retries sizes ps ss) b m) /\
  (forall c cur, In (ECons c cur) (trace retries sizes ps ss) -> c_b c = cur).
Proof. exact written_confirmed_partial. Qed.
Print Assumptions C13_written_confirmed_partial.

(* ... and under the same restriction the worker neither blocks for ever in
   waitForConfirmations nor panics on `messagesSlice[len-remaining:]`. *)
Theorem C13_closure_only_ends : forall retries sizes ps ss,
  closure_only ps = true ->
  snd (run retries sizes ps ss) = FDone \/ snd (run retries sizes ps ss) = FTerminated.
Proof. exact closure_only_ends. Qed.
Print Assumptions C13_closure_only_ends.

(* For ALL scripts (also the refuting ones) the ghost labels are truthful: a confirmation the
   worker reads answers a publish recorded in the trace, with the broker's verdict for it. *)
Theorem C13_ghost_sound : forall retries sizes ps ss c cur,
  In (ECons c cur) (trace retries sizes ps ss) -> In (pub_of c) (trace retries sizes ps ss).
Proof. exact ghost_sound. Qed.
Print Assumptions C13_ghost_sound.

(* Routing key and persistence (model fact; tied to the code by the RABBIT correspondence, which
   compares exchange, key, body and deliveryMode of every Publish): every Publish uses the
   configured exchange, deliveryMode 2 (amqp.Persistent) and key <table>.<operation>. *)
Theorem C13_routing_key : forall exch retries bs ps ss o,
  In o (fst (observe exch retries bs ps ss)) ->
  match o with
  | OPub _ _ e key body mode | OPubErr _ e key body mode =>
      e = exch /\ mode = persistent /\
      exists x, key = (m_table x ++ "." ++ m_op x)%string /\ body = m_body x
  | _ => True
  end.
Proof. exact routing_key_fact. Qed.
Print Assumptions C13_routing_key.

(* ---- non-vacuity ---- *)

(* a script inside the restriction with every kind of closure, lost confirmations, a suffix
   retry, failed openings — and both batches end up written *)
Definition nv_ps : list pact :=
  [PConf true true; PConf true false; PConf true false;   (* ack 1 read, then closure: 2, 3 lost *)
   PConf true false; PSilentClose;                         (* retry of the suffix; closure again  *)
   PErr true;                                              (* publish error closing the channel   *)
   PConf false true;                                       (* nack followed by closure            *)
   PConf true false; PConf true false].
Definition nv_ss : list sact := [SConnErr; SOk; SChanErr].

Example C13_partial_nonvacuous :
  let t := trace 6 [3; 1] nv_ps nv_ss in
  closure_only nv_ps = true /\
  written_in t 0 = true /\ written_in t 1 = true /\
  consumed_ack_in t 0 0 = true /\ consumed_ack_in t 0 1 = true /\ consumed_ack_in t 0 2 = true /\
  consumed_ack_in t 1 0 = true /\
  (* the suffix rule is exercised: m0 is published once, m2 four times *)
  List.length (filter (fun e => match e with EPub _ _ 0 0 _ _ => true | _ => false end) t) = 1 /\
  List.length (filter (fun e => match e with EPub _ _ 0 2 _ _ => true | _ => false end) t) = 4.
Proof. vm_compute. repeat split; reflexivity. Qed.

(* the restriction is what separates the witnesses from the theorem *)
Example C13_witnesses_outside_restriction :
  closure_only f8_script = false /\ closure_only f8_script2 = false /\ closure_only f8_script3 = false.
Proof. vm_compute. repeat split; reflexivity. Qed.

(* routing key on a concrete run *)
Example C13_routing_key_nonvacuous :
  fst (observe "bifrost" 0 [[mkMsg "public.users" "INSERT" "{}"]] [] []) =
  [OSetup SOk 1; OPub 1 1 "bifrost" "public.users.INSERT" "{}" 2; OWritten 0 1 0].
Proof. vm_compute. reflexivity. Qed.
