(* C01 — no WAL position is acknowledged before its data is in the sink: the ORDER half in STREAM terms.
   Composition level (model/Pipeline.v), for ALL configurations with at least one worker and ALL label
   lists.  When a position F is acknowledged, every transaction whose COMMIT was handed to the batcher at
   a position <= F has ALL its accepted-fate changes in the sink — under a schedule-level no-stale
   contract, which is exactly what finding F1 violates, and which closes the gap exposed by
   C01_pipeline_order_wf_insufficient (props/C01_pipeline.v): it orders delivery instances by BEGIN order,
   which the ledger-level contract cannot see.
   Statements closed by [exact], their assumptions, the diagnostics of the two F1 witnesses, non-vacuity.

   Vocabulary (proofs/PipelineOrder.v; the rest as in props/C01_pipeline.v):
     commit_positions_increasing ms   (bool) COMMITs of different transaction ids carry strictly increasing
                                      positions in stream order; COMMITs of the same id carry the same position
     redelivery_shape ms              (bool) after the COMMIT of transaction x no later message carries x: a
                                      delivery is abandoned (redelivered under a new key) only when it was
                                      interrupted before its COMMIT, and ids are not reused
     key_before ms k1 k2              k1 occurs in ms and k2 does not occur before or at that occurrence
     closed_before ms k' k            some COMMIT with key k' occurs in ms before every message with key k
     latest_key ms k                  after some message of k every message of the same transaction id carries k
     no_stale_schedule ms h           for i < j, if h[i] mentions (t,k1) and h[j] mentions (t,k2), k1 <> k2, then
                                      key_before ms k1 k2: the ledger hears about the deliveries of one
                                      transaction in the order in which they were begun, i.e. every report of a
                                      superseded delivery reaches the ledger before the newer one is first mentioned *)
From Bifrost.model Require Import Base Crc32 Batch Batcher Ledger.
From Bifrost.proofs Require Import BatchProofs BatcherProofs LedgerProofs LedgerOrder.
From Bifrost.model Require Import Pipeline.
From Bifrost.proofs Require Import PipelineProofs PipelineOrder.

(* the boolean checker used in the diagnostics and examples decides the contract *)
Theorem C01_no_stale_schedule_decided : forall ms h, no_stale_scheduleb ms h = true <-> no_stale_schedule ms h.
Proof. exact no_stale_scheduleb_ok. Qed.
Print Assumptions C01_no_stale_schedule_decided.

(* the schedule-level contract implies the ledger-level E5 (for any stream, any history) *)
Theorem C01_no_stale_schedule_implies_no_stale : forall ms h, no_stale_schedule ms h -> no_stale h.
Proof. exact sched_no_stale. Qed.
Print Assumptions C01_no_stale_schedule_implies_no_stale.

(* THE MISSING LINK, for EVERY schedule (no contract needed): first mention in the ghost history follows
   the stream.  If delivery k' was closed — its COMMIT handed over — before delivery k began, the ledger
   hears of k' strictly before it first hears of k: the Seen of k' is announced before any batch or
   empty-batch report carrying k leaves the batcher (sendBatch flushes the Seen list first, over the
   unbuffered channel), and the Seen list is in COMMIT order.  [full] is the whole stream of the
   execution, of which the labels executed so far have handed over a prefix. *)
Theorem C01_pipeline_first_mention_order : forall cfg, workers_ok cfg ->
  forall full, framed full = true ->
  forall ls k k', (exists more, full = fed_of ls ++ more) ->
  mentioned k (p_lops (prun cfg ls)) -> closed_before full k' k ->
  first_pos k' (p_lops (prun cfg ls)) < first_pos k (p_lops (prun cfg ls)).
Proof. exact first_mention_order. Qed.
Print Assumptions C01_pipeline_first_mention_order.

(* under the schedule-level contract the ledger's notion "current" is the stream's notion "latest
   delivery of its transaction": the latest delivery, once mentioned, is current ... *)
Theorem C01_pipeline_latest_is_current : forall cfg ls, workers_ok cfg -> framed (fed_of ls) = true ->
  key_txn_ok (fed_of ls) -> no_stale_schedule (fed_of ls) (p_lops (prun cfg ls)) ->
  forall k, latest_key (fed_of ls) k -> mentioned k (p_lops (prun cfg ls)) -> current k (p_lops (prun cfg ls)).
Proof. exact latest_current. Qed.
Print Assumptions C01_pipeline_latest_is_current.

(* ... and a current delivery is the latest one of its transaction as soon as that latest one has been
   mentioned at all (before that the ledger tracks the previous delivery: "current" = latest MENTIONED) *)
Theorem C01_pipeline_current_is_latest : forall cfg ls, workers_ok cfg -> framed (fed_of ls) = true ->
  key_txn_ok (fed_of ls) -> no_stale_schedule (fed_of ls) (p_lops (prun cfg ls)) ->
  forall k kl, current k (p_lops (prun cfg ls)) -> latest_key (fed_of ls) kl -> mentioned kl (p_lops (prun cfg ls)) ->
  (exists m ml, In m (fed_of ls) /\ In ml (fed_of ls) /\ m_key m = k /\ m_key ml = kl /\ m_txn m = m_txn ml) ->
  k = kl.
Proof. exact current_is_latest. Qed.
Print Assumptions C01_pipeline_current_is_latest.

(* C01, ORDER, in stream terms.  When F is acknowledged, every COMMIT c handed over with position <= F
   belongs to the latest delivery of its transaction, that delivery has been released by the ledger, the
   ledger was told exactly its number of changes, all its accepted-fate changes are in the sink and none
   was dropped as invalid.  (The hypothesis "m_key c is the latest delivery key of m_txn c" of the target
   statement is a CONSEQUENCE of redelivery_shape and is returned as the first conjunct.) *)
Theorem C01_pipeline_commit_order_safe_full : forall cfg ls, workers_ok cfg ->
  NoDup (map m_id (fed_of ls)) -> framed (fed_of ls) = true ->
  key_txn_ok (fed_of ls) -> commits_nonzero (fed_of ls) ->
  commit_positions_increasing (fed_of ls) = true -> redelivery_shape (fed_of ls) = true ->
  no_stale_schedule (fed_of ls) (p_lops (prun cfg ls)) ->
  forall F, In F (p_acked (prun cfg ls)) ->
  forall c, In c (fed_of ls) -> is_commit c = true -> (m_wal c <= F)%N ->
    latest_key (fed_of ls) (m_key c) /\
    In (m_key c) (released_keys (p_lops (prun cfg ls))) /\
    certified (m_key c) (p_lops (prun cfg ls)) = nchanges (m_key c) (fed_of ls) /\
    (forall m, In m (fed_of ls) -> is_marker m = false -> m_key m = m_key c -> fate_of cfg m = FAccepted ->
               In (m_id m) (map r_id (p_accepted (prun cfg ls)))) /\
    (forall m, In m (fed_of ls) -> is_marker m = false -> m_key m = m_key c -> fate_of cfg m <> FDroppedInvalid).
Proof. exact pipeline_commit_order_safe. Qed.
Print Assumptions C01_pipeline_commit_order_safe_full.

Theorem C01_pipeline_commit_order_safe : forall cfg ls, workers_ok cfg ->
  NoDup (map m_id (fed_of ls)) -> framed (fed_of ls) = true ->
  key_txn_ok (fed_of ls) -> commits_nonzero (fed_of ls) ->
  commit_positions_increasing (fed_of ls) = true -> redelivery_shape (fed_of ls) = true ->
  no_stale_schedule (fed_of ls) (p_lops (prun cfg ls)) ->
  forall F, In F (p_acked (prun cfg ls)) ->
  forall c, In c (fed_of ls) -> m_op c = "COMMIT" -> (m_wal c <= F)%N ->
  forall m, In m (fed_of ls) -> is_marker m = false -> m_key m = m_key c -> fate_of cfg m = FAccepted ->
    In (m_id m) (map r_id (p_accepted (prun cfg ls))).
Proof. exact pipeline_commit_order_safe_sink. Qed.
Print Assumptions C01_pipeline_commit_order_safe.

(* ---------- diagnostics: the two F1 witnesses violate exactly the schedule-level contract ---------- *)
Local Ltac key_txn_by_cases :=
  let m := fresh "m" in let m' := fresh "m'" in let Hm := fresh "Hm" in let Hm' := fresh "Hm'" in let E := fresh "E" in
  intros m m' Hm Hm' E; vm_compute in Hm, Hm';
  repeat (destruct Hm as [<-|Hm]; [repeat (destruct Hm' as [<-|Hm']; [first [reflexivity|discriminate E]|]); destruct Hm'|]);
  destruct Hm.
Local Ltac commits_nonzero_by_cases :=
  let m := fresh "m" in let Hm := fresh "Hm" in let Hc := fresh "Hc" in
  intros m Hm Hc; vm_compute in Hm;
  repeat (destruct Hm as [<-|Hm]; [first [discriminate Hc|vm_compute; discriminate]|]); destruct Hm.

(* f1_ls (C01_pipeline_order_refuted): every hypothesis of C01_pipeline_commit_order_safe holds except
   no_stale_schedule — ops 1 and 6 of the history mention ("701","kx2") and then ("701","kx1") although kx1
   was begun first — and the conclusion fails: 200 is acknowledged, the COMMIT of kx2 carries 100 <= 200, and
   change 6 of kx2 is not in the sink *)
Theorem C01_pipeline_order_refuted_violates_schedule :
  let st := prun f1_cfg f1_ls in let ms := fed_of f1_ls in
  workers_ok f1_cfg /\ NoDup (map m_id ms) /\ framed ms = true /\ key_txn_ok ms /\ commits_nonzero ms /\
  commit_positions_increasing ms = true /\ redelivery_shape ms = true /\
  ~ no_stale_schedule ms (p_lops st) /\
  (mention_at (p_lops st) 1 = Some ("701", "kx2") /\ mention_at (p_lops st) 6 = Some ("701", "kx1") /\
   ~ key_before ms "kx2" "kx1") /\
  In 200%N (p_acked st) /\ In (f1_mk 7 "COMMIT" "kx2" "701" 100) ms /\ (100 <= 200)%N /\
  In (f1_mk 6 "INSERT" "kx2" "701" 12) ms /\ ~ In 6%N (map r_id (p_accepted st)).
Proof.
  cbv zeta.
  split; [unfold workers_ok; vm_compute; discriminate|].
  split; [vm_compute; repeat constructor; simpl; intuition discriminate|].
  split; [vm_compute; reflexivity|]. split; [key_txn_by_cases|]. split; [commits_nonzero_by_cases|].
  split; [vm_compute; reflexivity|]. split; [vm_compute; reflexivity|].
  split; [intros H; apply no_stale_scheduleb_ok in H; vm_compute in H; discriminate|].
  split.
  { split; [vm_compute; reflexivity|]. split; [vm_compute; reflexivity|].
    intros H. apply key_beforeb_ok in H. vm_compute in H. discriminate. }
  split; [vm_compute; auto|]. split; [vm_compute; auto 10|]. split; [vm_compute; discriminate|].
  split; [vm_compute; auto 10|]. vm_compute; intuition discriminate.
Qed.
Print Assumptions C01_pipeline_order_refuted_violates_schedule.

(* f1b_ls (C01_pipeline_order_wf_insufficient): the ledger-level contract holds (WF, in particular no_stale),
   the schedule-level one does not — the gap is closed *)
Theorem C01_pipeline_order_wf_insufficient_violates_schedule :
  let st := prun f1_cfg f1b_ls in let ms := fed_of f1b_ls in
  workers_ok f1_cfg /\ NoDup (map m_id ms) /\ framed ms = true /\ key_txn_ok ms /\ commits_nonzero ms /\
  commit_positions_increasing ms = true /\ redelivery_shape ms = true /\
  no_stale (p_lops st) /\ WF (p_lops st) /\
  ~ no_stale_schedule ms (p_lops st) /\
  (mention_at (p_lops st) 0 = Some ("701", "kx2") /\ mention_at (p_lops st) 4 = Some ("701", "kx1") /\
   ~ key_before ms "kx2" "kx1") /\
  In 200%N (p_acked st) /\ In (f1_mk 6 "COMMIT" "kx2" "701" 100) ms /\ (100 <= 200)%N /\
  In (f1_mk 5 "INSERT" "kx2" "701" 12) ms /\ ~ In 5%N (map r_id (p_accepted st)).
Proof.
  cbv zeta.
  split; [unfold workers_ok; vm_compute; discriminate|].
  split; [vm_compute; repeat constructor; simpl; intuition discriminate|].
  split; [vm_compute; reflexivity|]. split; [key_txn_by_cases|]. split; [commits_nonzero_by_cases|].
  split; [vm_compute; reflexivity|]. split; [vm_compute; reflexivity|].
  split; [apply no_staleb_ok; vm_compute; reflexivity|].
  split; [apply wf_hist_ok; vm_compute; reflexivity|].
  split; [intros H; apply no_stale_scheduleb_ok in H; vm_compute in H; discriminate|].
  split.
  { split; [vm_compute; reflexivity|]. split; [vm_compute; reflexivity|].
    intros H. apply key_beforeb_ok in H. vm_compute in H. discriminate. }
  split; [vm_compute; auto|]. split; [vm_compute; auto 10|]. split; [vm_compute; discriminate|].
  split; [vm_compute; auto 10|]. vm_compute; intuition discriminate.
Qed.
Print Assumptions C01_pipeline_order_wf_insufficient_violates_schedule.

(* ---------- non-vacuity ---------- *)
(* nv_ls (proofs/PipelineProofs.v): 2 workers, transaction 7 interrupted (k71) and redelivered (k72, COMMIT at
   100), transaction 8 (k81, COMMIT at 200), worker 1 ahead of worker 0, four tracker ticks.  EVERY hypothesis
   of C01_pipeline_commit_order_safe holds; 200 is acknowledged; both COMMITs carry positions <= 200; k72 and
   k81 are the latest deliveries of their transactions, k71 is not; the sink holds the changes 4, 5 of k72
   and 8 of k81. *)
Example C01_pipeline_commit_order_nonvacuous :
  let st := prun f1_cfg nv_ls in let ms := fed_of nv_ls in
  workers_ok f1_cfg /\ NoDup (map m_id ms) /\ framed ms = true /\ key_txn_ok ms /\ commits_nonzero ms /\
  commit_positions_increasing ms = true /\ redelivery_shape ms = true /\ no_stale_schedule ms (p_lops st) /\
  p_acked st = [200%N] /\
  In (f1_mk 6 "COMMIT" "k72" "7" 100) ms /\ In (f1_mk 9 "COMMIT" "k81" "8" 200) ms /\
  key_before ms "k71" "k72" /\ ~ key_before ms "k72" "k71" /\
  map r_id (p_accepted st) = [2; 4; 8; 5]%N.
Proof.
  cbv zeta.
  split; [unfold workers_ok; vm_compute; discriminate|].
  split; [vm_compute; repeat constructor; simpl; intuition discriminate|].
  split; [vm_compute; reflexivity|]. split; [key_txn_by_cases|]. split; [commits_nonzero_by_cases|].
  split; [vm_compute; reflexivity|]. split; [vm_compute; reflexivity|].
  split; [apply no_stale_scheduleb_ok; vm_compute; reflexivity|].
  split; [vm_compute; reflexivity|]. split; [vm_compute; auto 10|]. split; [vm_compute; auto 15|].
  split; [apply key_beforeb_ok; vm_compute; reflexivity|].
  split; [intros H; apply key_beforeb_ok in H; vm_compute in H; discriminate|].
  vm_compute. reflexivity.
Qed.

(* the contract is about the SCHEDULE, not about the stream: the same stream as in f1_ls with the stale batch
   [3] of kx1 accepted and read BEFORE the redelivery is first mentioned satisfies it, and then 200 is
   acknowledged only with everything of kx2 in the sink *)
Definition f1_good_ls : list plabel :=
  [ LFeed 0 (f1_mk 1 "BEGIN" "kx1" "701" 10); LFeed 0 (f1_mk 2 "INSERT" "kx1" "701" 11);
    LFeed 0 (f1_mk 3 "INSERT" "kx1" "701" 12);
    LAccept 0; LRead;
    LFeed 0 (f1_mk 4 "BEGIN" "kx2" "701" 10);        (* dispatches batch [3] to worker 1 *)
    LAccept 1; LRead;                                 (* ... which finishes it before kx2 is mentioned *)
    LFeed 0 (f1_mk 5 "INSERT" "kx2" "701" 11);
    LFeed 0 (f1_mk 6 "INSERT" "kx2" "701" 12); LFeed 0 (f1_mk 7 "COMMIT" "kx2" "701" 100);
    LFeed 0 (f1_mk 8 "BEGIN" "ky" "702" 150); LFeed 0 (f1_mk 9 "INSERT" "ky" "702" 151);
    LFeed 0 (f1_mk 10 "COMMIT" "ky" "702" 200);
    LAccept 0; LAccept 0; LRead; LRead; LEmit; LAccept 1; LRead; LEmit ].
Example C01_pipeline_commit_order_same_stream_good_schedule :
  fed_of f1_good_ls = fed_of f1_ls /\
  no_stale_schedule (fed_of f1_good_ls) (p_lops (prun f1_cfg f1_good_ls)) /\
  p_acked (prun f1_cfg (firstn 19 f1_good_ls)) = [] /\
  p_acked (prun f1_cfg f1_good_ls) = [200%N] /\
  map r_id (p_accepted (prun f1_cfg f1_good_ls)) = [2; 3; 5; 9; 6]%N.
Proof.
  split; [reflexivity|]. split; [apply no_stale_scheduleb_ok; vm_compute; reflexivity|].
  vm_compute. repeat split; reflexivity.
Qed.
