(* C16 — batches are flushed by age and by memory pressure: the decision logic of handleTicker.
   This file holds only statements closed by [exact], their assumptions, and non-vacuity examples.
   A tick is  bstep_tick cfg st now order pops : [order] = the order in which Go iterates the map of open
   batches, [pops] = the order in which heap.Pop returned keys; both are oracles, the model accepts
   exactly the executions the code can produce (None otherwise).
   Vocabulary (proofs/BatcherProofs.v):
     payloads outs      the batch-carrying outputs of the tick: inl b for OBatch _ b, inr txns for OEmptyWritten
     payload b          inr (b_txns b) if b is empty, inl b otherwise
     open_bytes st      sum of GetPayloadByteSize over the open batches
     flagged cfg now ob the per-batch flush rule (empty, not modified for updateAge, older than maxAge, full)
   The hypothesis NoDup (map fst (open st)) says that the Go map has one batch per key; it holds in
   every reachable state (C16_reachable_wf). *)
From Bifrost.model Require Import Base Crc32 Batch Batcher.
From Bifrost.proofs Require Import BatchProofs BatcherProofs.

Theorem C16_reachable_wf : forall cfg evs st t,
  workers_ok cfg -> brun cfg binit evs = (st, t) -> dead st = false -> NoDup (map fst (open st)).
Proof. exact run_wf. Qed.
Print Assumptions C16_reachable_wf.

Theorem C16_age : forall cfg st now order pops st' outs,
  workers_ok cfg -> NoDup (map fst (open st)) -> dead st = false ->
  bstep_tick cfg st now order pops = Some (st', outs) ->
  dead st' = false /\
  (forall k ob, In (k, ob) (open st') ->
     In (k, ob) (open st) /\ is_empty (ob_batch ob) = false /\ is_full (c_limits cfg) (ob_batch ob) = false /\
     (now - c_max_age cfg <= ob_ctime ob)%Z /\ (now - c_upd_age cfg <= ob_mtime ob)%Z) /\
  exists flushed, NoDup (map fst flushed) /\
    (forall k ob, In (k, ob) flushed <-> In (k, ob) (open st) /\ ~ In (k, ob) (open st')) /\
    payloads outs = map (fun kv => payload (ob_batch (snd kv))) flushed.
Proof. exact tick_age. Qed.
Print Assumptions C16_age.

(* after the tick the open batches are below the soft limit; every batch popped for memory pressure
   was at least as large as every batch kept, was not flagged by the per-batch rule and is gone;
   nothing is popped when the unflagged batches were already below the limit *)
Theorem C16_memory : forall cfg st now order pops st' outs,
  workers_ok cfg -> NoDup (map fst (open st)) -> dead st = false ->
  bstep_tick cfg st now order pops = Some (st', outs) ->
  (open_bytes st' < c_mem_limit cfg)%Z /\
  (forall k ob k' ob', In k pops -> aget k (open st) = Some ob -> In (k', ob') (open st') ->
                       (bytes_of ob' <= bytes_of ob)%Z) /\
  (forall k, In k pops -> exists ob, In (k, ob) (open st) /\ flagged cfg now ob = false /\ ~ In (k, ob) (open st')) /\
  ((kept_total st (kept_keys cfg now st order) < c_mem_limit cfg)%Z -> pops = []).
Proof. exact tick_memory. Qed.
Print Assumptions C16_memory.

(* the oracle is never empty: with a positive limit every state has an admissible execution of the tick
   (map order = any enumeration of the keys, here the stored one; pops = largest first) *)
Theorem C16_oracle_exists : forall cfg st now,
  (0 < c_mem_limit cfg)%Z -> NoDup (map fst (open st)) ->
  exists pops r, bstep_tick cfg st now (map fst (open st)) pops = Some r.
Proof. exact tick_oracle_exists. Qed.
Print Assumptions C16_oracle_exists.

(* ---- non-vacuity: four open batches; "e" is empty, "o" is old, "s" and "l" are fresh; the limit 25 is
        exceeded by s (10 bytes) + l (20 bytes), so the larger one, l, is popped ---- *)
Definition z_b (pk : string) (n : N) : batch :=
  match n with
  | 0%N => mkBatch (BGeneric 10) pk [] [] 0
  | _ => mkBatch (BGeneric 10) pk [mkRec 1 "" n] [("k", ("tx", 1%Z))] n
  end.
Definition z_cfg := mkBcfg (BGeneric 10) (mkLimits 500 5242880 1048576) 1 RoundRobin 100 1000 25.
Definition z_st := mkBst [("e", mkOB (z_b "e" 0) 990 990); ("o", mkOB (z_b "o" 7) 0 995);
                          ("s", mkOB (z_b "s" 10) 950 990); ("l", mkOB (z_b "l" 20) 960 990)] [] 0 "" 0 0 0 false.

Example C16_nonvacuous :
  match bstep_tick z_cfg z_st 1050 ["l"; "e"; "s"; "o"] ["l"] with
  | Some (st', outs) =>
      map fst (open st') = ["s"] /\ open_bytes st' = 10%Z /\
      payloads outs = [inr []; inl (z_b "o" 7); inl (z_b "l" 20)]
  | None => False
  end /\
  (* popping the smaller batch instead is not a behaviour of the code *)
  bstep_tick z_cfg z_st 1050 ["l"; "e"; "s"; "o"] ["s"] = None /\
  NoDup (map fst (open z_st)).
Proof.
  split; [vm_compute; auto|]. split; [reflexivity|].
  simpl. repeat constructor; simpl; intuition discriminate.
Qed.
