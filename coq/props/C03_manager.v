(* C03, mechanism 3: the connection manager (re)starts replication at the LSN it is given, and only
   when it has no live connection. *)
From Bifrost.model Require Import Base Manager.
From Bifrost.proofs Require Import ManagerProofs.

Theorem C03_manager_start_rule : forall s o,
  m_starts (mstep s o) =
  match o with
  | MGetStart lsn => if need_new s then m_starts s ++ [lsn] else m_starts s
  | _ => m_starts s
  end.
Proof. exact start_rule. Qed.
Print Assumptions C03_manager_start_rule.

Theorem C03_manager_starts_are_requested : forall ops l,
  In l (m_starts (mrun ops)) -> In (MGetStart l) ops.
Proof. exact starts_are_requested. Qed.
Print Assumptions C03_manager_starts_are_requested.

Theorem C03_manager_live_connection_is_kept : forall s lsn,
  need_new s = false -> mstep s (MGetStart lsn) = s.
Proof. exact live_connection_is_kept. Qed.
Print Assumptions C03_manager_live_connection_is_kept.

Example C03_manager_nonvacuous :
  m_starts (mrun [MGetStart 0; MGetStart 5; MKill; MGetStart 7; MClose; MGetPlain; MGetStart 9; MClose; MGetStart 11]) = [0; 7; 11]%N.
Proof. reflexivity. Qed.
