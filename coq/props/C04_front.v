(* C04 FROM THE WAL STREAM — every change that passes the filter reaches the sink exactly once, intact.
   props/C04.v states this for "dispatched by the batcher", props/C04_pipeline.v for "accepted by
   the sink" of what the batcher was FED.  Here the three front stages are put in front of that:

     WAL stream ws --> [filter] --> [partitioner] --> [marshaller] --fed--> batcher -> workers -> sink -> ledger
                       \_______________ model/Front.v ______________/       \________ model/Pipeline.v ________/

   and the statements are about the WAL stream itself: which changes of ws the sink accepts, with
   which partition key, in which order.  The C05 / C06 / C08 flavoured corollaries of the composition
   are in this file too (it is registered under C04 only); all names start with C04_front_.
   This file holds only statements closed by [exact], their assumptions, and non-vacuity examples.

   Vocabulary (model/Front.v, proofs/FrontProofs.v; back end: see props/C04_pipeline.v, props/C05_pipeline.v):
     wal                          an input message: id, operation, relation, transaction id, delivery key, WAL position
     cfg : frcfg                  the arguments of filter.New (whitelist, regex, tablelist) and of partitioner.New (method, buckets)
     bad / M                      the regexp oracles of model/Filter.v (item did not compile / MatchString matrix)
     jlen : wal -> N              the length of the JSON the marshaller emits — ARBITRARY: every statement
                                  holds for every marshalling function (the bytes are component MARSHAL, C10)
     front cfg bad M jlen ws      (the messages leaving the marshaller in order, which stage stopped if any)
     consumed cfg bad M ws        the initial segment of ws the stages consumed before a stage stopped (all of
                                  ws when every regexp compiled and the bucket count is not 0: C04_front_total)
     wmarker w                    w is BEGIN/COMMIT;  passes cfg M w = wmarker w || decide (filter cfg) M (relation w)
     key_of cfg w / out_of cfg jlen w   the partition key the method gives w / the MarshalledMessage made of w
     sel cfg M jlen g w           w is a row change, its relation is permitted (Filter.decide), and g holds of out_of w
     has_key cfg p w              the configured partition method gives w the key p
     prefix a b                   exists r, b = a ++ r

   THE COMPOSITION HYPOTHESIS  [prefix (fed_of ls) (fst (front cfg bad M jlen ws))]:  what the batcher has been
   fed so far is an initial segment of what left the marshaller.  It is an initial segment and not the whole
   output because (a) a schedule can be observed at any moment and (b) when a stage panics the shared context is
   cancelled and the one or two messages in flight between the stages may be dropped (each stage selects between
   its send and the cancellation; model/Front.v [max_lost], observed by component FRONT).  Only the completeness
   statement needs the whole output to have been fed. *)
From Bifrost.model Require Import Base Crc32 Batch Batcher Ledger Pipeline Filter Partition Front.
From Bifrost.proofs Require Import BatchProofs BatcherProofs PipelineProofs PipelineE2E FilterProofs PartitionProofs FrontProofs.
From Coq Require Import Permutation.

(* ======================= the front stages alone ======================= *)

(* the shape: what leaves the marshaller is, message by message and in order, the marshalled form of the
   consumed input messages that pass the filter *)
Theorem C04_front_shape : forall cfg bad M jlen ws,
  fst (front cfg bad M jlen ws) =
  map (out_of cfg jlen) (filter (passes cfg M) (consumed cfg bad M ws)) /\
  prefix (consumed cfg bad M ws) ws /\
  (snd (front cfg bad M jlen ws) = StopNone -> consumed cfg bad M ws = ws).
Proof. exact front_shape. Qed.
Print Assumptions C04_front_shape.

(* no stage stops when every regexp of a regexp list compiled and the bucket count cannot divide by zero *)
Theorem C04_front_total : forall cfg bad M jlen ws,
  regs_compile (fr_filter cfg) bad -> buckets_ok cfg ->
  front cfg bad M jlen ws = (map (out_of cfg jlen) (filter (passes cfg M) ws), StopNone).
Proof. exact front_total. Qed.
Print Assumptions C04_front_total.

(* the front is Filter.stage (props/C08.v) followed by two stages that forward everything *)
Theorem C04_front_is_filter_stage : forall cfg bad M jlen ws, buckets_ok cfg ->
  map m_id (fst (front cfg bad M jlen ws)) =
    map f_id (forwarded (stage (fr_filter cfg) bad M (map fmsg_of ws))) /\
  stopped (snd (front cfg bad M jlen ws)) =
    match stage (fr_filter cfg) bad M (map fmsg_of ws) with Panicked _ => true | Done _ => false end.
Proof. exact front_is_filter_stage. Qed.
Print Assumptions C04_front_is_filter_stage.

(* C08 through the three stages: a consumed input message leaves the marshaller iff it is BEGIN/COMMIT or
   its relation is permitted *)
Theorem C04_front_forwarded_iff : forall cfg bad M jlen ws w, In w (consumed cfg bad M ws) ->
  (In (out_of cfg jlen w) (fst (front cfg bad M jlen ws)) <->
   wmarker w = true \/ decide (fr_filter cfg) M (w_rel w) = true).
Proof. exact front_forwarded_iff. Qed.
Print Assumptions C04_front_forwarded_iff.

(* ... in terms of the user's intent [permitted] of props/C08.v, for the configuration each kind of list needs *)
Theorem C04_front_forwarded_permitted : forall kind lst meth buckets bad M jlen ws w,
  In w (consumed (mkFront (cfg_of kind lst) meth buckets) bad M ws) ->
  (In (out_of (mkFront (cfg_of kind lst) meth buckets) jlen w)
      (fst (front (mkFront (cfg_of kind lst) meth buckets) bad M jlen ws)) <->
   wmarker w = true \/ permitted kind lst M (w_rel w)).
Proof. exact front_forwarded_permitted. Qed.
Print Assumptions C04_front_forwarded_permitted.

(* order: the ids leaving the marshaller are a subsequence of the input ids in input order; no id twice
   when the input ids are pairwise distinct *)
Theorem C04_front_order : forall cfg bad M jlen ws,
  sublist (map m_id (fst (front cfg bad M jlen ws))) (map w_id ws) /\
  (NoDup (map w_id ws) -> NoDup (map m_id (fst (front cfg bad M jlen ws)))).
Proof. exact front_order. Qed.
Print Assumptions C04_front_order.

(* nothing invented *)
Theorem C04_front_nothing_invented : forall cfg bad M jlen ws m, In m (fst (front cfg bad M jlen ws)) ->
  exists w, In w ws /\ m = marshal jlen w (m_pkey m).
Proof. exact front_nothing_invented. Qed.
Print Assumptions C04_front_nothing_invented.

(* C06, key part: the key on every message leaving the marshaller is Partition.pkey of its
   (relation, transaction id) under the configured method; with transaction-bucket it names a bucket *)
Theorem C04_front_pkey : forall cfg bad M jlen ws m, In m (fst (front cfg bad M jlen ws)) ->
  pkey (fr_method cfg) (fr_buckets cfg) (m_table m) (m_txn m) = PKey (m_pkey m) /\
  (fr_method cfg = PBucket -> exists i, (i < fr_buckets cfg)%N /\ m_pkey m = dec i).
Proof. exact front_pkey. Qed.
Print Assumptions C04_front_pkey.

Theorem C04_front_pkey_function : forall cfg bad M jlen ws m, fr_buckets cfg <> 0%N ->
  In m (fst (front cfg bad M jlen ws)) ->
  m_pkey m = match fr_method cfg with
             | PNone => "" | PTable => m_table m | PTxn => m_txn m
             | PBucket => dec (crc32 (m_txn m) mod fr_buckets cfg)
             end.
Proof. exact front_pkey_function. Qed.
Print Assumptions C04_front_pkey_function.

(* intact: operation, table, transaction id, delivery key, WAL position copied unchanged *)
Theorem C04_front_fields_intact : forall cfg bad M jlen ws m, In m (fst (front cfg bad M jlen ws)) ->
  exists w, In w ws /\ m_id m = w_id w /\ m_op m = w_op w /\ m_table m = w_rel w /\
            m_txn m = w_txn w /\ m_key m = w_key w /\ m_wal m = w_wal w /\ m_jlen m = jlen w.
Proof. exact front_fields_intact. Qed.
Print Assumptions C04_front_fields_intact.

(* ======================= front + back end ======================= *)
(* for EVERY batcher configuration with >= 1 worker and EVERY schedule ls (LFeed / LTick / LAccept w /
   LRead / LEmit in any interleaving) whose feeds are an initial segment of the front's output *)

(* (i) no change whose relation the filter removes is ever accepted by the sink *)
Theorem C04_front_sink_no_filtered : forall cfg bad M jlen ws bc ls,
  prefix (fed_of ls) (fst (front cfg bad M jlen ws)) -> workers_ok bc -> NoDup (map w_id ws) ->
  forall w, In w ws -> wmarker w = false -> decide (fr_filter cfg) M (w_rel w) = false ->
  ~ In (w_id w) (rec_ids (p_accepted (prun bc ls))).
Proof. exact front_sink_no_filtered. Qed.
Print Assumptions C04_front_sink_no_filtered.

(* (ii) every accepted record is the record of a change of ws that passes the filter, with the partition
   key the configured method gives its (relation, xid) *)
Theorem C04_front_sink_record : forall cfg bad M jlen ws bc ls,
  prefix (fed_of ls) (fst (front cfg bad M jlen ws)) -> workers_ok bc ->
  forall r, In r (p_accepted (prun bc ls)) ->
  exists w, In w ws /\ wmarker w = false /\ decide (fr_filter cfg) M (w_rel w) = true /\
            pkey (fr_method cfg) (fr_buckets cfg) (w_rel w) (w_txn w) = PKey (key_of cfg w) /\
            accepted bc (out_of cfg jlen w) = true /\
            r = rec_of_kind (c_kind bc) (out_of cfg jlen w).
Proof. exact front_sink_record. Qed.
Print Assumptions C04_front_sink_record.

(* exactly once from the WAL to the sink *)
Theorem C04_front_sink_exactly_once : forall cfg bad M jlen ws bc ls,
  prefix (fed_of ls) (fst (front cfg bad M jlen ws)) -> workers_ok bc -> NoDup (map w_id ws) ->
  NoDup (rec_ids (p_accepted (prun bc ls))) /\
  forall i, In i (rec_ids (p_accepted (prun bc ls))) ->
            In i (map w_id (filter (sel cfg M jlen (accepted bc)) ws)).
Proof. exact front_sink_exactly_once. Qed.
Print Assumptions C04_front_sink_exactly_once.

(* (iii) nothing lost: once the batcher has received everything that left the marshaller, batcher and tracker
   alive, worker queues empty, no record in an open batch — the accepted ids are a permutation of the ids of the
   changes of the (consumed) WAL stream that pass the filter and that the batch limits accept; the two drop
   statistics count the permitted changes that are too big / invalid *)
Theorem C04_front_sink_complete_at_quiescence : forall cfg bad M jlen ws bc ls, workers_ok bc ->
  fed_of ls = fst (front cfg bad M jlen ws) ->
  dead (p_b (prun bc ls)) = false -> p_failed (prun bc ls) = false ->
  queued (p_queues (prun bc ls)) = [] -> open_ids (p_b (prun bc ls)) = [] ->
  Permutation (rec_ids (p_accepted (prun bc ls)))
              (map w_id (filter (sel cfg M jlen (accepted bc)) (consumed cfg bad M ws))) /\
  drops_big (p_b (prun bc ls)) =
    N.of_nat (List.length (filter (sel cfg M jlen (is_big bc)) (consumed cfg bad M ws))) /\
  drops_invalid (p_b (prun bc ls)) =
    N.of_nat (List.length (filter (sel cfg M jlen (is_invalid bc)) (consumed cfg bad M ws))).
Proof. exact front_sink_complete_at_quiescence. Qed.
Print Assumptions C04_front_sink_complete_at_quiescence.

(* ... over the WHOLE WAL stream when no front stage can stop *)
Theorem C04_front_sink_complete_total : forall cfg bad M jlen ws bc ls, workers_ok bc ->
  regs_compile (fr_filter cfg) bad -> buckets_ok cfg ->
  fed_of ls = fst (front cfg bad M jlen ws) ->
  dead (p_b (prun bc ls)) = false -> p_failed (prun bc ls) = false ->
  queued (p_queues (prun bc ls)) = [] -> open_ids (p_b (prun bc ls)) = [] ->
  Permutation (rec_ids (p_accepted (prun bc ls)))
              (map w_id (filter (sel cfg M jlen (accepted bc)) ws)) /\
  drops_big (p_b (prun bc ls)) = N.of_nat (List.length (filter (sel cfg M jlen (is_big bc)) ws)) /\
  drops_invalid (p_b (prun bc ls)) = N.of_nat (List.length (filter (sel cfg M jlen (is_invalid bc)) ws)).
Proof. exact front_sink_complete_total. Qed.
Print Assumptions C04_front_sink_complete_total.

(* (iv) C05 from the WAL: per partition key the sink order is the WAL order.  Under partition routing, for
   every key p the batches of key p accepted by the sink, concatenated in ACCEPTANCE order, are an initial
   segment of the records of the changes of ws, in WAL order, that pass the filter, that the limits accept and
   to which the configured partition method gives key p (same routing hypothesis as C05_pipeline_sink_order_per_key;
   C05_pipeline_round_robin_reorders shows it is needed) *)
Theorem C04_front_sink_order_per_key : forall cfg bad M jlen ws bc ls,
  prefix (fed_of ls) (fst (front cfg bad M jlen ws)) -> workers_ok bc -> c_routing bc = ByPartition ->
  forall p,
  prefix (items_of (for_key p (accepted_batches bc ls)))
         (map (fun w => rec_of_kind (c_kind bc) (out_of cfg jlen w))
              (filter (fun w => sel cfg M jlen (accepted bc) w && has_key cfg p w) ws)).
Proof. exact front_sink_order_per_key. Qed.
Print Assumptions C04_front_sink_order_per_key.

(* the same on the sink's flat record list (pairwise distinct ids; a record's key is that of the fed message
   with its id, as in C05_pipeline_sink_order_per_key_records) *)
Theorem C04_front_sink_order_per_key_records : forall cfg bad M jlen ws bc ls,
  prefix (fed_of ls) (fst (front cfg bad M jlen ws)) -> workers_ok bc -> c_routing bc = ByPartition ->
  NoDup (map w_id ws) -> forall p,
  prefix (filter (rec_has_key (fed_of ls) p) (p_accepted (prun bc ls)))
         (map (fun w => rec_of_kind (c_kind bc) (out_of cfg jlen w))
              (filter (fun w => sel cfg M jlen (accepted bc) w && has_key cfg p w) ws)).
Proof. exact front_sink_order_per_key_records. Qed.
Print Assumptions C04_front_sink_order_per_key_records.

(* one worker and partition method "none": the whole sink list is in WAL order *)
Theorem C04_front_sink_single_worker_whole_stream : forall cfg bad M jlen ws bc ls,
  prefix (fed_of ls) (fst (front cfg bad M jlen ws)) -> c_workers bc = 1%N -> fr_method cfg = PNone ->
  prefix (p_accepted (prun bc ls))
         (map (fun w => rec_of_kind (c_kind bc) (out_of cfg jlen w))
              (filter (sel cfg M jlen (accepted bc)) ws)).
Proof. exact front_sink_single_worker_whole_stream. Qed.
Print Assumptions C04_front_sink_single_worker_whole_stream.

(* ---- non-vacuity: whitelist [public.a; public.d] removes the quoted relation public."Q.t"; partition
   method "tablename"; 2 workers, partition routing; key public.a hashes to worker 0, public.d to worker 1.
   Change 6 (60 bytes > 50) passes the filter and is dropped by the batch limits, counted. ---- *)
Definition x_cfg := mkFront (cfg_of WL ["public.a"; "public.d"]) PTable 1.
Definition x_w (id : N) (op rel : string) := mkWal id op rel "750" "750-1" (100 + id).
Definition x_ws :=
  [x_w 0 "BEGIN" ""; x_w 1 "INSERT" "public.a"; x_w 2 "INSERT" "public.""Q.t"""; x_w 3 "UPDATE" "public.d";
   x_w 4 "DELETE" "public.a"; x_w 5 "INSERT" "public.""Q.t"""; x_w 6 "INSERT" "public.d"; x_w 7 "INSERT" "public.a";
   x_w 8 "UPDATE" "public.d"; x_w 9 "COMMIT" ""].
Definition x_jlen (w : wal) : N := if wmarker w then 0 else if (w_id w =? 6)%N then 60 else 10.
Definition x_nobad (_ : string) := false.
Definition x_M (_ _ : string) := false.
Definition x_out := fst (front x_cfg x_nobad x_M x_jlen x_ws).
Definition x_bc := mkBcfg (BKinesis KBatch) (mkLimits 2 100 50) 2 ByPartition 1000 5000 1000.
Definition x_feeds := map (fun m => LFeed (Z.of_N (m_id m)) m) x_out.
(* in the middle: the full batch [1;4] of public.a accepted; 7 and [3;8] still open *)
Definition x_mid := x_feeds ++ [LAccept 0; LRead].
(* to the end: a tick flushes the open batches; worker 1 first *)
Definition x_all := x_mid ++ [LTick 10000 ["public.d"; ""; "public.a"] []; LEmit; LAccept 1; LAccept 0; LRead; LRead; LRead; LEmit].

Example C04_front_nonvacuous_front :
  regs_compile (fr_filter x_cfg) x_nobad /\ buckets_ok x_cfg /\
  snd (front x_cfg x_nobad x_M x_jlen x_ws) = StopNone /\
  map m_id x_out = [0; 1; 3; 4; 6; 7; 8; 9]%N /\
  map m_pkey x_out = [""; "public.a"; "public.d"; "public.a"; "public.d"; "public.a"; "public.d"; ""] /\
  map w_id (filter (fun w => negb (passes x_cfg x_M w)) x_ws) = [2; 5]%N /\
  quick_hash "public.a" 2 = Some 0%N /\ quick_hash "public.d" 2 = Some 1%N.
Proof.
  split; [intros H; discriminate H|]. split; [intros H; discriminate H|].
  vm_compute. repeat split; reflexivity.
Qed.

Example C04_front_nonvacuous_mid :
  let st := prun x_bc x_mid in
  workers_ok x_bc /\ fed_of x_mid = x_out /\
  dead (p_b st) = false /\ p_failed st = false /\
  rec_ids (p_accepted st) = [1; 4]%N /\ open_ids (p_b st) = [7; 3; 8]%N /\
  map w_id (filter (sel x_cfg x_M x_jlen (accepted x_bc)) x_ws) = [1; 3; 4; 7; 8]%N.
Proof. split; [unfold workers_ok; simpl; lia|]. vm_compute. repeat split; reflexivity. Qed.

Example C04_front_nonvacuous_quiescent :
  let st := prun x_bc x_all in
  fed_of x_all = x_out /\ prefix (fed_of x_all) x_out /\ NoDup (map w_id x_ws) /\
  c_routing x_bc = ByPartition /\
  dead (p_b st) = false /\ p_failed st = false /\ queued (p_queues st) = [] /\ open_ids (p_b st) = [] /\
  (* the sink accepted the permitted changes that the limits accept: 2 and 5 removed by the filter, 6 too big *)
  rec_ids (p_accepted st) = [1; 4; 3; 8; 7]%N /\
  map w_id (filter (sel x_cfg x_M x_jlen (accepted x_bc)) x_ws) = [1; 3; 4; 7; 8]%N /\
  drops_big (p_b st) = 1%N /\ map w_id (filter (sel x_cfg x_M x_jlen (is_big x_bc)) x_ws) = [6]%N /\
  (* per key: WAL order, although worker 1's batch overtook the second batch of public.a *)
  rec_ids (items_of (for_key "public.a" (accepted_batches x_bc x_all))) = [1; 4; 7]%N /\
  map w_id (filter (fun w => sel x_cfg x_M x_jlen (accepted x_bc) w && has_key x_cfg "public.a" w) x_ws) = [1; 4; 7]%N /\
  rec_ids (items_of (for_key "public.d" (accepted_batches x_bc x_all))) = [3; 8]%N /\
  map w_id (filter (fun w => sel x_cfg x_M x_jlen (accepted x_bc) w && has_key x_cfg "public.d" w) x_ws) = [3; 8]%N /\
  (* every accepted record carries its relation as Kinesis partition key *)
  map r_pk (p_accepted st) = ["public.a"; "public.a"; "public.d"; "public.d"; "public.a"] /\
  p_acked st = [109]%N.
Proof.
  split; [vm_compute; reflexivity|]. split; [exists []; vm_compute; reflexivity|].
  split.
  { vm_compute. repeat (constructor; [simpl; intros H; repeat (destruct H as [H|H]; [discriminate|]); exact H|]). constructor. }
  vm_compute. repeat split; reflexivity.
Qed.

(* a stage that stops: the second item of the regexp whitelist did not compile (nil *Regexp); the first
   change that does not match the first item dereferences it.  What left the marshaller before is still right,
   and the hypothesis of the composition theorems holds for every initial segment of it. *)
Definition y_cfg := mkFront (true, true, ["^public\.a$"; "["]) PBucket 3.
Definition y_bad (it : string) := String.eqb it "[".
Definition y_M (it rel : string) := String.eqb it "^public\.a$" && String.eqb rel "public.a".
Example C04_front_stage_stops :
  let '(o, s) := front y_cfg y_bad y_M x_jlen x_ws in
  map m_id o = [0; 1]%N /\ s = StopFilter /\ map w_id (consumed y_cfg y_bad y_M x_ws) = [0; 1]%N /\
  map m_pkey o = ["2"; "2"] /\ (crc32 "750" mod 3 = 2)%N.
Proof. vm_compute. repeat split; reflexivity. Qed.

(* zero buckets with transaction-bucket: the partitioner divides by zero on the first message *)
Example C04_front_partitioner_stops :
  front (mkFront (false, false, []) PBucket 0) x_nobad x_M x_jlen x_ws = ([], StopPartition).
Proof. reflexivity. Qed.
