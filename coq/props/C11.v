(* C11 — Kinesis: written means every record was accepted; only failures are retried.
   "The Kinesis worker reports a batch as written only after every record of the batch has been
    accepted by PutRecords (no error code) in some call.  After a partially failed call exactly the
    failed records are sent again, in their original relative order and unmodified; records already
    accepted are not resent unless the whole call failed.  If the retry budget is exhausted or
    shutdown is requested, nothing is reported written."
   For all batch sizes and all sequences of PutRecords outcomes (whole-call errors, any subset of
   per-record failures at any attempt, success), including cancellation between attempts.

   This file holds only statements closed by [exact], their assumptions, and non-vacuity examples.
   Vocabulary (proofs/KinesisRetryProofs.v): a trace is the list of sink calls (request ids, answer);
   accepted_ids c   = ids of c whose response entry has no ErrorCode (nothing if the call erred);
   next_request c   = ids of c whose response entry has an ErrorCode; all of c if the call erred;
   call_failed c    = the code's own test: err != nil or FailedRecordCount != 0;
   resp_wf c        = the AWS response contract: one response entry per request record and
                      FailedRecordCount = number of entries with an ErrorCode (whole-call errors are
                      ordinary errors).  The property quantifies over exactly these answers.
   A script shorter than the calls the code makes gives RPending, so each statement also covers
   every prefix of every execution.  No bound on batch size, script length or budget anywhere. *)
From Bifrost.model Require Import Base KinesisRetry.
From Bifrost.proofs Require Import KinesisRetryProofs.

(* (1) written => every record of the batch had no error code in some call of the trace.
   Premise: the answers obey the AWS contract.  Outside it the statement is false, see
   C11_written_all_accepted_outside_contract_refuted below. *)
Theorem C11_written_all_accepted : forall n ctx recs script tr cx,
  transport_with_retry n ctx recs script = (tr, RWritten, cx) ->
  forallb resp_wf tr = true ->
  forall r, In r recs -> exists c, In c tr /\ In r (accepted_ids c).
Proof. exact kinesis_written_all_accepted. Qed.
Print Assumptions C11_written_all_accepted.

(* (2) retry exactness, no hypothesis on the answers at all: the first call carries the whole
   batch; call k+1 exists only after a failed call k and carries call k unchanged if the whole
   call erred, else exactly the records of call k that had an error code, in order; every call is
   a subsequence of the batch (relative order kept, nothing invented). *)
Theorem C11_retry_exact : forall n ctx recs script tr res cx,
  transport_with_retry n ctx recs script = (tr, res, cx) ->
  (forall c tl, tr = c :: tl -> fst c = recs) /\
  (forall k c1 c2, nth_error tr k = Some c1 -> nth_error tr (S k) = Some c2 ->
                   call_failed c1 = true /\ fst c2 = next_request c1) /\
  (forall c, In c tr -> Subseq (fst c) recs).
Proof. exact kinesis_retry_exact. Qed.
Print Assumptions C11_retry_exact.

(* (3) a record accepted in some call is in no later call (distinct record identities). *)
Theorem C11_accepted_not_resent : forall n ctx recs script tr res cx,
  transport_with_retry n ctx recs script = (tr, res, cx) -> NoDup recs ->
  forall j k cj ck r, nth_error tr j = Some cj -> In r (accepted_ids cj) -> j < k ->
                      nth_error tr k = Some ck -> ~ In r (fst ck).
Proof. exact kinesis_accepted_not_resent. Qed.
Print Assumptions C11_accepted_not_resent.

(* (4) budget exhausted (n+1 failed calls under backoff.WithMaxRetries(_, n)) or shutdown requested
   while the batch was not yet fully accepted (before the first attempt, or during a call that
   failed) => not reported written. *)
Theorem C11_no_false_written : forall n ctx recs script tr res cx,
  transport_with_retry n ctx recs script = (tr, res, cx) ->
  S (N.to_nat n) <= List.length (filter call_failed tr) \/ shutdown_while_unaccepted ctx script tr ->
  res <> RWritten.
Proof. exact kinesis_no_false_written. Qed.
Print Assumptions C11_no_false_written.

(* (5) written exactly when the last call of the trace passed the code's success test; all
   calls before the last one failed. *)
Theorem C11_written_iff_last_call_succeeded : forall n ctx recs script tr res cx,
  transport_with_retry n ctx recs script = (tr, res, cx) ->
  (res = RWritten <-> exists tr0 c, tr = tr0 ++ [c] /\ call_failed c = false) /\
  (forall tr0 c, tr = tr0 ++ [c] -> forallb call_failed tr0 = true).
Proof. exact kinesis_written_iff. Qed.
Print Assumptions C11_written_iff_last_call_succeeded.

(* (6) a budget of n retries gives at most n+1 calls. *)
Theorem C11_attempts_bounded : forall n ctx recs script tr res cx,
  transport_with_retry n ctx recs script = (tr, res, cx) -> List.length tr <= S (N.to_nat n).
Proof. exact kinesis_attempts_bounded. Qed.
Print Assumptions C11_attempts_bounded.

(* (7) no sink call is started after shutdown was requested. *)
Theorem C11_no_call_after_shutdown : forall n ctx recs script tr res cx,
  transport_with_retry n ctx recs script = (tr, res, cx) ->
  (ctx = true -> tr = [] /\ res = RCancelled) /\
  (forall i s, nth_error script i = Some s -> S i < List.length tr -> s_cancel s = false).
Proof. exact kinesis_no_call_after_shutdown. Qed.
Print Assumptions C11_no_call_after_shutdown.

(* (8) the transporter loop over any list of batches: a written report for batch j means every
   record of batch j was accepted in a call made for batch j. *)
Theorem C11_transporter_written_all_accepted : forall n ctx bs reps e j b rep,
  transporter n ctx bs = (reps, e) ->
  nth_error bs j = Some b -> nth_error reps j = Some rep -> r_written rep = true ->
  forallb resp_wf (r_calls rep) = true ->
  forall r, In r (b_recs b) -> exists c, In c (r_calls rep) /\ In r (accepted_ids c).
Proof. exact kinesis_transporter_written_all_accepted. Qed.
Print Assumptions C11_transporter_written_all_accepted.

(* (9) report j is the run of transportWithRetry on batch j with a fresh budget (so (1)-(7) hold
   of it), it is a written report exactly if that run ended RWritten, and a batch that is not
   reported written is the last thing the transporter touches: no later batch is taken, and
   unless the sink is still blocking the transporter has terminated (fail-stop). *)
Theorem C11_transporter_reports : forall n ctx bs reps e j rep,
  transporter n ctx bs = (reps, e) -> nth_error reps j = Some rep ->
  exists b res cx, nth_error bs j = Some b /\
    transport_with_retry n (b_pre b) (b_recs b) (b_script b) = (r_calls rep, res, cx) /\
    (r_written rep = true <-> res = RWritten) /\
    (r_written rep = false -> List.length reps = S j /\ (res <> RPending -> e <> TRunning)) /\
    (forall i ri, i < j -> nth_error reps i = Some ri -> r_written ri = true).
Proof. exact kinesis_transporter_reports. Qed.
Print Assumptions C11_transporter_reports.

(* (10) once shutdown has been requested (before the start, before a batch's first attempt, or
   during any call, successful or not) no later batch is taken. *)
Theorem C11_transporter_shutdown_final : forall n ctx bs reps e,
  transporter n ctx bs = (reps, e) ->
  (ctx = true -> reps = [] /\ e = TStopped) /\
  (forall j b rep, nth_error bs j = Some b -> nth_error reps j = Some rep ->
     shutdown_requested (b_pre b) (b_script b) (r_calls rep) -> List.length reps = S j).
Proof. exact kinesis_transporter_shutdown_final. Qed.
Print Assumptions C11_transporter_shutdown_final.

(* ---- outside the AWS response contract ----
   Full statement without the hypothesis (false on the faithful model):
     forall n ctx recs script tr cx, transport_with_retry n ctx recs script = (tr, RWritten, cx) ->
       forall r, In r recs -> exists c, In c tr /\ In r (accepted_ids c).
   The code decides success on *pro.FailedRecordCount == 0 alone and never looks at the ErrorCodes
   of such a response: an answer with count 0 and an error code on record 2 makes the batch written
   although record 2 was never accepted.  AWS documents FailedRecordCount as the number of entries
   with an error, so this answer is outside the property's quantifier; corpus/KINESIS/
   illformed_count0_with_errorcode.json replays it on the real transporter. *)
Theorem C11_written_all_accepted_outside_contract_refuted :
  let script := [mkStep (Resp 0 [false; true]) false] in
  let tr := [([1; 2]%N, Resp 0 [false; true])] in
  transport_with_retry 3 false [1; 2]%N script = (tr, RWritten, false) /\
  forallb resp_wf tr = false /\
  In 2%N [1; 2]%N /\ forall c, In c tr -> ~ In 2%N (accepted_ids c).
Proof.
  cbv zeta. split; [reflexivity|]. split; [reflexivity|]. split; [right; now left|].
  intros c [<-|[]]. vm_compute. intros [H|[]]. discriminate.
Qed.
Print Assumptions C11_written_all_accepted_outside_contract_refuted.

(* the opposite inconsistency, count > 0 with no error code: every record was accepted, the code
   sends an EMPTY PutRecords request next (real Kinesis rejects that: whole-call error until the
   budget is gone: fail-stop although everything was accepted; C11 itself is not violated) *)
Example C11_outside_contract_count_without_codes :
  transport_with_retry 3 false [1; 2]%N
    [mkStep (Resp 2 [false; false]) false; mkStep (Resp 0 []) false] =
  ([([1; 2]%N, Resp 2 [false; false]); ([], Resp 0 [])], RWritten, false).
Proof. reflexivity. Qed.

(* ---- non-vacuity ---- *)

(* (1),(2),(3),(5): a contract-respecting run with a partial failure, a whole-call error, another
   partial failure and a success is reported written *)
Example C11_nonvacuous_written :
  let script := [mkStep (Resp 2 [false; true; true; false]) false; mkStep (WholeErr false) false;
                 mkStep (Resp 1 [true; false]) false; mkStep (Resp 0 [false]) false] in
  let tr := [([1; 2; 3; 4]%N, Resp 2 [false; true; true; false]); ([2; 3]%N, WholeErr false);
             ([2; 3]%N, Resp 1 [true; false]); ([2]%N, Resp 0 [false])] in
  transport_with_retry 3 false [1; 2; 3; 4]%N script = (tr, RWritten, false) /\
  forallb resp_wf tr = true /\ NoDup [1; 2; 3; 4]%N.
Proof.
  cbv zeta. split; [reflexivity|]. split; [reflexivity|].
  repeat constructor; simpl; intuition discriminate.
Qed.

(* (4) first disjunct, (6): budget 1 = two calls; both fail; exhausted, not written *)
Example C11_nonvacuous_exhausted :
  let script := [mkStep (Resp 1 [false; true]) false; mkStep (WholeErr false) false;
                 mkStep (Resp 0 [false]) false] in
  transport_with_retry 1 false [1; 2]%N script =
    ([([1; 2]%N, Resp 1 [false; true]); ([2]%N, WholeErr false)], RExhausted, false) /\
  S (N.to_nat 1) <= List.length (filter call_failed (fst (fst (transport_with_retry 1 false [1; 2]%N script)))).
Proof. cbv zeta. split; [reflexivity|]. vm_compute. lia. Qed.

(* (4) second disjunct, (7): shutdown requested during a partially failed call: the next
   attempt sees it, nothing more is sent, not written *)
Example C11_nonvacuous_cancelled :
  let script := [mkStep (Resp 1 [false; true]) true; mkStep (Resp 0 [false]) false] in
  let tr := [([1; 2]%N, Resp 1 [false; true])] in
  transport_with_retry 5 false [1; 2]%N script = (tr, RCancelled, true) /\
  shutdown_while_unaccepted false script tr.
Proof.
  cbv zeta. split; [reflexivity|]. right.
  exists 0, ([1; 2]%N, Resp 1 [false; true]), (mkStep (Resp 1 [false; true]) true). auto.
Qed.

(* the length-mismatch panic and a nil count are reachable and end the transporter *)
Example C11_panic_reachable :
  transporter 3 false [mkBatch [1; 2]%N false [mkStep (Resp 1 [true]) false];
                       mkBatch [3]%N false [mkStep (Resp 0 [false]) false]] =
    ([mkRep [([1; 2]%N, Resp 1 [true])] false], TPanicked) /\
  transporter 3 false [mkBatch [1]%N false [mkStep NilResp false]] =
    ([mkRep [([1]%N, NilResp)] false], TPanicked).
Proof. split; reflexivity. Qed.

(* (8),(9),(10): three batches; the second is written after a retry while shutdown is requested
   during its successful call: it is still reported (its records were accepted), the third batch
   is never taken; the budget is fresh for every batch *)
Example C11_nonvacuous_transporter :
  transporter 1 false
    [mkBatch [1; 2]%N false [mkStep (WholeErr false) false; mkStep (Resp 0 [false; false]) false];
     mkBatch [3; 4]%N false [mkStep (Resp 1 [true; false]) false; mkStep (Resp 0 [false]) true];
     mkBatch [5]%N false [mkStep (Resp 0 [false]) false]] =
  ([mkRep [([1; 2]%N, WholeErr false); ([1; 2]%N, Resp 0 [false; false])] true;
    mkRep [([3; 4]%N, Resp 1 [true; false]); ([3]%N, Resp 0 [false])] true], TStopped).
Proof. reflexivity. Qed.

(* (9): fail-stop after exhaustion: the second batch is never taken *)
Example C11_nonvacuous_failstop :
  transporter 0 false
    [mkBatch [1; 2]%N false [mkStep (Resp 1 [true; false]) false];
     mkBatch [3]%N false [mkStep (Resp 0 [false]) false]] =
  ([mkRep [([1; 2]%N, Resp 1 [true; false])] false], TStopped).
Proof. reflexivity. Qed.
