(* C12 — S3: one complete, correctly keyed object per written batch.
   This file holds only statements closed by [exact], their assumptions, refutation witnesses
   and non-vacuity examples.

   gzip is an external actor: [gzip] is universally quantified and [gunzip (gzip x) = Some x]
   (klauspost/pgzip output is readable by a gzip reader and yields the input) is the only
   hypothesis about it.  The sink is a script per batch: failures that read any number of bytes,
   a success reads the reader to EOF.  [run] quantifies over any worker state [w], any sequence
   of batches, any bufMaxReuse, any retry budget, any key space. *)
From Bifrost.model Require Import Base S3.
From Bifrost.proofs Require Import S3Proofs.

(* ---- body ---- *)

(* A batch is reported written only if one PutObject call succeeded, it is the last call for the
   batch, every other call failed, its reader stood at offset 0, and the bytes it consumed gunzip
   to exactly json_1 "\n" json_2 "\n" ... of THIS batch — also after failed attempts that read any
   prefix, and whatever buffers were reused or recreated before. *)
Theorem C12_body : forall (gzip : string -> string) (gunzip : string -> option string),
  (forall x, gunzip (gzip x) = Some x) ->
  forall ks max_reuse retries w bs i b res,
  nth_error bs i = Some b ->
  nth_error (run gzip ks max_reuse retries w bs) i = Some res ->
  r_outcome res = Written ->
  exists a, In a (r_atts res) /\ a_ok a = true /\ a_off a = O /\
            gunzip (a_read a) = Some (plain (b_msgs b)) /\
            (forall x, In x (r_atts res) -> x <> a -> a_ok x = false).
Proof. exact body_written. Qed.
Print Assumptions C12_body.

(* Every PutObject call of every processed batch — first try or retry, reused or fresh buffer —
   is handed a reader at offset 0 over gzip(this batch's records); what a sink reads is a prefix
   of that; the key is the one computed from this batch's first record and upload time. *)
Theorem C12_every_attempt_from_zero : forall (gzip : string -> string) ks max_reuse retries w bs i b res a,
  nth_error bs i = Some b ->
  nth_error (run gzip ks max_reuse retries w bs) i = Some res ->
  In a (r_atts res) ->
  a_off a = O /\ a_body a = gzip (plain (b_msgs b)) /\
  (exists n, a_read a = stake n (a_body a)) /\
  exists m0, hd_error (b_msgs b) = Some m0 /\ a_key a = s3_key ks (b_time b) (m_lsn m0).
Proof. exact every_attempt. Qed.
Print Assumptions C12_every_attempt_from_zero.

(* records without a raw newline (every JSON text): the lines of the object are the records, in order *)
Theorem C12_one_record_per_line : forall ms,
  (forall m, In m ms -> sall notnl (m_json m) = true) ->
  lines_of (plain ms) "" = map m_json ms.
Proof. exact lines_of_plain. Qed.
Print Assumptions C12_one_record_per_line.

(* at most maxRetries + 1 calls per batch; giving up means exactly that many, all failed *)
Theorem C12_retry_budget : forall (gzip : string -> string) ks max_reuse retries w bs i res,
  nth_error (run gzip ks max_reuse retries w bs) i = Some res ->
  (List.length (r_atts res) <= S (N.to_nat retries))%nat /\
  (r_outcome res = RetriesExhausted ->
     List.length (r_atts res) = S (N.to_nat retries) /\ forall a, In a (r_atts res) -> a_ok a = false).
Proof. exact retry_budget. Qed.
Print Assumptions C12_retry_budget.

(* the only panic of the worker on GenericBatch input: an empty batch (messagesSlice[0]); nothing
   is uploaded or reported *)
Theorem C12_empty_batch_panics : forall (gzip : string -> string) ks max_reuse retries w bs i b res,
  nth_error bs i = Some b ->
  nth_error (run gzip ks max_reuse retries w bs) i = Some res ->
  (r_outcome res = PanicEmptyBatch <-> b_msgs b = []) /\
  (r_outcome res = PanicEmptyBatch -> r_atts res = []).
Proof. exact empty_batch_panics. Qed.
Print Assumptions C12_empty_batch_panics.

(* the reuse rule as coded, and its effect on what the reader sees: none *)
Theorem C12_reuse_rule : forall (gzip : string -> string) max_reuse w data,
  (let w' := prepare max_reuse w in
   if (w_used w + 1 >? max_reuse)%Z
   then w_used w' = 0%Z /\ w_buf w' = w_fresh w /\ w_gz w' = w_fresh w /\ w_fresh w' = (w_fresh w + 1)%N
   else w_used w' = (w_used w + 1)%Z /\ w_buf w' = w_buf w /\ w_gz w' = w_gz w /\ w_fresh w' = w_fresh w) /\
  w_content (write_close gzip (prepare max_reuse w) data) = gzip data.
Proof. intros. split; [exact (prepare_rule max_reuse w)|exact (prepare_write gzip max_reuse w data)]. Qed.
Print Assumptions C12_reuse_rule.

(* ---- key ---- *)

(* utils.RealTime.DateString on any instant of years 0..9999 gives five non-empty digit strings,
   the last of length 14 *)
Theorem C12_clock_wellformed : forall Y M D h mi s,
  (Y < 10000)%N -> (M < 100)%N -> (D < 100)%N -> (h < 100)%N -> (mi < 100)%N -> (s < 100)%N ->
  wf_time (date_string Y M D h mi s) = true.
Proof. exact date_string_wf. Qed.
Print Assumptions C12_clock_wellformed.

(* The key format, at full strength, for EVERY key space (spec_key = the property's text:
   [key space; yyyy; mm; dd; hh; full ++ "_" ++ dec lsn], every component stripped of surrounding
   slashes, empty or slash-only ones — of any length — omitted, joined by "/", then ".gz").
   Before fix 2b60f29 (finding F7) this was false for key spaces "//", "///", ...: key_join tested
   emptiness before trimming and the key started with "/".  fixed: commit 2b60f29. *)
Theorem C12_key_format : forall ks t lsn,
  wf_time t = true -> s3_key ks t lsn = spec_key ks t lsn.
Proof. exact key_format. Qed.
Print Assumptions C12_key_format.

(* the same key spelled out: the key space contributes nothing if it is slash-only (of any
   length, also empty), else its slash-stripped text and a "/" *)
Theorem C12_key_full : forall ks t lsn, wf_time t = true ->
  s3_key ks t lsn =
  ((if slash_only ks then "" else strip ks ++ "/") ++
   t_year t ++ "/" ++ t_month t ++ "/" ++ t_day t ++ "/" ++ t_hour t ++ "/" ++
   t_full t ++ "_" ++ dec lsn ++ ".gz")%string.
Proof. intros. rewrite s3_key_full by assumption. unfold comp, slash_only, dir_of. now rewrite !sapp_assoc. Qed.
Print Assumptions C12_key_full.

(* omission rule: an empty or slash-only key space of any length leaves no trace in the key *)
Theorem C12_key_omission : forall ks t lsn, wf_time t = true -> slash_only ks = true ->
  s3_key ks t lsn =
  (t_year t ++ "/" ++ t_month t ++ "/" ++ t_day t ++ "/" ++ t_hour t ++ "/" ++
   t_full t ++ "_" ++ dec lsn ++ ".gz")%string.
Proof. intros. rewrite (key_omission ks t lsn) by assumption. unfold dir_of. now rewrite !sapp_assoc. Qed.
Print Assumptions C12_key_omission.

(* same key space (ANY spelling): equal keys force equal upload second and
   equal first LSN *)
Theorem C12_key_injective : forall ks t1 t2 l1 l2,
  wf_time t1 = true -> wf_time t2 = true ->
  s3_key ks t1 l1 = s3_key ks t2 l2 -> t_full t1 = t_full t2 /\ l1 = l2.
Proof. exact key_injective. Qed.
Print Assumptions C12_key_injective.

(* "batches that differ in first record or in upload second never share a key" *)
Corollary C12_keys_distinct : forall ks t1 t2 l1 l2,
  wf_time t1 = true -> wf_time t2 = true ->
  t_full t1 <> t_full t2 \/ l1 <> l2 -> s3_key ks t1 l1 <> s3_key ks t2 l2.
Proof. intros ks t1 t2 l1 l2 H1 H2 D E. destruct (key_injective ks t1 t2 l1 l2 H1 H2 E). tauto. Qed.
Print Assumptions C12_keys_distinct.

(* ---- non-vacuity ---- *)

(* a concrete compressor satisfying the gzip contract *)
Definition ex_gzip (x : string) : string := ("GZ" ++ x)%string.
Definition ex_gunzip (s : string) : option string :=
  match s with String "G" (String "Z" r) => Some r | _ => None end.
Example C12_ex_gzip_contract : forall x, ex_gunzip (ex_gzip x) = Some x.
Proof. reflexivity. Qed.

(* a 3-batch sequence through one worker with bufMaxReuse 1 (reuse, then recreate), a partial
   read followed by a retry in the first batch, a failed read of everything in the second *)
Definition ex_time := date_string 2026 9 30 12 4 5.
Definition ex_batches : list binput :=
  [ mkB [mkMsg "{""id"":1}" 4711; mkMsg "{""id"":2}" 4712] ex_time CNone [SFail 5; SFail 0; SOk];
    mkB [mkMsg "{""id"":3}" 4800] ex_time CNone [SFail 1000];
    mkB [mkMsg "{""id"":4}" 4900] (date_string 2026 9 30 12 4 6) CNone [] ].
Example C12_body_nonvacuous :
  let rs := run ex_gzip "/wal/" 1 2 init_worker ex_batches in
  map r_outcome rs = [Written; Written; Written] /\
  map (fun r => List.length (r_atts r)) rs = [3; 2; 1]%nat /\
  map r_buf rs = [0; 1; 1]%N /\ map r_used rs = [1; 0; 1]%Z /\
  map (fun r => map a_read (r_atts r)) rs =
    [ ["GZ{""i"; ""; ex_gzip (plain [mkMsg "{""id"":1}" 4711; mkMsg "{""id"":2}" 4712])];
      [ex_gzip (plain [mkMsg "{""id"":3}" 4800]); ex_gzip (plain [mkMsg "{""id"":3}" 4800])];
      [ex_gzip (plain [mkMsg "{""id"":4}" 4900])] ] /\
  map (fun r => map a_key (r_atts r)) rs =
    [ ["wal/2026/09/30/12/20260930120405_4711.gz"; "wal/2026/09/30/12/20260930120405_4711.gz";
       "wal/2026/09/30/12/20260930120405_4711.gz"];
      ["wal/2026/09/30/12/20260930120405_4800.gz"; "wal/2026/09/30/12/20260930120405_4800.gz"];
      ["wal/2026/09/30/12/20260930120406_4900.gz"] ].
Proof. vm_compute. repeat split. Qed.

(* the hypothesis of the key theorems holds of a real clock reading; the key for the key-space
   spellings of the property: "", "/", "//", "///" are omitted, the others stripped *)
Example C12_key_nonvacuous :
  wf_time ex_time = true /\
  map slash_only [""; "/"; "//"; "///"; "a"; "/a/"; "a/b//"] = [true; true; true; true; false; false; false] /\
  map (fun ks => s3_key ks ex_time 4711) [""; "/"; "//"; "///"; "a"; "/a/"; "a/b//"; "///x"] =
    [ "2026/09/30/12/20260930120405_4711.gz"; "2026/09/30/12/20260930120405_4711.gz";
      "2026/09/30/12/20260930120405_4711.gz"; "2026/09/30/12/20260930120405_4711.gz";
      "a/2026/09/30/12/20260930120405_4711.gz"; "a/2026/09/30/12/20260930120405_4711.gz";
      "a/b/2026/09/30/12/20260930120405_4711.gz"; "x/2026/09/30/12/20260930120405_4711.gz" ] /\
  map (fun ks => spec_key ks ex_time 4711) ["//"; "/a/"] =
    [ "2026/09/30/12/20260930120405_4711.gz"; "a/2026/09/30/12/20260930120405_4711.gz" ].
Proof. vm_compute. repeat split. Qed.

(* cancellation as coded: seen only by the worker's one check before the upload, it does not
   stop the upload; the batch is uploaded and NOT reported, and the worker then returns *)
Example C12_cancel_as_coded :
  map r_outcome (run ex_gzip "a" 5 1 init_worker
    [ mkB [mkMsg "{}" 1] ex_time CBeforeCheck [SFail 1; SOk]; mkB [mkMsg "{}" 2] ex_time CNone [] ])
  = [UploadedNotReported] /\
  map r_outcome (run ex_gzip "a" 5 1 init_worker
    [ mkB [mkMsg "{}" 1] ex_time CDuringUpload [SOk]; mkB [mkMsg "{}" 2] ex_time CNone [] ])
  = [Written] /\
  run ex_gzip "a" 5 1 init_worker [ mkB [mkMsg "{}" 1] ex_time CBeforeRecv [] ] = [].
Proof. vm_compute. repeat split. Qed.
