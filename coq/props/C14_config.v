(* C14_config.v — what "the synchronous producer accepted every message" rests on in the PRODUCTION
   configuration of the sarama producer (transport/transporters/kafka, re-read from the source text on
   every run by translator/wiring.go into gen/GenWiring.v).  model/Kafka.v takes SendMessages' answer as
   the broker's verdict; that is only true if the producer waits for the broker: RequiredAcks must not be
   sarama.NoResponse (with acks = 0 SendMessages returns success once the request is on the socket), and a
   SyncProducer needs Return.Successes and Return.Errors.  C01 leans on the same fact ("accepted by the
   sink"). *)
From Bifrost.model Require Import Base.
From Bifrost.gen Require Import GenWiring.

Definition waits_for_broker (v : string) : bool :=
  String.eqb v "sarama.WaitForLocal" || String.eqb v "sarama.WaitForAll".

Theorem C14_producer_waits_for_the_broker :
  forallb waits_for_broker kafka_required_acks_assigned = true /\
  kafka_return_successes = "true" /\ kafka_return_errors = "true".
Proof. repeat split; reflexivity. Qed.
Print Assumptions C14_producer_waits_for_the_broker.
