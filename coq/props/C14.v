(* C14 — Kafka: written only on full producer success, otherwise fail-stop.
   "The Kafka worker reports a batch as written only if the synchronous producer accepted every
   message of the batch; if the producer reports any failed message, or shutdown was requested
   first, nothing is reported written and the worker stops the process rather than continuing
   with a hole.  Each produced message carries the record's JSON as value and the key dictated by
   the configured Kafka partition method; messages above the producer's size limit are dropped
   but still counted."
   Quantifier: all batches, all subsets of messages the producer may reject, all five partition
   methods and size limits.

   This file holds only statements closed by [exact], their assumptions, and non-vacuity examples.
   Vocabulary (proofs/KafkaProofs.v): a script [sc] is the list of (batch, cancellation point,
   producer result) the worker meets; [transport sc] is the run of StartTransporting; [r_obs] has
   one entry per batch the worker got to look at: what SendMessages received (if called) and what
   went onto txnsWritten (if anything).  [reached sc i]: every batch before i was a Kafka batch
   fully accepted without any cancellation. *)
From Bifrost.model Require Import Base Kafka.
From Bifrost.proofs Require Import KafkaProofs.

(* ---------------- transporter ---------------- *)

(* Batch i is reported written iff the worker got to it, the producer accepted every message and no
   cancellation was observed before the send; and then what is reported is the batch's own
   transactions map, after exactly the batch's payload was handed to the producer. *)
Theorem C14_written_iff : forall sc i s, nth_error sc i = Some s ->
  (written_at (transport sc) i <> None <->
   reached sc i /\ is_kafka_batch s /\ producer_accepted_all s /\ ~ cancelled_before_send s) /\
  (forall t, written_at (transport sc) i = Some t ->
     exists cfg ms, s_batch s = TKafka cfg ms /\ t = b_txns (build cfg ms) /\
                    sent_at (transport sc) i = Some (b_msgs (build cfg ms))).
Proof. exact transport_written_iff. Qed.
Print Assumptions C14_written_iff.

(* Any failure (ProducerErrors for ANY subset — even the empty one —, a foreign error type that
   makes the type assertion panic, a batch of the wrong type) at any position of any script:
   that batch is not reported written, StartTransporting has returned, the terminate context is
   cancelled, the producer was closed exactly once, txnsWritten is closed, and no later batch is
   looked at — hence neither sent nor reported.  No [S <> []] hypothesis is needed. *)
Theorem C14_fail_stop : forall sc i s, nth_error sc i = Some s -> failure s ->
  let r := transport sc in
  written_at r i = None /\
  r_stopped r = true /\ r_terminated r = true /\ r_closes r = 1%N /\ r_chan_closed r = true /\
  (forall j, i < j -> obs_at r j = None) /\
  (reached sc i -> List.length (r_obs r) = S i).
Proof. exact transport_fail_stop. Qed.
Print Assumptions C14_fail_stop.

(* No hole, whatever the reason (failure or shutdown requested first): a batch the worker got to
   and did not report written is the last one it ever looks at, and the process is told to stop. *)
Theorem C14_no_hole : forall sc i s, nth_error sc i = Some s -> reached sc i ->
  let r := transport sc in
  written_at r i = None ->
  List.length (r_obs r) = S i /\ r_stopped r = true /\ r_terminated r = true /\
  r_closes r = 1%N /\ r_chan_closed r = true.
Proof. exact transport_no_hole. Qed.
Print Assumptions C14_no_hole.

(* The converse side of fail-stop: a script in which every batch is accepted leaves the worker
   waiting for input with the context intact and the producer open ("stopped" is not vacuous). *)
Theorem C14_alive_when_all_accepted : forall sc, forallb continues sc = true ->
  let r := tloop false sc in
  List.length (r_obs r) = List.length sc /\ r_stopped r = false /\ r_terminated r = false /\
  r_closes r = 0%N /\ r_chan_closed r = false.
Proof. exact alive_at_end. Qed.
Print Assumptions C14_alive_when_all_accepted.

(* ---------------- messages ---------------- *)

(* Every message in the payload of a batch built by any sequence of Add calls carries the JSON of
   one of the batch's data messages as value, the key its method dictates, the configured topic,
   and is within the size limit. *)
Theorem C14_message : forall cfg ms p, In p (b_msgs (build cfg ms)) ->
  exists m, In m ms /\ is_control m = false /\
    p_value p = m_json m /\ p_topic p = c_topic cfg /\
    p_key p = match c_method cfg with
              | KTxn => Some (m_tbk m)
              | KTxnConst => Some (m_txn m)
              | KBatch => Some (c_uuid cfg)
              | KTableName => Some (m_table m)
              | KRandom => None
              end /\
    (36 + klen (p_key p) + slen (p_value p) <= c_max_bytes cfg)%Z.
Proof. exact build_payload_message. Qed.
Print Assumptions C14_message.

(* Exact, order preserving form: the payload is the image, in order, of exactly the data messages
   whose Add returned Ok. *)
Theorem C14_message_exact : forall cfg ms,
  b_msgs (build cfg ms) =
  map (fun p => to_pmsg cfg (fst p))
      (filter (fun p => appended (fst p) (snd p)) (combine ms (snd (add_run cfg empty_batch ms)))).
Proof. exact build_payload_exact. Qed.
Print Assumptions C14_message_exact.

(* The same for what the producer actually receives in any run. *)
Theorem C14_sent_messages : forall sc i l p, sent_at (transport sc) i = Some l -> In p l ->
  exists s cfg ms m, nth_error sc i = Some s /\ s_batch s = TKafka cfg ms /\ ~ cancelled_before_send s /\
    l = b_msgs (build cfg ms) /\ In m ms /\ is_control m = false /\
    p_value p = m_json m /\ p_key p = key_for cfg m /\ p_topic p = c_topic cfg.
Proof. exact transport_sent_messages. Qed.
Print Assumptions C14_sent_messages.

(* ---------------- size rule ---------------- *)

(* For a data message offered to a batch that is not full: above the limit it is dropped (payload
   and byte size untouched) but counted; otherwise it is appended (and counted). *)
Theorem C14_size_rule : forall cfg b m,
  is_control m = false -> num_msgs b <> c_max_batch cfg ->
  let size := (36 + klen (key_for cfg m) + slen (m_json m))%Z in
  ((size > c_max_bytes cfg)%Z ->
     exists b', add cfg b m = (b', ATooBig) /\
       b_msgs b' = b_msgs b /\ b_bytes b' = b_bytes b /\
       count_of (m_tbk m) (b_txns b') = (count_of (m_tbk m) (b_txns b) + 1)%Z) /\
  ((size <= c_max_bytes cfg)%Z ->
     exists b', add cfg b m = (b', AOk) /\
       b_msgs b' = b_msgs b ++ [to_pmsg cfg m] /\ b_bytes b' = (b_bytes b + slen (m_json m))%Z /\
       count_of (m_tbk m) (b_txns b') = (count_of (m_tbk m) (b_txns b) + 1)%Z).
Proof. exact add_size_rule_counted. Qed.
Print Assumptions C14_size_rule.

(* BEGIN/COMMIT and Adds to a full batch change nothing, not even a count. *)
Theorem C14_add_ignored : forall cfg b m,
  (is_control m = true -> add cfg b m = (b, AOk)) /\
  (is_control m = false -> num_msgs b = c_max_batch cfg -> add cfg b m = (b, AFull)).
Proof. exact add_ignored. Qed.
Print Assumptions C14_add_ignored.

(* ---------------- count conservation ---------------- *)

(* For every delivery key, the count in the batch's transactions map is the number of Add calls
   for data messages of that key that returned Ok or TooBig. *)
Theorem C14_count_conservation : forall cfg ms k,
  count_of k (b_txns (build cfg ms)) = tally k ms (snd (add_run cfg empty_batch ms)).
Proof. exact build_count_conservation. Qed.
Print Assumptions C14_count_conservation.

(* ... and each delivery key is listed once. *)
Theorem C14_txn_keys_unique : forall cfg ms, NoDup (map fst (b_txns (build cfg ms))).
Proof. exact build_txn_keys_nodup. Qed.
Print Assumptions C14_txn_keys_unique.

(* ---------------- non-vacuity ---------------- *)

Definition ex_cfg (m : kmethod) : kcfg := mkKCfg "bifrost" 3 60 m "0f0e0d0c-0b0a-4908-8706-050403020100".
Definition ex_msg (json tbk txn : string) : kmsg := mkKMsg "INSERT" json tbk txn "public.t".
(* key "public.t" is 8 bytes: 36 + 8 + 16 = 60 fits, 36 + 8 + 17 = 61 does not *)
Definition ex_msgs : list kmsg :=
  [ mkKMsg "BEGIN" "" "700-1" "700" "";
    ex_msg "{""a"":""12345678""}" "700-1" "700";
    ex_msg "{""a"":""123456789""}" "700-1" "700";
    ex_msg "{}" "701-2" "701";
    mkKMsg "COMMIT" "" "701-2" "701" "";
    ex_msg "{""b"":1}" "701-2" "701";
    ex_msg "{""c"":1}" "701-2" "701" ].

(* all three results occur; the too-big message is absent from the payload but counted *)
Example C14_batch_nonvacuous :
  snd (add_run (ex_cfg KTableName) empty_batch ex_msgs) = [AOk; AOk; ATooBig; AOk; AOk; AOk; AFull] /\
  map p_value (b_msgs (build (ex_cfg KTableName) ex_msgs)) = ["{""a"":""12345678""}"; "{}"; "{""b"":1}"] /\
  map p_key (b_msgs (build (ex_cfg KTableName) ex_msgs)) = [Some "public.t"; Some "public.t"; Some "public.t"] /\
  b_txns (build (ex_cfg KTableName) ex_msgs) = [("700-1", ("700", 2%Z)); ("701-2", ("701", 2%Z))] /\
  tally "700-1" ex_msgs (snd (add_run (ex_cfg KTableName) empty_batch ex_msgs)) = 2%Z.
Proof. vm_compute. repeat split; reflexivity. Qed.

(* the five methods give five different keys for the same message *)
Example C14_five_methods :
  map (fun m => p_key (to_pmsg (ex_cfg m) (ex_msg "{}" "701-2" "701")))
      [KTxn; KTxnConst; KBatch; KTableName; KRandom] =
  [Some "701-2"; Some "701"; Some "0f0e0d0c-0b0a-4908-8706-050403020100"; Some "public.t"; None].
Proof. reflexivity. Qed.

(* both premises of the size rule are satisfiable on the same non-full batch *)
Example C14_size_rule_nonvacuous :
  let cfg := ex_cfg KTableName in
  let b := build cfg [ex_msg "{}" "701-2" "701"] in
  num_msgs b <> c_max_batch cfg /\
  (36 + klen (key_for cfg (ex_msg "{""a"":""123456789""}" "700-1" "700")) + slen "{""a"":""123456789""}" > c_max_bytes cfg)%Z /\
  (36 + klen (key_for cfg (ex_msg "{""a"":""12345678""}" "700-1" "700")) + slen "{""a"":""12345678""}" <= c_max_bytes cfg)%Z.
Proof. vm_compute. repeat split; discriminate. Qed.

(* a three-batch script whose second batch has its message 1 rejected *)
Definition ex_step (r : presult) (c : cpoint) : tstep :=
  mkStep (TKafka (ex_cfg KTxn) [ex_msg "{}" "700-1" "700"; ex_msg "{}" "701-2" "701"]) c r.
Definition ex_script : list tstep := [ex_step PAllOk CNone; ex_step (PFailed [1]) CNone; ex_step PAllOk CNone].

Example C14_fail_stop_nonvacuous :
  nth_error ex_script 1 = Some (ex_step (PFailed [1]) CNone) /\
  failure (ex_step (PFailed [1]) CNone) /\ reached ex_script 1 /\
  written_at (transport ex_script) 0 = Some [("700-1", ("700", 1%Z)); ("701-2", ("701", 1%Z))] /\
  (exists l, sent_at (transport ex_script) 1 = Some l /\ List.length l = 2) /\
  written_at (transport ex_script) 1 = None /\
  obs_at (transport ex_script) 2 = None /\
  r_stats (transport ex_script) =
    [("success", 1%Z); ("duration", 0%Z); ("written", 2%Z); ("failure", 1%Z); ("duration", 0%Z)].
Proof.
  split; [reflexivity|]. split.
  - split; [intros [H|H]; discriminate H|]. right; left. now exists [1].
  - split; [reflexivity|]. split; [reflexivity|]. split; [eexists; split; reflexivity|].
    repeat split; reflexivity.
Qed.

(* shutdown requested first: nothing sent, nothing written, worker stops *)
Example C14_cancel_before_send_nonvacuous :
  let r := transport [ex_step PAllOk CBeforeSend; ex_step PAllOk CNone] in
  reached [ex_step PAllOk CBeforeSend; ex_step PAllOk CNone] 0 /\
  sent_at r 0 = None /\ written_at r 0 = None /\ List.length (r_obs r) = 1 /\ r_stopped r = true.
Proof. vm_compute. repeat split; reflexivity. Qed.

(* the boundary of "requested first": a cancellation that arrives while SendMessages runs does not
   take back a fully accepted batch — it is reported written, and the worker stops afterwards *)
Example C14_cancel_during_send_is_written :
  let r := transport [ex_step PAllOk CDuringSend; ex_step PAllOk CNone] in
  written_at r 0 <> None /\ List.length (r_obs r) = 1 /\ r_stopped r = true /\ r_terminated r = true.
Proof. vm_compute. repeat split; discriminate. Qed.

(* the type assertion panic path and the wrong-batch panic path end the same way *)
Example C14_panic_paths :
  failure (ex_step POther CNone) /\ failure (mkStep TNotKafka CNone PAllOk) /\
  r_stats (transport [ex_step POther CNone]) = [] /\
  r_stopped (transport [mkStep TNotKafka CNone PAllOk]) = true.
Proof.
  split; [split; [intros [H|H]; discriminate H|right; right; reflexivity]|].
  split; [split; [intros [H|H]; discriminate H|left; intros (c & m & H); discriminate H]|].
  split; reflexivity.
Qed.
