(* Rabbit.v — model of transport/transporters/rabbitmq/transporter/transporter.go:
   transportWithRetry / setupChannel / closeHandler / sendMessages / waitForConfirmations,
   i.e. the publisher-confirm accounting of the RabbitMQ worker.  Definitions only.

   What is modelled
   * transporter state: channel present? (t.channel != nil), was a closeHandler started for it?,
     has its NotifyClose channel fired?, t.channelConfirms, the content of t.publishNotify
     (FIFO of confirmations delivered by the broker and not yet consumed);
   * broker side of the current channel: next delivery tag (AMQP: tags count from 1 per channel,
     every accepted publish on a confirm-mode channel takes the next tag, confirmations arrive
     in tag order, each ack or nack) — spec side, trusted;
   * broker behaviour = two explicit scripts: [ps] one action per call of Channel.Publish (in
     global call order), [ss] one action per setupChannel that has to open a channel.  An
     exhausted script continues with the benign default (ack / success);
   * retry budget: backoff.Retry with backoff.WithMaxRetries(_, R): the operation runs at most
     R+1 times per batch; when NextBackOff says Stop the worker stops (fail-stop);
   * ghost bookkeeping: every queued confirmation carries the publish it answers
     (channel, batch index, message index, attempt); every consumption is logged with the batch
     during which it was consumed.

   Timing.  The worker consumes confirmations only inside waitForConfirmations and looks at the
   close notification only in the selects of sendMessages/waitForConfirmations, so the *time* at
   which a confirmation is delivered is invisible to it: only the order in the FIFO matters
   (delayed and batched deliveries give the same FIFO).  Timing matters only relative to a
   closure.  Closures are therefore attached to script points:
     PErr true       the Publish call fails and the channel closes;
     PSilentClose    the Publish call succeeds (tag taken) and then the channel closes; no
                     confirmation of it or of anything still queued is ever delivered;
     PConf _ true    the channel closes right after the worker has read this confirmation; the
                     confirmations behind it are lost.
   A closure discards what is still queued.  This covers every outcome of Go's random choice
   in `select { <-publishNotify ; <-closeNotify }` (reading k buffered confirmations and then the
   closure = closure flag on the k-th).  closeHandler (the goroutine that sets t.channel = nil)
   is modelled as running between two attempts (handler_step).  Its unsynchronised write of
   t.channel / t.closeNotify / t.publishNotify while the main loop reads them is a data race of
   the real code and is OUTSIDE this model; so is context cancellation. *)
From Bifrost.model Require Import Base.

Record msg := mkMsg { m_table : string; m_op : string; m_body : string }.

Definition routing_key (m : msg) : string := (m_table m ++ "." ++ m_op m)%string.
Definition persistent : N := 2%N.   (* amqp.Persistent *)

(* ---- broker oracle ---- *)
Inductive pact :=
| PConf (ack close_after : bool)
| PErr (close : bool)
| PSilentClose.

Inductive sact := SOk | SConnErr | SChanErr | SConfirmErr.

(* a confirmation in publishNotify, with the ghost identity of the publish it answers *)
Record conf := mkConf {
  c_tag : N; c_ack : bool; c_close : bool;
  c_chan : N; c_b : nat; c_m : nat; c_att : nat }.

Inductive event :=
| ESetup (k : sact) (chan : N)                       (* a setupChannel that had to open a channel *)
| EPub (chan tag : N) (b m att : nat) (verdict : option bool)
                                                     (* accepted publish; verdict = the broker's
                                                        answer (None: none, channel closed) *)
| EPubErr (chan : N) (b m att : nat)                 (* Publish returned an error *)
| ECons (c : conf) (cur : nat)                       (* confirmation read while working on batch cur *)
| EAttemptFail (b att : nat) (cf : N) (qlen : nat)   (* operation returned an error *)
| EWritten (b : nat) (cf : N) (qlen : nat)           (* batch reported on txnsWritten *)
| EGiveUp (b : nat).                                 (* retries exhausted: worker stops *)

Record rst := mkSt {
  has_chan : bool;       (* t.channel != nil *)
  handler : bool;        (* a closeHandler goroutine listens on this channel's NotifyClose *)
  closed : bool;         (* the NotifyClose channel of the current channel has fired *)
  confirms : N;          (* t.channelConfirms *)
  next_tag : N;          (* broker: delivery tag of the next publish on the current channel *)
  chan_id : N;           (* channels opened so far; the current channel's id *)
  queue : list conf;     (* t.publishNotify *)
  ps : list pact;
  ss : list sact;
  tr : list event }.     (* newest first *)

Definition init_st (ps : list pact) (ss : list sact) : rst :=
  mkSt false false false 0 1 0 [] ps ss [].

Definition emit (e : event) (s : rst) : rst :=
  mkSt (has_chan s) (handler s) (closed s) (confirms s) (next_tag s) (chan_id s) (queue s) (ps s) (ss s) (e :: tr s).
Definition set_queue (q : list conf) (s : rst) : rst :=
  mkSt (has_chan s) (handler s) (closed s) (confirms s) (next_tag s) (chan_id s) q (ps s) (ss s) (tr s).
Definition set_confirms (c : N) (s : rst) : rst :=
  mkSt (has_chan s) (handler s) (closed s) c (next_tag s) (chan_id s) (queue s) (ps s) (ss s) (tr s).
Definition set_ps (p : list pact) (s : rst) : rst :=
  mkSt (has_chan s) (handler s) (closed s) (confirms s) (next_tag s) (chan_id s) (queue s) p (ss s) (tr s).
Definition set_ss (x : list sact) (s : rst) : rst :=
  mkSt (has_chan s) (handler s) (closed s) (confirms s) (next_tag s) (chan_id s) (queue s) (ps s) x (tr s).
Definition bump_tag (s : rst) : rst :=
  mkSt (has_chan s) (handler s) (closed s) (confirms s) (next_tag s + 1) (chan_id s) (queue s) (ps s) (ss s) (tr s).
(* the channel closes: NotifyClose fires, whatever is still queued is lost *)
Definition close_chan (s : rst) : rst :=
  mkSt (has_chan s) (handler s) true (confirms s) (next_tag s) (chan_id s) [] (ps s) (ss s) (tr s).
(* setupChannel's body when t.channel == nil and conn.Channel() succeeded *)
Definition fresh_chan (h : bool) (s : rst) : rst :=
  mkSt true h false 0 1 (chan_id s + 1) [] (ps s) (ss s) (tr s).
(* closeHandler: t.channel = nil *)
Definition handler_step (s : rst) : rst :=
  if has_chan s && closed s && handler s
  then mkSt false false false (confirms s) (next_tag s) (chan_id s) [] (ps s) (ss s) (tr s)
  else s.

Definition pop_p (s : rst) : pact * rst :=
  match ps s with [] => (PConf true false, s) | a :: r => (a, set_ps r s) end.
Definition pop_s (s : rst) : sact * rst :=
  match ss s with [] => (SOk, s) | a :: r => (a, set_ss r s) end.

(* ---- setupChannel: (state, success?) ---- *)
Definition setup (s : rst) : rst * bool :=
  if has_chan s then (s, true) else
  let (a, s1) := pop_s s in
  match a with
  | SOk => (emit (ESetup SOk (chan_id s1 + 1)) (fresh_chan true s1), true)
  | SConfirmErr =>
      (* t.channel is already assigned, confirms reset, notifications registered; Confirm fails
         and the function returns before `go closeHandler` *)
      (emit (ESetup SConfirmErr (chan_id s1 + 1)) (fresh_chan false s1), false)
  | SConnErr => (emit (ESetup SConnErr (chan_id s1)) s1, false)
  | SChanErr => (emit (ESetup SChanErr (chan_id s1)) s1, false)
  end.

(* ---- sendMessages over the slice [ms] (message indices of batch b): (state, success?) ---- *)
Fixpoint send (b att : nat) (ms : list nat) (s : rst) : rst * bool :=
  match ms with
  | [] => (s, true)
  | m :: r =>
      if closed s then (s, false)                    (* case <-t.closeNotify *)
      else
        let (a, s1) := pop_p s in
        match a with
        | PConf ack cl =>
            let c := mkConf (next_tag s1) ack cl (chan_id s1) b m att in
            send b att r
              (emit (EPub (chan_id s1) (next_tag s1) b m att (Some ack))
                    (bump_tag (set_queue (queue s1 ++ [c]) s1)))
        | PErr cl =>
            (emit (EPubErr (chan_id s1) b m att) (if cl then close_chan s1 else s1), false)
        | PSilentClose =>
            send b att r
              (emit (EPub (chan_id s1) (next_tag s1) b m att None) (close_chan (bump_tag s1)))
        end
  end.

(* ---- waitForConfirmations ---- *)
Inductive wres := WDone | WFail (remaining : N) | WBlocked.

(* [q] is the content of publishNotify; it is written back to the state on exit *)
Fixpoint wait_loop (cur : nat) (desired : N) (q : list conf) (s : rst) : rst * wres :=
  if (desired <=? confirms s)%N then (set_queue q s, WDone)
  else
    let remaining := (desired - confirms s)%N in
    if closed s then (set_queue q s, WFail remaining)          (* case <-t.closeNotify *)
    else match q with
    | [] => (set_queue [] s, WBlocked)                           (* nothing will ever arrive *)
    | c :: q' =>
        let s1 := emit (ECons c cur) s in
        if c_ack c then
          let s2 := set_confirms (c_tag c) s1 in                 (* assignment, not increment *)
          if c_close c then
            let s3 := close_chan s2 in
            if (desired <=? c_tag c)%N then (s3, WDone) else (s3, WFail (desired - c_tag c)%N)
          else wait_loop cur desired q' s2
        else ((if c_close c then close_chan s1 else set_queue q' s1), WFail remaining)
    end.

(* ---- one run of `operation` ---- *)
Inductive ares := AOk | AFail (remaining : N) | ABlocked.

Definition attempt (b att : nat) (ms : list nat) (s : rst) : rst * ares :=
  let (s1, ok) := setup s in
  if negb ok then (s1, AFail 0) else
  let (s2, ok2) := send b att ms s1 in
  if negb ok2 then (s2, AFail 0) else
  let desired := (N.of_nat (List.length ms) + confirms s2)%N in
  let (s3, w) := wait_loop b desired (queue s2) s2 in
  match w with
  | WDone => (s3, AOk)
  | WFail r => (s3, AFail r)
  | WBlocked => (s3, ABlocked)
  end.

(* ---- backoff.Retry(operation, WithMaxRetries(_, retries)) ---- *)
Inductive bres := BWritten | BGiveUp | BBlocked | BPanic.

Fixpoint attempts (retries : nat) (b att : nat) (ms : list nat) (s : rst) : rst * bres :=
  let (s1, r) := attempt b att ms s in
  match r with
  | AOk => (handler_step s1, BWritten)
  | ABlocked => (s1, BBlocked)
  | AFail rem =>
      (* messagesSlice = messagesSlice[len-remaining:]  — slice bounds panic if remaining > len *)
      if (N.of_nat (List.length ms) <? rem)%N then (s1, BPanic) else
      let ms' := if (0 <? rem)%N then skipn (List.length ms - N.to_nat rem) ms else ms in
      let s2 := handler_step s1 in
      let s3 := emit (EAttemptFail b att (confirms s2) (List.length (queue s2))) s2 in
      match retries with
      | O => (emit (EGiveUp b) s3, BGiveUp)
      | S k => attempts k b (S att) ms' s3
      end
  end.

(* ---- StartTransporting over a sequence of batches given by their sizes ---- *)
Inductive fin := FDone | FTerminated | FBlocked | FPanic.

Fixpoint run_batches (retries : nat) (b : nat) (sizes : list nat) (s : rst) : rst * fin :=
  match sizes with
  | [] => (s, FDone)
  | n :: r =>
      let (s1, res) := attempts retries b 0 (seq 0 n) s in
      match res with
      | BWritten =>
          run_batches retries (S b) r (emit (EWritten b (confirms s1) (List.length (queue s1))) s1)
      | BGiveUp => (s1, FTerminated)
      | BBlocked => (s1, FBlocked)
      | BPanic => (s1, FPanic)
      end
  end.

Definition run (retries : nat) (sizes : list nat) (ps : list pact) (ss : list sact) : rst * fin :=
  run_batches retries 0 sizes (init_st ps ss).

(* chronological trace *)
Definition trace (retries : nat) (sizes : list nat) (ps : list pact) (ss : list sact) : list event :=
  rev (tr (fst (run retries sizes ps ss))).

(* ---- observable projection: what the harness sees of the real worker ---- *)
Inductive robs :=
| OSetup (k : sact) (chan : N)
| OPub (chan tag : N) (exch key body : string) (mode : N)
| OPubErr (chan : N) (exch key body : string) (mode : N)
| OFail (cf : N) (qlen : nat)
| OWritten (b : nat) (cf : N) (qlen : nat)
| OGiveUp.

Definition lookup (bs : list (list msg)) (b m : nat) : msg :=
  nth m (nth b bs []) (mkMsg "?" "?" "?").

Definition obs_of (exch : string) (bs : list (list msg)) (e : event) : list robs :=
  match e with
  | ESetup k ch => [OSetup k ch]
  | EPub ch tag b m _ _ =>
      let x := lookup bs b m in [OPub ch tag exch (routing_key x) (m_body x) persistent]
  | EPubErr ch b m _ =>
      let x := lookup bs b m in [OPubErr ch exch (routing_key x) (m_body x) persistent]
  | ECons _ _ => []
  | EAttemptFail _ _ cf q => [OFail cf q]
  | EWritten b cf q => [OWritten b cf q]
  | EGiveUp _ => [OGiveUp]
  end.

Definition observe (exch : string) (retries : nat) (bs : list (list msg)) (ps : list pact) (ss : list sact)
  : list robs * fin :=
  let (s, f) := run retries (map (@List.length msg) bs) ps ss in
  (flat_map (obs_of exch bs) (rev (tr s)), f).

(* ---- equality tests ---- *)
Definition sact_eqb (a b : sact) : bool :=
  match a, b with
  | SOk, SOk | SConnErr, SConnErr | SChanErr, SChanErr | SConfirmErr, SConfirmErr => true
  | _, _ => false
  end.
Definition robs_eqb (a b : robs) : bool :=
  match a, b with
  | OSetup k c, OSetup k' c' => sact_eqb k k' && (c =? c')%N
  | OPub c t e k bd m, OPub c' t' e' k' bd' m' =>
      (c =? c')%N && (t =? t')%N && String.eqb e e' && String.eqb k k' && String.eqb bd bd' && (m =? m')%N
  | OPubErr c e k bd m, OPubErr c' e' k' bd' m' =>
      (c =? c')%N && String.eqb e e' && String.eqb k k' && String.eqb bd bd' && (m =? m')%N
  | OFail c q, OFail c' q' => (c =? c')%N && Nat.eqb q q'
  | OWritten b c q, OWritten b' c' q' => Nat.eqb b b' && (c =? c')%N && Nat.eqb q q'
  | OGiveUp, OGiveUp => true
  | _, _ => false
  end.
Definition fin_eqb (a b : fin) : bool :=
  match a, b with
  | FDone, FDone | FTerminated, FTerminated | FBlocked, FBlocked | FPanic, FPanic => true
  | _, _ => false
  end.

(* ---- correspondence case: (exchange, retries, batches, publish script, setup script,
        observed events, observed end) ---- *)
Definition rcase :=
  (string * nat * list (list msg) * list pact * list sact * list robs * fin)%type.

Definition rcase_ok (c : rcase) : bool :=
  let '(exch, retries, bs, p, s, obs, f) := c in
  let (mobs, mf) := observe exch retries bs p s in
  list_eqb robs_eqb mobs obs && fin_eqb mf f.

(* ---- boolean readings of the trace used by the refutation witnesses and examples ---- *)
Definition written_in (t : list event) (b : nat) : bool :=
  existsb (fun e => match e with EWritten b' _ _ => Nat.eqb b b' | _ => false end) t.
(* some accepted publish of message (b, m) was positively confirmed by the broker *)
Definition acked_pub_in (t : list event) (b m : nat) : bool :=
  existsb (fun e => match e with
                    | EPub _ _ b' m' _ (Some true) => Nat.eqb b b' && Nat.eqb m m'
                    | _ => false end) t.
(* a positive confirmation of a publish of (b, m) made for b was read while working on b *)
Definition consumed_ack_in (t : list event) (b m : nat) : bool :=
  existsb (fun e => match e with
                    | ECons c cur => c_ack c && Nat.eqb (c_b c) b && Nat.eqb (c_m c) m && Nat.eqb cur b
                    | _ => false end) t.
Definition cross_counted_in (t : list event) : bool :=
  existsb (fun e => match e with ECons c cur => negb (Nat.eqb (c_b c) cur) | _ => false end) t.
