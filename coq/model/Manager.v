(* Manager.v — model of replication/client/conn/manager.go (definitions only): getConn makes a new
   connection (and, for GetConnWithStartLsn, issues START_REPLICATION at the LSN it is given) only
   when it holds none or the one it holds reports closed; Close forgets the connection. *)
From Bifrost.model Require Import Base.

Inductive mop :=
| MGetStart (lsn : N)    (* GetConnWithStartLsn(ctx, lsn) *)
| MGetPlain              (* GetConn(ctx) *)
| MClose                 (* Close() *)
| MKill.                 (* the connection held dies (IsClosed() becomes true) without Close() *)

(* None: no connection object; Some b: an object whose IsClosed() = negb b *)
Record mstate := mkMst { m_conn : option bool; m_connects : N; m_starts : list N }.
Definition minit : mstate := mkMst None 0 [].

Definition need_new (s : mstate) : bool := match m_conn s with Some true => false | _ => true end.

Definition mstep (s : mstate) (o : mop) : mstate :=
  match o with
  | MGetStart lsn => if need_new s then mkMst (Some true) (m_connects s + 1) (m_starts s ++ [lsn]) else s
  | MGetPlain => if need_new s then mkMst (Some true) (m_connects s + 1) (m_starts s) else s
  | MClose => mkMst None (m_connects s) (m_starts s)
  | MKill => match m_conn s with Some _ => mkMst (Some false) (m_connects s) (m_starts s) | None => s end
  end.

Definition mrun (ops : list mop) : mstate := fold_left mstep ops minit.

(* correspondence: ops; observed number of connections accepted by the server and the LSNs of the
   START_REPLICATION commands it received, after all ops *)
Definition mgcase := (list mop * N * list N)%type.
Definition mgcase_ok (c : mgcase) : bool :=
  let '(ops, conns, starts) := c in
  let s := mrun ops in
  (m_connects s =? conns)%N && list_eqb N.eqb (m_starts s) starts.
