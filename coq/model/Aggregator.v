(* Aggregator.v — model of stats/aggregator/aggregator.go + aggregate.go (+ stats/stat.go).
   Definitions only.

   Two goroutines share  aggregates : map[int64]map[string]*aggregate  under one mutex.
   * processStatsMessagesWorker, per stat s:
       key := computeAggregateKey(s); bucketTime := window * (s.Timestamp / window);
       if isBtimeExpired(bucketTime) { drop; continue }          -- event  Check s now   (NO lock held;
                                                                    now = the clock reading of the test)
       lock; create bucket / aggregate or update; unlock          -- event  Insert s
   * reportAggregatesWorker, every 250 ms:
       lock; for every bucket with isBtimeExpired: send all its aggregates; delete those buckets; unlock
                                                                  -- event  Scan now
   An execution is a list of events; Scans may fall between a Check and its Insert (the race the
   property asks about).  [wf_from] says when a list is an interleaving of ONE ingest goroutine
   ((Check, Insert?)* with Insert present iff the Check did not drop) with scans, clock readings
   non-decreasing.

   Numbers: int64 quantities are Z.  Outside the modelled domain (stated in the theorems / here):
   * int64 overflow of the running sum, of bucketTime + window + grace;
   * avg: Go computes float64(value)/float64(count) and reports int64(avg).  For |value| < 2^53 both
     conversions are exact, the quotient is correctly rounded, and since |value| < 2^53 the rounding
     cannot reach the next integer, so int64(avg) = value quot count (truncation toward zero, also for
     negative sums).  The model is [Z.quot]; the bound is the domain.
   * Go's integer division truncates toward zero: bucketTime = w * (ts quot w).  For ts >= 0, w > 0 this
     is the floor, bucket <= ts < bucket + w.  For -w < ts < 0 the quotient is 0: bucket 0 then covers
     (-w, w), twice the width (UnixNano timestamps are >= 0, so outside the property's domain; the model
     is faithful there too because it uses [Z.quot]).
   * Every Go panic is explicit: window = 0 (integer divide by zero in the ingest worker) and a stat
     type other than "count"/"histogram" (update / toStats panic "unrecognized statType"). *)
From Bifrost.model Require Import Base.
Open Scope Z_scope.

Definition max_int64 : Z := 9223372036854775807.
Definition min_int64 : Z := -9223372036854775808.
(* aggregator.go: reportGraceNano (tied to gen/GenConsts.v in props/C19.v) *)
Definition grace : Z := 1000000000.
(* stat.go: Count / Histogram *)
Definition ty_count : string := "count".
Definition ty_hist : string := "histogram".

(* stats.Stat; also the type of the stats sent to the output channel *)
Record stat := mkStat {
  s_comp : string; s_name : string; s_type : string; s_unit : string; s_value : Z; s_ts : Z }.

(* aggregate (avg is a function of value and count at every point where it is read:
   it is recomputed by every update of a histogram and only reported for histograms) *)
Record agg := mkAgg {
  a_comp : string; a_name : string; a_type : string; a_unit : string;
  a_value : Z; a_count : Z; a_min : Z; a_max : Z; a_ts : Z }.

(* computeAggregateKey (after fix 7beb2ab): for each of the four fields in order,
   strconv.Itoa(len(field)) ++ ":" ++ field   (len = number of bytes) *)
Definition lenpfx (f : string) : string :=
  (dec (N.of_nat (String.length f)) ++ ":" ++ f)%string.
Definition akey (s : stat) : string :=
  (lenpfx (s_comp s) ++ lenpfx (s_name s) ++ lenpfx (s_type s) ++ lenpfx (s_unit s))%string.

Definition bucket_time (w ts : Z) : Z := w * Z.quot ts w.

(* isBtimeExpired: timeNow > bucketTime + aggregateTimeNano + reportGraceNano *)
Definition expired (w bt now : Z) : bool := bt + w + grace <? now.

Definition known_type (t : string) : bool := String.eqb t ty_count || String.eqb t ty_hist.

Definition new_agg (s : stat) (bt : Z) : agg :=
  mkAgg (s_comp s) (s_name s) (s_type s) (s_unit s) 0 0 max_int64 min_int64 bt.

(* aggregate.update: value and count first, then the switch on the AGGREGATE's type
   (a panic in the default branch leaves value and count updated: see [update_panics]) *)
Definition update (a : agg) (s : stat) : agg :=
  let v := a_value a + s_value s in
  let c := a_count a + 1 in
  if String.eqb (a_type a) ty_hist
  then mkAgg (a_comp a) (a_name a) (a_type a) (a_unit a) v c
             (if s_value s <? a_min a then s_value s else a_min a)
             (if a_max a <? s_value s then s_value s else a_max a) (a_ts a)
  else mkAgg (a_comp a) (a_name a) (a_type a) (a_unit a) v c (a_min a) (a_max a) (a_ts a).

Definition update_panics (a : agg) : bool := negb (known_type (a_type a)).

(* int64(a.avg), a.avg = float64(value)/float64(count) *)
Definition avg_of (a : agg) : Z := Z.quot (a_value a) (a_count a).

(* aggregate.toStats; None = panic("unrecognized statType") *)
Definition to_stats (a : agg) : option (list stat) :=
  let main := mkStat (a_comp a) (a_name a) (a_type a) (a_unit a) (a_value a) (a_ts a) in
  if String.eqb (a_type a) ty_count then Some [main]
  else if String.eqb (a_type a) ty_hist then
    Some [ main;
           mkStat (a_comp a) (a_name a ++ "_avg")%string (a_type a) (a_unit a) (avg_of a) (a_ts a);
           mkStat (a_comp a) (a_name a ++ "_max")%string (a_type a) (a_unit a) (a_max a) (a_ts a);
           mkStat (a_comp a) (a_name a ++ "_min")%string (a_type a) (a_unit a) (a_min a) (a_ts a) ]
  else None.

(* ---- map[int64]map[string]*aggregate as association lists (order not observable) ---- *)
Definition bucket := list (string * agg).
Definition buckets := list (Z * bucket).

Fixpoint zget (k : Z) (m : buckets) : option bucket :=
  match m with
  | [] => None
  | (k', v) :: r => if k =? k' then Some v else zget k r
  end.
Fixpoint zset (k : Z) (v : bucket) (m : buckets) : buckets :=
  match m with
  | [] => [(k, v)]
  | (k', v') :: r => if k =? k' then (k', v) :: r else (k', v') :: zset k v r
  end.

(* the locked section of processStatsMessagesWorker; the bool says that update panicked
   (the new aggregate is already in the map then, with value and count updated) *)
Definition insert (w : Z) (s : stat) (st : buckets) : buckets * bool :=
  let k := akey s in
  let bt := bucket_time w (s_ts s) in
  match zget bt st with
  | None =>                                             (* new bucket *)
      let a := new_agg s bt in (zset bt [(k, update a s)] st, update_panics a)
  | Some m =>
      match aget k m with
      | Some a => (zset bt (aset k (update a s) m) st, update_panics a)   (* existing aggregate *)
      | None => let a := new_agg s bt in                                   (* existing bucket only *)
                (zset bt (aset k (update a s) m) st, update_panics a)
      end
  end.

(* one report entry = (bucket time, key in the bucket, the aggregate sent) *)
Definition entry := (Z * string * agg)%type.

Definition entries_of (b : Z * bucket) : list entry := map (fun p => (fst b, fst p, snd p)) (snd b).

(* the locked section of reportAggregatesWorker: report every expired bucket, then delete them *)
Definition scan_report (w now : Z) (st : buckets) : list entry :=
  flat_map entries_of (filter (fun b => expired w (fst b) now) st).
Definition scan_keep (w now : Z) (st : buckets) : buckets :=
  filter (fun b => negb (expired w (fst b) now)) st.
Definition scan_panics (w now : Z) (st : buckets) : bool :=
  existsb (fun e => negb (known_type (a_type (snd e)))) (scan_report w now st).

(* ---- events and runs ---- *)
Inductive ev :=
| Check (s : stat) (now : Z)
| Insert (s : stat)
| Scan (now : Z).

Inductive out :=
| OPass                        (* Check: bucket not expired, the Insert follows *)
| ODrop                        (* Check: bucket expired at this reading, stat dropped *)
| OInserted
| OReport (r : list entry)     (* Scan: what was sent (order = Go map iteration, not observable) *)
| OPanic.                      (* the goroutine panicked; shutdown() follows, the run ends here *)

(* (state, output, panicked) *)
Definition astep (w : Z) (st : buckets) (e : ev) : buckets * out * bool :=
  match e with
  | Check s now =>
      if w =? 0 then (st, OPanic, true)              (* integer divide by zero *)
      else if expired w (bucket_time w (s_ts s)) now then (st, ODrop, false) else (st, OPass, false)
  | Insert s =>
      let '(st', p) := insert w s st in
      if p then (st', OPanic, true) else (st', OInserted, false)
  | Scan now =>
      if scan_panics w now st then (st, OPanic, true)
      else (scan_keep w now st, OReport (scan_report w now st), false)
  end.

Fixpoint arun (w : Z) (st : buckets) (evs : list ev) : buckets * list out * bool :=
  match evs with
  | [] => (st, [], false)
  | e :: r =>
      let '(st', o, p) := astep w st e in
      if p then (st', [o], true)
      else let '(st'', os, p') := arun w st' r in (st'', o :: os, p')
  end.

(* ---- well-formed interleavings ---- *)
Definition stat_eqb (a b : stat) : bool :=
  String.eqb (s_comp a) (s_comp b) && String.eqb (s_name a) (s_name b) &&
  String.eqb (s_type a) (s_type b) && String.eqb (s_unit a) (s_unit b) &&
  (s_value a =? s_value b) && (s_ts a =? s_ts b).

Definition drops (w : Z) (s : stat) (now : Z) : bool := expired w (bucket_time w (s_ts s)) now.

(* pend = the stat that passed its Check and has not been inserted yet; last = last clock reading *)
Fixpoint wf_from (w : Z) (pend : option stat) (last : Z) (evs : list ev) : bool :=
  match evs with
  | [] => true
  | Check s now :: r =>
      match pend with
      | Some _ => false
      | None => (last <=? now) && wf_from w (if drops w s now then None else Some s) now r
      end
  | Insert s :: r =>
      match pend with
      | Some s' => stat_eqb s s' && wf_from w None last r
      | None => false
      end
  | Scan now :: r => (last <=? now) && wf_from w pend now r
  end.

(* the stat in flight between Check and Insert when the history ends, if any *)
Fixpoint pending_from (w : Z) (pend : option stat) (evs : list ev) : option stat :=
  match evs with
  | [] => pend
  | Check s now :: r => pending_from w (if drops w s now then None else Some s) r
  | Insert _ :: r => pending_from w None r
  | Scan _ :: r => pending_from w pend r
  end.

Definition wf (w : Z) (evs : list ev) : bool :=
  match evs with
  | [] => true
  | Check _ now :: _ => wf_from w None now evs
  | Scan now :: _ => wf_from w None now evs
  | Insert _ :: _ => false
  end.

(* ---- correspondence ---- *)
Definition agg_eqb (a b : agg) : bool :=
  String.eqb (a_comp a) (a_comp b) && String.eqb (a_name a) (a_name b) &&
  String.eqb (a_type a) (a_type b) && String.eqb (a_unit a) (a_unit b) &&
  (a_value a =? a_value b) && (a_count a =? a_count b) &&
  (a_min a =? a_min b) && (a_max a =? a_max b) && (a_ts a =? a_ts b).
Definition entry_eqb (x y : entry) : bool :=
  (fst (fst x) =? fst (fst y)) && String.eqb (snd (fst x)) (snd (fst y)) && agg_eqb (snd x) (snd y).

(* multiset equality (Go map iteration order is not an observable) *)
Definition count_of {A} (eqb : A -> A -> bool) (x : A) (l : list A) : nat :=
  List.length (filter (eqb x) l).
Definition mset_eqb {A} (eqb : A -> A -> bool) (a b : list A) : bool :=
  Nat.eqb (List.length a) (List.length b) &&
  forallb (fun x => Nat.eqb (count_of eqb x a) (count_of eqb x b)) a.

(* the harness writes, for every stat, [Check s now] and (at the place where the locked section
   would run) [Insert s]; whether the stat was dropped is decided HERE by the model's Check:
   the Insert of a dropped stat is removed.  The real decision shows in reports and snapshot. *)
Fixpoint prune_from (w : Z) (dropped : bool) (evs : list ev) : list ev :=
  match evs with
  | [] => []
  | Check s now :: r => Check s now :: prune_from w (if w =? 0 then false else drops w s now) r
  | Insert s :: r => if dropped then prune_from w false r else Insert s :: prune_from w false r
  | Scan now :: r => Scan now :: prune_from w dropped r
  end.

(* stats sent by the scans of a run, one list per Scan; a panicking toStats cannot occur in an
   OReport (scan_panics is tested first), [] stands in *)
Definition sent_of (o : out) : list (list stat) :=
  match o with
  | OReport r => [flat_map (fun e => match to_stats (snd e) with Some l => l | None => [] end) r]
  | _ => []
  end.

Definition open_entries (st : buckets) : list entry := flat_map entries_of st.

(* case = (window, events as written by the harness, stats received on the output channel per
   Scan, final open aggregates, whether a goroutine panicked) *)
Definition acase := (Z * list ev * list (list stat) * list entry * bool)%type.

Definition acase_ok (c : acase) : bool :=
  let '(w, evs0, sent, opened, panicked) := c in
  let evs := prune_from w false evs0 in
  let '(st, outs, p) := arun w [] evs in
  wf w evs &&
  list_eqb (mset_eqb stat_eqb) (flat_map sent_of outs) sent &&
  mset_eqb entry_eqb (open_entries st) opened &&
  Bool.eqb p panicked.
