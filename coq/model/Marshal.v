(* Marshal.v -- model of marshaller/marshaller.go: marshalWalToJson (decision table, LSN, time,
   the package-level pools) and the Start loop as a stage.  Definitions only.

   Go maps are association lists (Base.aget/aset/adel); the encoder's key order is Json.sort_kv.
   Pr.Columns is iterated in an order Go does not specify: here it is the order of the list
   [ch_cols] (MarshalProofs shows the rendering does not depend on it for distinct names).

   Domain notes (all observed on the real code, see harness/comp/marshal):
   * ServerTime is an int64 of milliseconds; the code multiplies by 1000000 in int64, which wraps
     for |ms| > 9223372036854 (year 2262 / 1677).  [fmt_time] models the wrap ([wrap64]), so it is
     exact for every int64; it denotes the instant of ServerTime only without wrap.
   * negative ServerTime is rendered with floor semantics (time.Unix normalises), as Z division.
   * gojson.Marshal cannot fail for this struct (strings, one int64, maps of strings); the
     error branch of Start (message dropped, failure stat) is therefore not modelled. *)
From Bifrost.model Require Import Base Json.

Record colval := mkCV { cv_value : string; cv_type : string; cv_quoted : bool }.

(* replication.WalMessage with its parselogical.ParseResult *)
Record change := mkChange {
  ch_op : string;                       (* Pr.Operation *)
  ch_table : string;                    (* Pr.Relation *)
  ch_txn : string;                      (* Pr.Transaction *)
  ch_cols : list (string * colval);     (* Pr.Columns *)
  ch_old : list (string * colval);      (* Pr.OldColumns *)
  ch_wal : N;                           (* WalStart, uint64 *)
  ch_time : Z;                          (* ServerTime, int64 epoch ms *)
  ch_key : string;                      (* TimeBasedKey *)
  ch_pkey : string }.                   (* PartitionKey *)

(* ---------- LSN: fmt.Fprintf("%X/%X", uint32(w>>32), uint32(w)) ---------- *)
Definition hexU_digit (n : N) : ascii := if (n <? 10)%N then ascii_of_N (48 + n)%N else ascii_of_N (55 + n)%N.
Definition hexU (n : N) : string := radix 16 hexU_digit n.
Definition fmt_lsn (w : N) : string :=
  (hexU ((w / 2^32) mod 2^32)%N ++ String "/" (hexU (w mod 2^32)%N))%string.

Definition dvalHEX (c : ascii) : option N :=
  let n := cN c in
  if ((48 <=? n) && (n <=? 57))%N then Some (n - 48)%N
  else if ((65 <=? n) && (n <=? 70))%N then Some (n - 55)%N
  else None.

(* reader of the standard form: two upper-case hex numbers without leading zeros, each < 2^32 *)
Definition parse_lsn (s : string) : option N :=
  match parse_nat 16 dvalHEX s with
  | Some (hi, String sl r) =>
    if (cN sl =? 47)%N then
      match parse_nat 16 dvalHEX r with
      | Some (lo, "") => if ((hi <? 2^32) && (lo <? 2^32))%N then Some (hi * 2^32 + lo)%N else None
      | _ => None
      end
    else None
  | _ => None
  end.

Definition is_HEX (c : ascii) : bool := match dvalHEX c with Some _ => true | None => false end.
Definition canonical_hex (s : string) : bool :=
  match s with
  | "" => false
  | String c r => all_chars is_HEX s && (negb (cN c =? 48)%N || String.eqb r "")
  end.
Fixpoint split_slash (s : string) : option (string * string) :=
  match s with
  | "" => None
  | String c r => if (cN c =? 47)%N then Some ("", r)
                  else match split_slash r with Some (a, b) => Some (String c a, b) | None => None end
  end.
Definition canonical_lsn (s : string) : bool :=
  match split_slash s with
  | Some (a, b) => canonical_hex a && canonical_hex b
  | None => false
  end.

(* ---------- time: time.Unix(0, ms*1000000).UTC().Format(time.RFC3339) ---------- *)
Definition wrap64 (z : Z) : Z := ((z + 2^63) mod 2^64 - 2^63)%Z.

(* proleptic Gregorian date of a day number (days since 1970-01-01), any sign *)
Definition civil_from_days (z0 : Z) : Z * Z * Z :=
  let z := (z0 + 719468)%Z in
  let era := (z / 146097)%Z in
  let doe := (z - era * 146097)%Z in
  let yoe := ((doe - doe / 1460 + doe / 36524 - doe / 146096) / 365)%Z in
  let doy := (doe - (365 * yoe + yoe / 4 - yoe / 100))%Z in
  let mp := ((5 * doy + 2) / 153)%Z in
  let d := (doy - (153 * mp + 2) / 5 + 1)%Z in
  let m := (if mp <? 10 then mp + 3 else mp - 9)%Z in
  let y := (yoe + era * 400 + (if m <=? 2 then 1 else 0))%Z in
  (y, m, d).

Definition pad2 (n : Z) : string :=
  if (n <? 10)%Z then String "0" (decN (Z.to_N n)) else decN (Z.to_N n).
Definition pad4 (n : Z) : string :=
  let a := Z.abs n in
  let s := decN (Z.to_N a) in
  let p := if (a <? 10)%Z then ("000" ++ s)%string else if (a <? 100)%Z then ("00" ++ s)%string
           else if (a <? 1000)%Z then String "0" s else s in
  if (n <? 0)%Z then String "-" p else p.

Definition epoch_formatted : string := "1970-01-01T00:00:00Z".

Definition fmt_instant (sec : Z) : string :=
  let days := (sec / 86400)%Z in
  let sod := (sec mod 86400)%Z in
  let '(y, m, d) := civil_from_days days in
  (pad4 y ++ String "-" (pad2 m ++ String "-" (pad2 d ++ String "T"
     (pad2 (sod / 3600)%Z ++ String ":" (pad2 ((sod / 60) mod 60)%Z ++ String ":" (pad2 (sod mod 60)%Z ++ "Z"))))))%string.

Definition fmt_time (ms : Z) : string :=
  if (ms =? 0)%Z then epoch_formatted
  else fmt_instant (wrap64 (ms * 1000000) / 1000000000)%Z.

(* reader of the RFC 3339 UTC form YYYY-MM-DDTHH:MM:SSZ: seconds since the epoch *)
Definition days_from_civil (y m d : Z) : Z :=
  let y' := (if m <=? 2 then y - 1 else y)%Z in
  let era := (y' / 400)%Z in
  let yoe := (y' - era * 400)%Z in
  let mp := (if 2 <? m then m - 3 else m + 9)%Z in
  let doy := ((153 * mp + 2) / 5 + d - 1)%Z in
  let doe := (yoe * 365 + yoe / 4 - yoe / 100 + doy)%Z in
  (era * 146097 + doe - 719468)%Z.

Fixpoint read_digits (w : nat) (acc : Z) (s : string) : option (Z * string) :=
  match w with
  | O => Some (acc, s)
  | S w' => match s with
            | String c r => match dval10 c with
                            | Some d => read_digits w' (acc * 10 + Z.of_N d)%Z r
                            | None => None
                            end
            | "" => None
            end
  end.
Definition expect_char (c : ascii) (s : string) : option string :=
  match s with
  | String c' r => if (cN c' =? cN c)%N then Some r else None
  | "" => None
  end.
Definition obind {A B} (o : option A) (f : A -> option B) : option B :=
  match o with Some a => f a | None => None end.

Definition parse_time (s : string) : option Z :=
  obind (read_digits 4 0 s) (fun '(y, s) =>
  obind (expect_char "-" s) (fun s =>
  obind (read_digits 2 0 s) (fun '(m, s) =>
  obind (expect_char "-" s) (fun s =>
  obind (read_digits 2 0 s) (fun '(d, s) =>
  obind (expect_char "T" s) (fun s =>
  obind (read_digits 2 0 s) (fun '(hh, s) =>
  obind (expect_char ":" s) (fun s =>
  obind (read_digits 2 0 s) (fun '(mi, s) =>
  obind (expect_char ":" s) (fun s =>
  obind (read_digits 2 0 s) (fun '(ss, s) =>
  if String.eqb s "Z" &&
     ((1 <=? m) && (m <=? 12) && (1 <=? d) && (d <=? 31) && (hh <? 24) && (mi <? 60) && (ss <? 60))%Z
  then Some (days_from_civil y m d * 86400 + hh * 3600 + mi * 60 + ss)%Z
  else None))))))))))).

(* ---------- the decision table ---------- *)
Definition toast_marker : string := "unchanged-toast-datum".

(* marshalColumnValuePair is only ever called with at least one non-nil argument *)
Inductive coldec :=
| DNew (n : colval)
| DOld (o : colval)
| DBoth (n o : colval).

(* v = msg.Pr.Columns[k];  oldv = msg.Pr.OldColumns[k] with its ok flag *)
Definition col_decision (nomo : bool) (op : string) (v : colval) (oldv : option colval) : coldec :=
  if String.eqb op "DELETE" then DOld v
  else match oldv with
       | Some o =>
         if negb (String.eqb (cv_value v) (cv_value o)) then
           if String.eqb (cv_value v) toast_marker then (if nomo then DNew o else DBoth o o)
           else (if nomo then DNew v else DBoth v o)
         else DNew v
       | None => DNew v
       end.

Definition vmap := list (string * string).
Definition pmap := list (string * vmap).
Definition cmap := list (string * pmap).

Definition qstr (b : bool) : string := if b then "true" else "false".

(* marshalColumnValue: the three assignments, on whatever map getColValue returned *)
Definition set_val (cv : colval) (m : vmap) : vmap :=
  aset "q" (qstr (cv_quoted cv)) (aset "t" (cv_type cv) (aset "v" (cv_value cv) m)).

(* marshalColumnValuePair on a map [p] from getColValuePair, given the value maps *)
Definition set_pair (d : coldec) (mn mo : vmap) (p : pmap) : pmap :=
  match d with
  | DBoth _ _ => aset "new" mn (aset "old" mo p)
  | DNew _ => aset "new" mn p
  | DOld _ => aset "old" mo p
  end.

Definition dec_new (d : coldec) : option colval :=
  match d with DNew n => Some n | DBoth n _ => Some n | DOld _ => None end.
Definition dec_old (d : coldec) : option colval :=
  match d with DOld o => Some o | DBoth _ o => Some o | DNew _ => None end.

(* ----- pure rendering: every map fresh ----- *)
Definition val_fields (cv : colval) : vmap := set_val cv [].
Definition pair_fields (d : coldec) : pmap :=
  match d with
  | DBoth n o => set_pair d (val_fields n) (val_fields o) []
  | DNew n => set_pair d (val_fields n) [] []
  | DOld o => set_pair d [] (val_fields o) []
  end.

Definition col_entry (nomo : bool) (c : change) (k : string) (v : colval) : pmap :=
  pair_fields (col_decision nomo (ch_op c) v (aget k (ch_old c))).

Definition columns_of (nomo : bool) (c : change) : cmap :=
  fold_left (fun acc kv => aset (fst kv) (col_entry nomo c (fst kv) (snd kv)) acc) (ch_cols c) [].

Definition enc_vmap : vmap -> json := enc_map JStr.
Definition enc_pmap : pmap -> json := enc_map enc_vmap.
Definition enc_cmap : cmap -> json := enc_map enc_pmap.

(* jsonWalEntry *)
Record wentry := mkWE {
  we_time : string; we_time_ms : Z; we_txn : string; we_lsn : string;
  we_table : string; we_op : string; we_cols : cmap }.

Definition enc_entry (e : wentry) : json :=
  JObj [ ("time", JStr (we_time e)); ("time_ms", JInt (we_time_ms e)); ("txn", JStr (we_txn e));
         ("lsn", JStr (we_lsn e)); ("table", JStr (we_table e)); ("operation", JStr (we_op e));
         ("columns", enc_cmap (we_cols e)) ].

(* what the property lists, as a JSON value *)
Definition tree (nomo : bool) (c : change) : json :=
  enc_entry (mkWE (fmt_time (ch_time c)) (ch_time c) (ch_key c) (fmt_lsn (ch_wal c))
                     (ch_table c) (ch_op c) (columns_of nomo c)).

Definition render (nomo : bool) (c : change) : string := print (tree nomo c).

(* ----- rendering with the package-level state -----
   colValuesPool / colValuePairPool are sync.Pools: Get returns SOME element of the pool, or a
   fresh empty map (pool empty, or elements dropped by the runtime); which one is the oracle's
   choice.  A map is held by exactly one of: a pool, the used list of the call in progress.  The
   used lists keep references, so what goes back to the pool is the map AFTER the writes.
   Elements the garbage collector drops from a pool only shorten the lists. *)
Record pool := mkPool {
  p_vals : list vmap;       (* colValuesPool *)
  p_pairs : list pmap;      (* colValuePairPool *)
  p_cols : cmap;            (* colsTemp as the previous call left it *)
  p_lsn : string;           (* lsnBuffer as the previous call left it *)
  p_entry : wentry }.       (* reusedWalEntry as the previous call left it *)

Definition empty_pool : pool := mkPool [] [] [] "" (mkWE "" 0 "" "" "" "" []).

Fixpoint take_nth {A} (n : nat) (l : list A) : option (A * list A) :=
  match l, n with
  | [], _ => None
  | x :: r, O => Some (x, r)
  | x :: r, S k => match take_nth k r with
                   | Some (y, r') => Some (y, x :: r')
                   | None => None
                   end
  end.
Definition pool_get {A} (fresh : A) (ch : nat) (l : list A) : A * list A :=
  match take_nth ch l with Some p => p | None => (fresh, l) end.

Record wst := mkW {
  w_vals : list vmap; w_pairs : list pmap;
  w_usedv : list vmap;      (* usedColValues *)
  w_usedp : list pmap;      (* usedColValueParis *)
  w_ch : list nat }.        (* the oracle's remaining choices; exhausted = 0 *)

Definition next_choice (w : wst) : nat * list nat :=
  match w_ch w with [] => (O, []) | c :: r => (c, r) end.

(* getColValue + the three writes of marshalColumnValue *)
Definition marshal_col_value (cv : colval) (w : wst) : vmap * wst :=
  let '(c, ch') := next_choice w in
  let '(m, rest) := pool_get [] c (w_vals w) in
  let m' := set_val cv m in
  (m', mkW rest (w_pairs w) (w_usedv w ++ [m']) (w_usedp w) ch').

Definition marshal_pair (d : coldec) (w : wst) : pmap * wst :=
  let '(c, ch') := next_choice w in
  let '(p, rest) := pool_get [] c (w_pairs w) in
  let w1 := mkW (w_vals w) rest (w_usedv w) (w_usedp w) ch' in
  let '(p', w') :=
    match d with
    | DBoth n o => let '(mo, w2) := marshal_col_value o w1 in
                   let '(mn, w3) := marshal_col_value n w2 in
                   (set_pair d mn mo p, w3)
    | DNew n => let '(mn, w2) := marshal_col_value n w1 in (set_pair d mn [] p, w2)
    | DOld o => let '(mo, w2) := marshal_col_value o w1 in (set_pair d [] mo p, w2)
    end in
  (p', mkW (w_vals w') (w_pairs w') (w_usedv w') (w_usedp w' ++ [p']) (w_ch w')).

(* for k, v := range msg.Pr.Columns { ... columns[k] = marshalColumnValuePair(..) } *)
Fixpoint marshal_cols (nomo : bool) (c : change) (cols : list (string * colval)) (acc : cmap) (w : wst)
  : cmap * wst :=
  match cols with
  | [] => (acc, w)
  | (k, v) :: r =>
    let '(p, w') := marshal_pair (col_decision nomo (ch_op c) v (aget k (ch_old c))) w in
    marshal_cols nomo c r (aset k p acc) w'
  end.

(* for k := range colsTemp { delete(colsTemp, k) } *)
Definition clear_map {V} (m : list (string * V)) : list (string * V) :=
  fold_left (fun acc k => adel k acc) (map fst m) m.

(* clearColValuePairs: delete(m, "old"); delete(m, "new"); Put *)
Definition scrub_pair (p : pmap) : pmap := adel "new" (adel "old" p).

(* reusedWalEntry.X = ... : one field assignment each *)
Definition set_time (x : string) (e : wentry) := mkWE x (we_time_ms e) (we_txn e) (we_lsn e) (we_table e) (we_op e) (we_cols e).
Definition set_time_ms (x : Z) (e : wentry) := mkWE (we_time e) x (we_txn e) (we_lsn e) (we_table e) (we_op e) (we_cols e).
Definition set_txn (x : string) (e : wentry) := mkWE (we_time e) (we_time_ms e) x (we_lsn e) (we_table e) (we_op e) (we_cols e).
Definition set_lsn (x : string) (e : wentry) := mkWE (we_time e) (we_time_ms e) (we_txn e) x (we_table e) (we_op e) (we_cols e).
Definition set_table (x : string) (e : wentry) := mkWE (we_time e) (we_time_ms e) (we_txn e) (we_lsn e) x (we_op e) (we_cols e).
Definition set_op (x : string) (e : wentry) := mkWE (we_time e) (we_time_ms e) (we_txn e) (we_lsn e) (we_table e) x (we_cols e).
Definition set_cols (x : cmap) (e : wentry) := mkWE (we_time e) (we_time_ms e) (we_txn e) (we_lsn e) (we_table e) (we_op e) x.

(* lsnBuffer.Reset(); Fprintf; Flush *)
Definition lsn_buffer (old : string) (w : N) : string := (("" : string) ++ fmt_lsn w)%string.

Definition render_with_pool (nomo : bool) (pl : pool) (choices : list nat) (c : change) : string * pool :=
  let cols0 := clear_map (p_cols pl) in
  let '(cols, w) := marshal_cols nomo c (ch_cols c) cols0 (mkW (p_vals pl) (p_pairs pl) [] [] choices) in
  let t := fmt_time (ch_time c) in
  let buf := lsn_buffer (p_lsn pl) (ch_wal c) in
  let e := set_cols cols (set_op (ch_op c) (set_table (ch_table c) (set_lsn buf (set_txn (ch_key c)
             (set_time_ms (ch_time c) (set_time t (p_entry pl))))))) in
  let out := print (enc_entry e) in
  (out, mkPool (w_vals w ++ w_usedv w)                       (* clearColValues *)
               (w_pairs w ++ map scrub_pair (w_usedp w))      (* clearColValuePairs *)
               cols buf e).

(* ---------- the stage: Marshaller.Start ---------- *)
Record mout := mkOut {
  mo_op : string; mo_table : string; mo_json : option string;
  mo_key : string; mo_wal : N; mo_txn : string; mo_pkey : string }.

Definition is_framing (op : string) : bool := String.eqb op "BEGIN" || String.eqb op "COMMIT".

Definition header (c : change) (js : option string) : mout :=
  mkOut (ch_op c) (ch_table c) js (ch_key c) (ch_wal c) (ch_txn c) (ch_pkey c).

Definition stage_step (nomo : bool) (pl : pool) (choices : list nat) (c : change) : mout * pool :=
  if is_framing (ch_op c) then (header c None, pl)
  else let '(js, pl') := render_with_pool nomo pl choices c in (header c (Some js), pl').

(* one oracle list per message (missing = []) *)
Fixpoint marshal_stage (nomo : bool) (pl : pool) (chs : list (list nat)) (cs : list change)
  : list mout * pool :=
  match cs with
  | [] => ([], pl)
  | c :: r =>
    let '(o, pl') := stage_step nomo pl (hd [] chs) c in
    let '(os, pl'') := marshal_stage nomo pl' (tl chs) r in
    (o :: os, pl'')
  end.

(* the same stage without any state *)
Definition pure_out (nomo : bool) (c : change) : mout :=
  header c (if is_framing (ch_op c) then None else Some (render nomo c)).

(* ---------- the property's domain ---------- *)
Definition valid_cv (cv : colval) : bool := valid_utf8 (cv_value cv) && valid_utf8 (cv_type cv).
Definition valid_cols (l : list (string * colval)) : bool :=
  forallb (fun kv => valid_utf8 (fst kv) && valid_cv (snd kv)) l.
Definition valid_utf8_fields (c : change) : bool :=
  valid_utf8 (ch_op c) && valid_utf8 (ch_table c) && valid_utf8 (ch_key c) &&
  valid_cols (ch_cols c) && valid_cols (ch_old c).

(* ---------- correspondence ---------- *)
Definition mout_eqb (a b : mout) : bool :=
  String.eqb (mo_op a) (mo_op b) && String.eqb (mo_table a) (mo_table b) &&
  opt_string_eqb (mo_json a) (mo_json b) && String.eqb (mo_key a) (mo_key b) &&
  (mo_wal a =? mo_wal b)%N && String.eqb (mo_txn a) (mo_txn b) && String.eqb (mo_pkey a) (mo_pkey b).

(* an arbitrary fixed oracle for the pooled run of a case *)
Definition case_oracle : list nat := [1; 0; 2; 0; 5; 1; 3; 0; 0; 4; 2; 7; 1; 0; 6; 3].

(* a case: noMarshalOldValue, the SEQUENCE of messages sent through one marshaller, and per
   message what came out (header fields and the exact JSON bytes) *)
Definition mcase := (bool * list change * list mout)%type.

Definition mcase_ok (k : mcase) : bool :=
  let '(nomo, cs, obs) := k in
  list_eqb mout_eqb (fst (marshal_stage nomo empty_pool (map (fun _ => case_oracle) cs) cs)) obs &&
  list_eqb mout_eqb (map (pure_out nomo) cs) obs.
