(* KinesisRetry.v — model of transport/transporters/kinesis/transporter/transporter.go
   (transportWithRetry, StartTransporting) on top of github.com/cenkalti/backoff/v4 v4.2.1
   (Retry = doRetryNotify, WithMaxRetries = backOffTries).  Definitions only.

   Records are identified by N ids (the harness gives every record of a batch a distinct id that
   is carried in Data and PartitionKey; the sink fake reads it back from the request it receives).

   Nondeterminism is an explicit oracle: per batch the list of [step]s the sink will answer with,
   one per PutRecords call, each saying in addition whether shutdown (TerminateCtx cancellation)
   is requested while that call is in flight; [b_pre] says shutdown is requested after the batch
   was taken from inputChan and passed the second select, before the first attempt.  A script that
   is shorter than the number of calls the code makes leaves the run [RPending] (blocked in
   PutRecords): every theorem therefore also speaks about every prefix of every execution. *)
From Bifrost.model Require Import Base.

(* what one PutRecords call returns *)
Inductive outcome :=
| WholeErr (permanent : bool)          (* err != nil; permanent = the error is a *backoff.PermanentError
                                           (the AWS client never produces one; kept because Retry tests it) *)
| Resp (cnt : N) (codes : list bool)   (* err == nil; *pro.FailedRecordCount = cnt; codes[i] = (pro.Records[i].ErrorCode != nil).
                                           The two are independent data: the code tests cnt first and only
                                           then scans the codes *)
| NilResp.                             (* err == nil and pro or pro.FailedRecordCount is nil: nil dereference *)

Record step := mkStep { s_out : outcome; s_cancel : bool }.

(* one sink call as seen from outside: the ordered record ids of the request, and the answer *)
Definition call := (list N * outcome)%type.

(* toRetry := pri.Records[:0]; for i, element := range pro.Records { if element.ErrorCode != nil
   { toRetry = append(toRetry, pri.Records[i]) } }; pri.SetRecords(toRetry).
   Run only when len(pri.Records) == len(pro.Records); the write index never passes the read
   index, so the in-place re-use of the slice is an ordinary filter. *)
Fixpoint keep_failed (recs : list N) (codes : list bool) : list N :=
  match recs, codes with
  | r :: rs, c :: cs => if c then r :: keep_failed rs cs else keep_failed rs cs
  | _, _ => []
  end.

(* what the closure [operation] returns (after the ctx test), and pri.Records afterwards *)
Inductive opres := OpNil | OpErr | OpPermErr | OpPanic.

Definition operation (recs : list N) (o : outcome) : opres * list N :=
  match o with
  | WholeErr p => (if p then OpPermErr else OpErr, recs)           (* if err != nil { return err } *)
  | NilResp => (OpPanic, recs)
  | Resp cnt codes =>
      if (cnt =? 0)%N then (OpNil, recs)                           (* if *pro.FailedRecordCount == 0 { return nil } *)
      else if negb (Nat.eqb (List.length recs) (List.length codes))
      then (OpPanic, recs)                                         (* panic("Put record input size does not match ...") *)
      else (OpErr, keep_failed recs codes)                         (* filter in place, return err *)
  end.

(* backOffTries.NextBackOff over ZeroBackOff: Stop? (numTries is incremented otherwise) *)
Definition next_stop (maxTries numTries : N) : bool :=
  (maxTries =? 0)%N || (maxTries <=? numTries)%N.

Inductive rresult :=
| RWritten      (* Retry returned nil, cancelled = false: the caller reports the batch written *)
| RCancelled    (* operation saw ctx.Done(): Retry returned nil, cancelled = true: no report, loop continues *)
| RExhausted    (* NextBackOff returned Stop: Retry returned the error: the caller returns (fail-stop) *)
| RPermanent    (* PermanentError: Retry returned the wrapped error at once: the caller returns *)
| RPanic        (* panic inside operation: unwinds through Retry to StartTransporting's deferred shutdown *)
| RPending.     (* the oracle has no further answer: blocked inside PutRecords *)

(* doRetryNotify's for-loop.  ctx = TerminateCtx is cancelled.  Returns the calls made, the
   result, and whether TerminateCtx is cancelled afterwards.
   getContext(b) of a backOffTries is context.Background(): Retry itself never looks at TerminateCtx. *)
Fixpoint retry (n tries : N) (ctx : bool) (recs : list N) (script : list step)
  : list call * rresult * bool :=
  if ctx then ([], RCancelled, true)             (* select { case <-ctx.Done(): cancelled = true; return nil } *)
  else match script with
  | [] => ([], RPending, false)
  | s :: rest =>
      let c := (recs, s_out s) in
      let ctx' := s_cancel s in
      match operation recs (s_out s) with
      | (OpNil, _) => ([c], RWritten, ctx')
      | (OpPanic, _) => ([c], RPanic, ctx')
      | (OpPermErr, _) => ([c], RPermanent, ctx')
      | (OpErr, recs') =>
          if next_stop n tries then ([c], RExhausted, ctx')
          else let '(tr, res, cx) := retry n (tries + 1) ctx' recs' rest in (c :: tr, res, cx)
      end
  end.

(* transportWithRetry: Retry begins with b.Reset() (numTries = 0); the deferred Reset changes nothing more *)
Definition transport_with_retry (n : N) (ctx : bool) (recs : list N) (script : list step) :=
  retry n 0 ctx recs script.

Record kbatch := mkBatch { b_recs : list N; b_pre : bool; b_script : list step }.

(* one entry per batch that was taken from inputChan and passed both selects *)
Record breport := mkRep { r_calls : list call; r_written : bool }.

Inductive tend :=
| TRunning      (* waiting in the first select (or blocked in PutRecords): not terminated *)
| TStopped      (* returned: deferred shutdown() cancelled TerminateCtx and closed txnsWritten *)
| TPanicked.    (* as TStopped, after recovering a panic *)

(* StartTransporting's loop over the batches offered on inputChan.  Nothing but the cancellation
   state survives from one batch to the next (the retry policy is Reset). *)
Fixpoint transporter (n : N) (ctx : bool) (bs : list kbatch) : list breport * tend :=
  if ctx then ([], TStopped)                      (* one of the two selects sees TerminateCtx.Done(): return *)
  else match bs with
  | [] => ([], TRunning)
  | b :: rest =>
      let '(tr, res, ctx') := transport_with_retry n (b_pre b) (b_recs b) (b_script b) in
      match res with
      | RWritten =>                                (* t.txnsWritten <- kinesisBatch.GetTransactions() *)
          let '(reps, e) := transporter n ctx' rest in (mkRep tr true :: reps, e)
      | RCancelled =>                              (* if cancelled { continue } *)
          let '(reps, e) := transporter n ctx' rest in (mkRep tr false :: reps, e)
      | RExhausted | RPermanent => ([mkRep tr false], TStopped)   (* if err != nil { return } *)
      | RPanic => ([mkRep tr false], TPanicked)
      | RPending => ([mkRep tr false], TRunning)
      end
  end.

(* ---- correspondence case ----
   input: retry budget n, TerminateCtx already cancelled at start?, batches with their oracles;
   observed: per taken batch (record ids of every sink call in order, written report seen?),
   TerminateCtx cancelled before the harness closed the input?, panic recovered? *)
Definition kobs := (list (list (list N) * bool) * bool * bool)%type.
Definition kcase := (N * bool * list kbatch * kobs)%type.

Definition tend_obs (e : tend) : bool * bool :=
  match e with TRunning => (false, false) | TStopped => (true, false) | TPanicked => (true, true) end.

Definition kobserve (n : N) (ctx : bool) (bs : list kbatch) : kobs :=
  let '(reps, e) := transporter n ctx bs in
  (map (fun r => (map fst (r_calls r), r_written r)) reps, fst (tend_obs e), snd (tend_obs e)).

Definition kobs_eqb (a b : kobs) : bool :=
  let '(ra, sa, pa) := a in
  let '(rb, sb, pb) := b in
  list_eqb (fun x y => list_eqb (list_eqb N.eqb) (fst x) (fst y) && Bool.eqb (snd x) (snd y)) ra rb
  && Bool.eqb sa sb && Bool.eqb pa pb.

Definition kcase_ok (c : kcase) : bool :=
  let '(n, ctx, bs, obs) := c in kobs_eqb (kobserve n ctx bs) obs.
