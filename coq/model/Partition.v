(* Partition.v — model of partitioner/partitioner.go: the partition key is a function of the
   record (relation, transaction id) and the configured method / bucket count.  Definitions only. *)
From Bifrost.model Require Import Base Crc32.

Inductive pmethod := PNone | PTable | PTxn | PBucket.

(* partitioner.GetPartitionMethod: a Go map lookup; an unknown name yields the zero value
   PART_METHOD_NONE *)
Definition pmethod_of_name (s : string) : pmethod :=
  if String.eqb s "tablename" then PTable
  else if String.eqb s "transaction" then PTxn
  else if String.eqb s "transaction-bucket" then PBucket
  else PNone.

(* PPanic: utils.QuickHash divides by the bucket count; 0 is a Go runtime panic *)
Inductive pres := PKey (k : string) | PPanic.

Definition pkey (m : pmethod) (buckets : N) (rel txn : string) : pres :=
  match m with
  | PNone => PKey ""
  | PTable => PKey rel
  | PTxn => PKey txn
  | PBucket => match quick_hash txn buckets with
               | Some h => PKey (dec h)          (* strconv.Itoa of a non-negative int *)
               | None => PPanic
               end
  end.

(* the stage: keys stamped on the forwarded messages, in order; a panic is recovered by
   shutdown(), which closes the output channel (second component true) *)
Fixpoint pstage (m : pmethod) (buckets : N) (ms : list (string * string)) : list string * bool :=
  match ms with
  | [] => ([], false)
  | (rel, txn) :: r => match pkey m buckets rel txn with
                       | PKey k => let '(ks, p) := pstage m buckets r in (k :: ks, p)
                       | PPanic => ([], true)
                       end
  end.

(* PARTITION case: (method name, buckets, [(relation, transaction)], keys observed, panicked) *)
Definition pkcase := (string * N * list (string * string) * list string * bool)%type.

Definition pkcase_ok (x : pkcase) : bool :=
  let '(name, buckets, ms, keys, panicked) := x in
  let '(ks, p) := pstage (pmethod_of_name name) buckets ms in
  list_eqb String.eqb ks keys && Bool.eqb p panicked.
