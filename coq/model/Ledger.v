(* Ledger.v — model of transport/progress/ledger.go + emitProgress of progress_tracker.go.
   Definitions only.  items = ordered_map (insertion ordered, Set on an existing key updates
   in place, Delete unlinks); idx = transactionToTimeBasedKey (Go map, order not observable). *)
From Bifrost.model Require Import Base.

Record entry := mkEntry {
  e_txn : string; e_key : string; e_commit : N; e_count : Z; e_total : Z }.

Record ledger := mkLedger { items : list (string * entry); idx : list (string * string) }.

Definition empty_ledger : ledger := mkLedger [] [].

Inductive lop :=
| OSeen (txn key : string) (total : Z) (commit : N)
| OWritten (txn key : string) (count : Z)
| OEmit.

(* the common prologue of updateSeen/updateWritten: a different key recorded for this
   transaction id is treated as outdated and dropped *)
Definition supersede (txn key : string) (l : ledger) : ledger :=
  match aget txn (idx l) with
  | Some v => if String.eqb v key then l
              else mkLedger (adel v (items l)) (adel txn (idx l))
  | None => l
  end.

(* None = updateSeen returned an error (ProgressTracker.readProgress panics on it) *)
Definition update_seen (txn key : string) (total : Z) (commit : N) (l0 : ledger) : option ledger :=
  let l := supersede txn key l0 in
  match aget key (items l) with
  | None => Some (mkLedger (items l ++ [(key, mkEntry txn key commit 0 total)])
                           (aset txn key (idx l)))
  | Some e => if (e_commit e =? 0)%N
              then Some (mkLedger (aset key (mkEntry (e_txn e) (e_key e) commit (e_count e) total) (items l))
                                  (idx l))
              else None
  end.

Definition update_written (txn key : string) (count : Z) (l0 : ledger) : ledger :=
  let l := supersede txn key l0 in
  match aget key (items l) with
  | None => mkLedger (items l ++ [(key, mkEntry txn key 0 count 0)]) (aset txn key (idx l))
  | Some e => mkLedger (aset key (mkEntry (e_txn e) (e_key e) (e_commit e) (e_count e + count) (e_total e)) (items l))
                       (idx l)
  end.

Definition releasable (e : entry) : bool :=
  negb (e_commit e =? 0)%N && (e_count e =? e_total e)%Z.

(* longest releasable prefix *)
Fixpoint rel_prefix (its : list (string * entry)) : list entry :=
  match its with
  | [] => []
  | (_, e) :: r => if releasable e then e :: rel_prefix r else []
  end.

Definition remove_entry (l : ledger) (e : entry) : ledger :=
  match aget (e_key e) (items l) with
  | None => l
  | Some e' => mkLedger (adel (e_key e) (items l)) (adel (e_txn e') (idx l))
  end.

Definition emit (l : ledger) : option N * ledger :=
  let p := rel_prefix (items l) in
  match p with
  | [] => (None, l)
  | _ => (Some (e_commit (last p (mkEntry "" "" 0 0 0))), fold_left remove_entry p l)
  end.

(* observable result of one operation *)
Inductive lres := RNone | REmit (lsn : N) | RError.

Definition lstep (l : ledger) (o : lop) : ledger * lres :=
  match o with
  | OSeen t k n c => match update_seen t k n c l with
                     | Some l' => (l', RNone)
                     | None => (supersede t k l, RError)   (* the code returns the error AFTER the supersession ran *)
                     end
  | OWritten t k n => (update_written t k n l, RNone)
  | OEmit => match emit l with
             | (Some f, l') => (l', REmit f)
             | (None, l') => (l', RNone)
             end
  end.

(* run, recording the result of every op; an error stops the tracker (panic): later ops
   are not executed *)
Fixpoint lrun (l : ledger) (ops : list lop) : ledger * list lres :=
  match ops with
  | [] => (l, [])
  | o :: r => let '(l', x) := lstep l o in
              match x with
              | RError => (l', [RError])
              | _ => let '(l'', xs) := lrun l' r in (l'', x :: xs)
              end
  end.

Definition emitted (rs : list lres) : list N :=
  flat_map (fun r => match r with REmit f => [f] | _ => [] end) rs.

(* ---- equality tests used by the correspondence check ---- *)
Definition entry_eqb (a b : entry) : bool :=
  String.eqb (e_txn a) (e_txn b) && String.eqb (e_key a) (e_key b) &&
  (e_commit a =? e_commit b)%N && (e_count a =? e_count b)%Z && (e_total a =? e_total b)%Z.
Definition lres_eqb (a b : lres) : bool :=
  match a, b with
  | RNone, RNone => true | RError, RError => true
  | REmit x, REmit y => (x =? y)%N | _, _ => false
  end.

(* ---- correspondence case: ops, per-op (result, ordered key list after the op),
        final entries, final index (any order) ---- *)
Fixpoint lrun_obs (l : ledger) (ops : list lop) : ledger * list (lres * list string) :=
  match ops with
  | [] => (l, [])
  | o :: r => let '(l', x) := lstep l o in
              match x with
              | RError => (l', [(RError, map fst (items l'))])
              | _ => let '(l'', xs) := lrun_obs l' r in (l'', (x, map fst (items l')) :: xs)
              end
  end.

Definition idx_equiv (a b : list (string * string)) : bool :=
  Nat.eqb (List.length a) (List.length b) &&
  forallb (fun p => option_eqb String.eqb (aget (fst p) b) (Some (snd p))) a.

Definition lcase := (list lop * list (lres * list string) * list entry * list (string * string))%type.

Definition lcase_ok (c : lcase) : bool :=
  let '(ops, obs, ents, ix) := c in
  let '(l, mobs) := lrun_obs empty_ledger ops in
  list_eqb (fun a b => lres_eqb (fst a) (fst b) && list_eqb String.eqb (snd a) (snd b)) mobs obs &&
  list_eqb entry_eqb (map snd (items l)) ents &&
  idx_equiv ix (idx l).
