(* S3.v — model of transport/transporters/s3/transporter/transporter.go
   (key_join, transportWithRetry, StartTransporting) and utils/time.go (DateString).
   Definitions only.

   External actors:
   * gzip (klauspost/pgzip writer, Write*;Close) is a Section variable [gzip : string -> string]:
     the bytes found in gzBuf after writing [x] into a fresh/reset writer and closing it.  Its
     contract, [gunzip (gzip x) = Some x], is a Hypothesis of the proofs' Section only.
   * the S3 service is a script of sink steps per batch: [SFail n] = PutObject reads n bytes
     (or what remains) of Body from the reader's current offset and returns an error;
     [SOk] = PutObject reads Body to EOF and returns success (a successful PUT stored exactly
     what the reader offered from its current offset).
   * the clock is the five strings DateString returned for the batch.
   * cancellation of terminateCtx is an explicit point per batch. *)
From Bifrost.model Require Import Base.

(* ---------- strings ---------- *)
Definition is_slash (c : ascii) : bool := Ascii.eqb c "/".

(* strings.TrimLeft(s, "/") *)
Fixpoint trim_left (s : string) : string :=
  match s with
  | EmptyString => EmptyString
  | String c r => if is_slash c then trim_left r else s
  end.

(* strings.TrimRight(s, "/") *)
Fixpoint trim_right (s : string) : string :=
  match s with
  | EmptyString => EmptyString
  | String c r => match trim_right r with
                  | EmptyString => if is_slash c then EmptyString else String c EmptyString
                  | r' => String c r'
                  end
  end.

Fixpoint sdrop (n : nat) (s : string) : string :=
  match n, s with
  | O, _ => s
  | S k, String _ r => sdrop k r
  | S _, EmptyString => EmptyString
  end.

Fixpoint stake (n : nat) (s : string) : string :=
  match n, s with
  | O, _ => EmptyString
  | S k, String c r => String c (stake k r)
  | S _, EmptyString => EmptyString
  end.

(* ---------- key_join ----------   (after fix 2b60f29: trim first, then omit if empty)
   for i, str := range strs {
     str = TrimRight(str, "/"); str = TrimLeft(str, "/")
     if str == "" { continue }
     sb.WriteString(str)
     if i != len(strs)-1 { sb.WriteString("/") } }
   sb.WriteString(".gz")                                                       *)
Fixpoint key_join_from (n i : nat) (strs : list string) : string :=
  match strs with
  | [] => ".gz"
  | s :: r =>
      let str := trim_left (trim_right s) in
      ((if String.eqb str "" then ""
        else (str ++ (if Nat.eqb (S i) n then "" else "/"))%string)
       ++ key_join_from n (S i) r)%string
  end.

Definition key_join (strs : list string) : string := key_join_from (List.length strs) 0 strs.

(* ---------- utils.RealTime.DateString ---------- *)
Record tstamp := mkT { t_year : string; t_month : string; t_day : string; t_hour : string; t_full : string }.

(* intDateToNormalString; also time.Format's 01 02 15 04 05 *)
Definition pad2 (n : N) : string := if (n <? 10)%N then String "0" (dec n) else dec n.
(* time.Format's 2006: at least four digits *)
Definition pad4 (n : N) : string :=
  if (n <? 10)%N then ("000" ++ dec n)%string
  else if (n <? 100)%N then ("00" ++ dec n)%string
  else if (n <? 1000)%N then ("0" ++ dec n)%string
  else dec n.

Definition date_string (Y M D h mi s : N) : tstamp :=
  mkT (dec Y) (pad2 M) (pad2 D) (pad2 h)
      (pad4 Y ++ pad2 M ++ pad2 D ++ pad2 h ++ pad2 mi ++ pad2 s)%string.

(* fullKey := key_join(t.keySpace, year, month, day, hour, fmt.Sprintf("%s_%d", full, firstWalStart)) *)
Definition s3_key (ks : string) (t : tstamp) (lsn : N) : string :=
  key_join [ks; t_year t; t_month t; t_day t; t_hour t; (t_full t ++ "_" ++ dec lsn)%string].

(* ---------- batches ---------- *)
Record msg := mkMsg { m_json : string; m_lsn : N }.   (* MarshalledMessage.Json, .WalStart *)

(* what is written into the gzip writer: msg.Json then "\n", per message in order *)
Definition nl : string := String (ascii_of_N 10) EmptyString.
Fixpoint plain (ms : list msg) : string :=
  match ms with
  | [] => EmptyString
  | m :: r => (m_json m ++ nl ++ plain r)%string
  end.

(* ---------- the sink and the reader ---------- *)
Inductive sink_step := SFail (n : N) | SOk.

(* one call of PutObjectWithContext as the sink sees it *)
Record attempt := mkAtt {
  a_key  : string;   (* Key *)
  a_off  : nat;      (* reader offset when the call starts (Size() - Len()) *)
  a_body : string;   (* the bytes the reader is over (ReadAt 0 .. Size()) *)
  a_read : string;   (* the bytes the sink consumed *)
  a_ok   : bool }.

Definition seek_start (_ : nat) : nat := O.

(* backoff.Retry(operation, WithMaxRetries(ZeroBackOff, r)): [tries] = r + 1 calls at most.
   The reader is created once per batch (offset [off] = 0) and shared by all attempts; a failed
   attempt leaves it advanced by what the sink read and the operation then does Seek(0, 0).
   An exhausted script means the sink succeeds. *)
Fixpoint upload (tries : nat) (key body : string) (off : nat) (script : list sink_step)
  : list attempt * bool :=
  match tries with
  | O => ([], false)
  | S k =>
      match script with
      | SFail n :: rest =>
          let rd := stake (N.to_nat n) (sdrop off body) in
          let off_after_read := (off + length rd)%nat in
          let off_after_seek := seek_start off_after_read in               (* byteReader.Seek(0, 0) *)
          let '(l, ok) := upload k key body off_after_seek rest in
          (mkAtt key off body rd false :: l, ok)
      | SOk :: _ | [] => ([mkAtt key off body (sdrop off body) true], true)
      end
  end.

(* ---------- the worker ---------- *)
(* cancellation of terminateCtx relative to one batch:
   CBeforeRecv   — visible to one of the two selects at the top of the StartTransporting loop
   CBeforeCheck  — after those, before transportWithRetry's own non-blocking check
   CDuringUpload — after that check (e.g. while PutObject runs)                         *)
Inductive cancel_pt := CNone | CBeforeRecv | CBeforeCheck | CDuringUpload.

Record binput := mkB {
  b_msgs : list msg; b_time : tstamp; b_cancel : cancel_pt; b_script : list sink_step }.

(* gzBuf / gz are identified by creation order (0 = the pair made by the constructor);
   w_target = the buffer the gzip writer writes into; w_content = the bytes held by gzBuf. *)
Record worker := mkW {
  w_used : Z; w_buf : N; w_gz : N; w_target : N; w_fresh : N; w_content : string }.

Definition init_worker : worker := mkW 0 0 0 0 1 "".

Inductive outcome :=
| Written               (* statsChan "written", txnsWritten <- GetTransactions() *)
| UploadedNotReported   (* cancelled == true: uploaded all the same, then `continue` *)
| RetriesExhausted      (* err != nil: "max retries exceeded", return *)
| PanicEmptyBatch.      (* messagesSlice[0] on an empty slice; recovered by shutdown() *)

Record bres := mkRes {
  r_outcome : outcome;
  r_used : Z;              (* bufUsedCount after the batch *)
  r_buf : N; r_gz : N;     (* identities of gzBuf / gz used for the batch *)
  r_atts : list attempt }.

Section WithGzip.
  Variable gzip : string -> string.

  (* t.bufUsedCount += 1
     if t.bufUsedCount > t.bufMaxReuse { t.bufUsedCount = 0; new gzBuf; new gz on it }
     else { t.gzBuf.Reset(); t.gz.Reset(t.gzBuf) }                                     *)
  Definition prepare (max_reuse : Z) (w : worker) : worker :=
    let used := (w_used w + 1)%Z in
    if (used >? max_reuse)%Z
    then mkW 0 (w_fresh w) (w_fresh w) (w_fresh w) (w_fresh w + 1) ""
    else mkW used (w_buf w) (w_gz w) (w_buf w) (w_fresh w) "".

  (* for each msg: gz.Write(Json); gz.Write("\n"); then gz.Close(): the compressed stream of
     [data] is appended to the writer's target buffer *)
  Definition write_close (w : worker) (data : string) : worker :=
    if (w_target w =? w_buf w)%N
    then mkW (w_used w) (w_buf w) (w_gz w) (w_target w) (w_fresh w) (w_content w ++ gzip data)%string
    else w.

  (* transportWithRetry + the tail of the StartTransporting loop body, for one received batch *)
  Definition step (ks : string) (max_reuse : Z) (retries : N) (w : worker) (b : binput)
    : worker * bres :=
    let w1 := prepare max_reuse w in
    let cancelled := match b_cancel b with CBeforeCheck => true | _ => false end in
    let w2 := write_close w1 (plain (b_msgs b)) in
    match b_msgs b with
    | [] => (w2, mkRes PanicEmptyBatch (w_used w2) (w_buf w2) (w_gz w2) [])
    | m0 :: _ =>
        let key := s3_key ks (b_time b) (m_lsn m0) in
        (* byteReader := bytes.NewReader(t.gzBuf.Bytes()) *)
        let '(atts, ok) := upload (S (N.to_nat retries)) key (w_content w2) 0 (b_script b) in
        let oc := if ok then (if cancelled then UploadedNotReported else Written)
                  else RetriesExhausted in
        (w2, mkRes oc (w_used w2) (w_buf w2) (w_gz w2) atts)
    end.

  (* StartTransporting over the batches offered on inputChan, one result per batch that entered
     transportWithRetry.  After anything but an uncancelled Written the worker returns (the next
     loop iteration sees terminateCtx, or the function returned / panicked). *)
  Fixpoint run (ks : string) (max_reuse : Z) (retries : N) (w : worker) (bs : list binput)
    : list bres :=
    match bs with
    | [] => []
    | b :: r =>
        match b_cancel b with
        | CBeforeRecv => []
        | c =>
            let '(w', res) := step ks max_reuse retries w b in
            match r_outcome res, c with
            | Written, CNone => res :: run ks max_reuse retries w' r
            | _, _ => [res]
            end
        end
    end.
End WithGzip.

(* ---------- correspondence ---------- *)
(* the gzip oracle of a case: the (plain, compressed) pairs the real pgzip writer produced *)
Definition gzip_of (tbl : list (string * string)) (x : string) : string :=
  match aget x tbl with Some c => c | None => x end.

Definition attempt_eqb (a b : attempt) : bool :=
  String.eqb (a_key a) (a_key b) && Nat.eqb (a_off a) (a_off b) &&
  String.eqb (a_body a) (a_body b) && String.eqb (a_read a) (a_read b) &&
  Bool.eqb (a_ok a) (a_ok b).

Definition outcome_eqb (a b : outcome) : bool :=
  match a, b with
  | Written, Written | UploadedNotReported, UploadedNotReported
  | RetriesExhausted, RetriesExhausted | PanicEmptyBatch, PanicEmptyBatch => true
  | _, _ => false
  end.

Definition bres_eqb (a b : bres) : bool :=
  outcome_eqb (r_outcome a) (r_outcome b) && (r_used a =? r_used b)%Z &&
  (r_buf a =? r_buf b)%N && (r_gz a =? r_gz b)%N &&
  list_eqb attempt_eqb (r_atts a) (r_atts b).

Definition tstamp_eqb (a b : tstamp) : bool :=
  String.eqb (t_year a) (t_year b) && String.eqb (t_month a) (t_month b) &&
  String.eqb (t_day a) (t_day b) && String.eqb (t_hour a) (t_hour b) &&
  String.eqb (t_full a) (t_full b).

(* a clock reading (Y, M, D, h, mi, s) together with the strings the Go formatting produced *)
Definition clock_obs := ((N * N * N * N * N * N) * tstamp)%type.
Definition clock_ok (c : clock_obs) : bool :=
  let '((Y, M, D, h, mi, s), t) := c in tstamp_eqb (date_string Y M D h mi s) t.

(* a case: key space, bufMaxReuse, max retries, the batches, the gzip pairs;
   observed: one result per processed batch, the text each successful PutObject body gunzips to
   (real compress/gzip reader; one entry per batch, "" when no attempt succeeded), clock checks *)
Definition s3case :=
  (string * Z * N * list binput * list (string * string)
   * list bres * list string * list clock_obs)%type.

Fixpoint gunzipped_ok (bs : list binput) (rs : list bres) (texts : list string) : bool :=
  match rs, bs, texts with
  | [], _, [] => true
  | r :: rs', b :: bs', t :: ts' =>
      (if existsb a_ok (r_atts r) then String.eqb t (plain (b_msgs b)) else String.eqb t "")
      && gunzipped_ok bs' rs' ts'
  | _, _, _ => false
  end.

Definition s3case_ok (c : s3case) : bool :=
  let '(ks, max_reuse, retries, bs, tbl, obs, texts, clocks) := c in
  let m := run (gzip_of tbl) ks max_reuse retries init_worker bs in
  list_eqb bres_eqb m obs && gunzipped_ok bs obs texts && forallb clock_ok clocks.
