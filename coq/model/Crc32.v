(* Crc32.v — hash/crc32.ChecksumIEEE over byte strings, bit by bit, in N (definitions only).
   utils.QuickHash(s, i) = int(checksum) % i : on 64-bit Go int(uint32) is non-negative. *)
From Bifrost.model Require Import Base.

Definition crc_poly : N := 3988292384.  (* 0xEDB88320, reflected IEEE polynomial *)
Definition crc_mask : N := 4294967295.  (* 0xFFFFFFFF *)

Definition crc_bit (c : N) : N :=
  if N.testbit c 0 then N.lxor (N.shiftr c 1) crc_poly else N.shiftr c 1.

Definition crc_byte (c : N) (b : ascii) : N :=
  let c0 := N.lxor c (N_of_ascii b) in
  crc_bit (crc_bit (crc_bit (crc_bit (crc_bit (crc_bit (crc_bit (crc_bit c0))))))).

Fixpoint crc_fold (c : N) (s : string) : N :=
  match s with
  | EmptyString => c
  | String b r => crc_fold (crc_byte c b) r
  end.

Definition crc32 (s : string) : N := N.lxor (crc_fold crc_mask s) crc_mask.

(* utils.QuickHash; i = 0 is a Go runtime panic (integer divide by zero) *)
Definition quick_hash (s : string) (i : N) : option N :=
  if (i =? 0)%N then None else Some (crc32 s mod i)%N.
