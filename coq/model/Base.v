(* Base.v — shared definitions for all models (definitions only, no proofs). *)
From Coq Require Export List String Ascii ZArith NArith Bool Lia.
Export ListNotations.
Open Scope string_scope.
Open Scope list_scope.

(* ---- byte strings written by the harness: (hx "616263") = "abc" ---- *)
Definition hexval (c : ascii) : N :=
  let n := N_of_ascii c in
  if (48 <=? n)%N && (n <=? 57)%N then (n - 48)%N
  else if (97 <=? n)%N && (n <=? 102)%N then (n - 87)%N
  else if (65 <=? n)%N && (n <=? 70)%N then (n - 55)%N
  else 0%N.

Fixpoint hx (s : string) : string :=
  match s with
  | String a (String b r) => String (ascii_of_N (16 * hexval a + hexval b)) (hx r)
  | _ => EmptyString
  end.

(* ---- association lists keyed by strings (Go maps whose order is not observable
        are compared after sorting on the harness side) ---- *)
Section Assoc.
  Context {V : Type}.
  Fixpoint aget (k : string) (m : list (string * V)) : option V :=
    match m with
    | [] => None
    | (k', v) :: r => if String.eqb k k' then Some v else aget k r
    end.
  Fixpoint adel (k : string) (m : list (string * V)) : list (string * V) :=
    match m with
    | [] => []
    | (k', v) :: r => if String.eqb k k' then adel k r else (k', v) :: adel k r
    end.
  (* Go map assignment / ordered_map.Set: update in place if present, else append *)
  Fixpoint aset (k : string) (v : V) (m : list (string * V)) : list (string * V) :=
    match m with
    | [] => [(k, v)]
    | (k', v') :: r => if String.eqb k k' then (k', v) :: r else (k', v') :: aset k v r
    end.
End Assoc.

Definition sum_Z (l : list Z) : Z := fold_right Z.add 0%Z l.
Definition sum_N (l : list N) : N := fold_right N.add 0%N l.

(* decimal rendering of N (strconv.Itoa / fmt %d / %v on unsigned) *)
Definition digit (n : N) : ascii := ascii_of_N (48 + n).
Fixpoint dec_fuel (fuel : nat) (n : N) (acc : string) : string :=
  match fuel with
  | O => acc
  | S f => let acc' := String (digit (n mod 10)) acc in
           if (n <? 10)%N then acc' else dec_fuel f (n / 10) acc'
  end.
Definition dec (n : N) : string := dec_fuel (S (N.to_nat (N.log2 n))) n "".
Definition decZ (z : Z) : string :=
  if (z <? 0)%Z then String "-" (dec (Z.to_N (- z))) else dec (Z.to_N z).

Fixpoint list_eqb {A} (eqb : A -> A -> bool) (a b : list A) : bool :=
  match a, b with
  | [], [] => true
  | x :: a', y :: b' => eqb x y && list_eqb eqb a' b'
  | _, _ => false
  end.

Definition option_eqb {A} (eqb : A -> A -> bool) (a b : option A) : bool :=
  match a, b with
  | None, None => true
  | Some x, Some y => eqb x y
  | _, _ => false
  end.

(* indices (from 0) of the cases for which [ok] is false; printed by every cases file *)
Fixpoint mismatches_from {A} (ok : A -> bool) (i : nat) (l : list A) : list nat :=
  match l with
  | [] => []
  | x :: r => if ok x then mismatches_from ok (S i) r else i :: mismatches_from ok (S i) r
  end.
Definition mismatches {A} (ok : A -> bool) (l : list A) : list nat := mismatches_from ok 0 l.
