(* Json.v -- the part of goccy/go-json v0.10.2 that pg-bifrost's marshaller uses, as read from
   encode.go (Marshal = HTMLEscapeOption | NormalizeUTF8Option), internal/encoder/string.go
   (appendNormalizedHTMLString), string_table.go (needEscapeHTMLNormalizeUTF8), decode_rune.go
   (decodeRuneInString) and vm/vm.go (OpMap .. OpMapEnd, Mapslice.Less).  Definitions only.

   * JSON values: strings, integers, objects as ORDERED lists (struct fields in declaration
     order; Go maps are put in the encoder's order by [sort_kv] below, before printing).
   * [escape]: byte-wise image of a Go string between the quotes:
       double quote, backslash   -> backslash followed by the character
       LF CR TAB                 -> backslash n / r / t
       other 00..1F              -> backslash u00xx   (lower-case hex)
       less-than greater-than ampersand -> backslash u003c / u003e / u0026
       other 20..7F              -> itself (7F is not escaped)
       80..FF                    -> decodeRuneInString on the rest of the string:
                                    well-formed E2 80 A8 / E2 80 A9  -> backslash u2028 / u2029
                                    other well-formed 2/3/4-byte sequence -> copied
                                    anything else -> backslash ufffd, ONE byte consumed
     (the 8-byte-chunk fast path of string.go only finds the first byte that needs attention;
      it never changes the result.)
   * map keys: the encoder sorts the entries of a Go map with bytes.Compare on the ENCODED key,
     which at that point is the quoted, escaped key FOLLOWED BY THE SEPARATOR BYTE (a comma).  So
     the order is not the order of the raw keys: a key ending in a space or an exclamation mark
     comes before its own prefix.  [skey]/[sort_kv].
   * a reference parser for what the printer can emit (and a little more: all two-character
     escapes, any backslash-u escape outside the surrogate range, strict UTF-8 for raw bytes, no
     raw control characters, no leading zeros), on fuel. *)
From Bifrost.model Require Import Base.

Inductive json :=
| JStr (s : string)
| JInt (z : Z)
| JObj (kvs : list (string * json)).

(* ---------- characters ---------- *)
Definition c_dq : ascii := ascii_of_N 34.   (* double quote *)
Definition c_bs : ascii := ascii_of_N 92.   (* backslash *)
Definition cN (c : ascii) : N := N_of_ascii c.

(* unicode/utf8 "first" table of decode_rune.go: 1 = ASCII, 0 = never starts a sequence *)
Definition lead_len (c : ascii) : nat :=
  let n := cN c in
  if (n <? 128)%N then 1
  else if (n <? 194)%N then 0
  else if (n <? 224)%N then 2
  else if (n <? 240)%N then 3
  else if (n <? 245)%N then 4
  else 0.

Definition cont (c : ascii) : bool := ((128 <=? cN c) && (cN c <=? 191))%N.

(* accept ranges of the second byte *)
Definition second_ok (c0 c1 : ascii) : bool :=
  let n0 := cN c0 in let n1 := cN c1 in
  if (n0 =? 224)%N then ((160 <=? n1) && (n1 <=? 191))%N
  else if (n0 =? 237)%N then ((128 <=? n1) && (n1 <=? 159))%N
  else if (n0 =? 240)%N then ((144 <=? n1) && (n1 <=? 191))%N
  else if (n0 =? 244)%N then ((128 <=? n1) && (n1 <=? 143))%N
  else cont c1.

(* E2 80 A8 / E2 80 A9 *)
Definition sep_kind (c0 c1 c2 : ascii) : N :=
  if ((cN c0 =? 226) && (cN c1 =? 128))%N then
    (if (cN c2 =? 168)%N then 1 else if (cN c2 =? 169)%N then 2 else 0)%N
  else 0%N.

Definition hexl (n : N) : ascii := if (n <? 10)%N then ascii_of_N (48 + n)%N else ascii_of_N (87 + n)%N.

Definition u00 (c : ascii) : string :=
  String c_bs (String "u" (String "0" (String "0" (String (hexl (cN c / 16)%N) (String (hexl (cN c mod 16)%N) ""))))).

Definition esc_ascii (c : ascii) : string :=
  let n := cN c in
  if ((n =? 34) || (n =? 92))%N then String c_bs (String c "")
  else if (n =? 10)%N then String c_bs "n"
  else if (n =? 13)%N then String c_bs "r"
  else if (n =? 9)%N then String c_bs "t"
  else if ((n <? 32) || (n =? 60) || (n =? 62) || (n =? 38))%N then u00 c
  else String c "".

Definition ufffd : string := String c_bs "ufffd".
Definition u2028 : string := String c_bs "u2028".
Definition u2029 : string := String c_bs "u2029".

Fixpoint escape (s : string) : string :=
  match s with
  | "" => ""
  | String c0 r0 =>
    match lead_len c0 with
    | 1 => (esc_ascii c0 ++ escape r0)%string
    | 2 => match r0 with
           | String c1 r1 =>
             if second_ok c0 c1 then String c0 (String c1 (escape r1))
             else (ufffd ++ escape r0)%string
           | _ => (ufffd ++ escape r0)%string
           end
    | 3 => match r0 with
           | String c1 (String c2 r2) =>
             if second_ok c0 c1 && cont c2 then
               (if (sep_kind c0 c1 c2 =? 1)%N then (u2028 ++ escape r2)%string
                else if (sep_kind c0 c1 c2 =? 2)%N then (u2029 ++ escape r2)%string
                else String c0 (String c1 (String c2 (escape r2))))
             else (ufffd ++ escape r0)%string
           | _ => (ufffd ++ escape r0)%string
           end
    | 4 => match r0 with
           | String c1 (String c2 (String c3 r3)) =>
             if second_ok c0 c1 && cont c2 && cont c3
             then String c0 (String c1 (String c2 (String c3 (escape r3))))
             else (ufffd ++ escape r0)%string
           | _ => (ufffd ++ escape r0)%string
           end
    | _ => (ufffd ++ escape r0)%string
    end
  end.

Definition quote (s : string) : string := String c_dq (escape s ++ String c_dq "")%string.

(* well-formed UTF-8 (the strings of the property's domain) *)
Fixpoint valid_utf8 (s : string) : bool :=
  match s with
  | "" => true
  | String c0 r0 =>
    match lead_len c0 with
    | 1 => valid_utf8 r0
    | 2 => match r0 with
           | String c1 r1 => second_ok c0 c1 && valid_utf8 r1
           | _ => false
           end
    | 3 => match r0 with
           | String c1 (String c2 r2) => second_ok c0 c1 && cont c2 && valid_utf8 r2
           | _ => false
           end
    | 4 => match r0 with
           | String c1 (String c2 (String c3 r3)) => second_ok c0 c1 && cont c2 && cont c3 && valid_utf8 r3
           | _ => false
           end
    | _ => false
    end
  end.

Fixpoint all_chars (p : ascii -> bool) (s : string) : bool :=
  match s with "" => true | String c r => p c && all_chars p r end.

(* ---------- numbers: positional notation in any base ---------- *)
Fixpoint radix_fuel (b : N) (dig : N -> ascii) (fuel : nat) (n : N) (acc : string) : string :=
  match fuel with
  | O => acc
  | S f => let acc' := String (dig (n mod b)%N) acc in
           if (n <? b)%N then acc' else radix_fuel b dig f (n / b)%N acc'
  end.
Definition radix (b : N) (dig : N -> ascii) (n : N) : string :=
  radix_fuel b dig (S (N.to_nat (N.log2 n))) n "".

Definition decN (n : N) : string := radix 10 digit n.
Definition jdecZ (z : Z) : string :=
  if (z <? 0)%Z then String "-" (decN (Z.to_N (- z))) else decN (Z.to_N z).

Definition dval10 (c : ascii) : option N :=
  let n := cN c in if ((48 <=? n) && (n <=? 57))%N then Some (n - 48)%N else None.

(* longest prefix of digits, most significant first *)
Fixpoint parse_radix (b : N) (dval : ascii -> option N) (acc : N) (s : string) : N * string :=
  match s with
  | String c r => match dval c with
                  | Some d => parse_radix b dval (acc * b + d)%N r
                  | None => (acc, s)
                  end
  | "" => (acc, s)
  end.

(* at least one digit; no leading zero unless the number is the single digit 0 *)
Definition parse_nat (b : N) (dval : ascii -> option N) (s : string) : option (N * string) :=
  match s with
  | String c r =>
    match dval c with
    | None => None
    | Some d =>
      if (d =? 0)%N then
        match r with
        | String c' _ => match dval c' with Some _ => None | None => Some (0%N, r) end
        | "" => Some (0%N, r)
        end
      else Some (parse_radix b dval 0 s)
    end
  | "" => None
  end.

Definition parse_int (s : string) : option (Z * string) :=
  match s with
  | String "-" r => match parse_nat 10 dval10 r with
                    | Some (n, r') => Some ((- Z.of_N n)%Z, r')
                    | None => None
                    end
  | _ => match parse_nat 10 dval10 s with
         | Some (n, r') => Some (Z.of_N n, r')
         | None => None
         end
  end.

(* ---------- printer ---------- *)
Fixpoint print (j : json) : string :=
  match j with
  | JStr s => quote s
  | JInt z => jdecZ z
  | JObj kvs =>
    String "{" ((fix members (l : list (string * json)) : string :=
                   match l with
                   | [] => ""
                   | (k, v) :: r =>
                     (quote k ++ String ":" (print v ++
                        match r with [] => "" | _ => String "," (members r) end))%string
                   end) kvs ++ "}")%string
  end.

(* ---------- the encoder's order on map entries ---------- *)
Definition skey (k : string) : string := (quote k ++ ",")%string.
Definition kle (a b : string) : bool := String.leb (skey a) (skey b).

Section SortKV.
  Context {V : Type}.
  Fixpoint insert_kv (x : string * V) (l : list (string * V)) : list (string * V) :=
    match l with
    | [] => [x]
    | y :: r => if kle (fst x) (fst y) then x :: l else y :: insert_kv x r
    end.
  Definition sort_kv (l : list (string * V)) : list (string * V) := fold_right insert_kv [] l.
  Definition mapv {W : Type} (f : V -> W) (l : list (string * V)) : list (string * W) :=
    map (fun kv => (fst kv, f (snd kv))) l.
End SortKV.

(* a Go map[string]T whose values are encoded by [f] *)
Definition enc_map {V : Type} (f : V -> json) (m : list (string * V)) : json := JObj (sort_kv (mapv f m)).

(* ---------- reference parser ---------- *)
Definition hexv (c : ascii) : option N :=
  let n := cN c in
  if ((48 <=? n) && (n <=? 57))%N then Some (n - 48)%N
  else if ((97 <=? n) && (n <=? 102))%N then Some (n - 87)%N
  else if ((65 <=? n) && (n <=? 70))%N then Some (n - 55)%N
  else None.

Definition hex4 (h1 h2 h3 h4 : ascii) : option N :=
  match hexv h1, hexv h2, hexv h3, hexv h4 with
  | Some a, Some b, Some c, Some d => Some (((a * 16 + b) * 16 + c) * 16 + d)%N
  | _, _, _, _ => None
  end.

(* UTF-8 of a code point of the basic plane; surrogates have none *)
Definition utf8_enc (cp : N) : option string :=
  if (cp <? 128)%N then Some (String (ascii_of_N cp) "")
  else if (cp <? 2048)%N then
    Some (String (ascii_of_N (192 + cp / 64)%N) (String (ascii_of_N (128 + cp mod 64)%N) ""))
  else if ((55296 <=? cp) && (cp <=? 57343))%N then None
  else Some (String (ascii_of_N (224 + cp / 4096)%N)
            (String (ascii_of_N (128 + (cp / 64) mod 64)%N)
            (String (ascii_of_N (128 + cp mod 64)%N) ""))).

Definition opt_prepend (p : string) (r : option (string * string)) : option (string * string) :=
  match r with
  | Some (s, rest) => Some ((p ++ s)%string, rest)
  | None => None
  end.

(* [s] starts just after the opening quote; returns the decoded string and what follows the
   closing quote *)
Fixpoint unescape (s : string) : option (string * string) :=
  match s with
  | "" => None
  | String c0 r0 =>
    match lead_len c0 with
    | 1 =>
      if (cN c0 =? 34)%N then Some ("", r0)
      else if (cN c0 =? 92)%N then
        match r0 with
        | String e r1 =>
          if (cN e =? 34)%N then opt_prepend (String c_dq "") (unescape r1)
          else if (cN e =? 92)%N then opt_prepend (String c_bs "") (unescape r1)
          else if (cN e =? 47)%N then opt_prepend "/" (unescape r1)
          else if (cN e =? 98)%N then opt_prepend (String (ascii_of_N 8) "") (unescape r1)
          else if (cN e =? 102)%N then opt_prepend (String (ascii_of_N 12) "") (unescape r1)
          else if (cN e =? 110)%N then opt_prepend (String (ascii_of_N 10) "") (unescape r1)
          else if (cN e =? 114)%N then opt_prepend (String (ascii_of_N 13) "") (unescape r1)
          else if (cN e =? 116)%N then opt_prepend (String (ascii_of_N 9) "") (unescape r1)
          else if (cN e =? 117)%N then
            match r1 with
            | String h1 (String h2 (String h3 (String h4 r5))) =>
              match hex4 h1 h2 h3 h4 with
              | Some cp => match utf8_enc cp with
                           | Some bytes => opt_prepend bytes (unescape r5)
                           | None => None
                           end
              | None => None
              end
            | _ => None
            end
          else None
        | "" => None
        end
      else if (cN c0 <? 32)%N then None
      else opt_prepend (String c0 "") (unescape r0)
    | 2 => match r0 with
           | String c1 r1 =>
             if second_ok c0 c1 then opt_prepend (String c0 (String c1 "")) (unescape r1) else None
           | _ => None
           end
    | 3 => match r0 with
           | String c1 (String c2 r2) =>
             if second_ok c0 c1 && cont c2
             then opt_prepend (String c0 (String c1 (String c2 ""))) (unescape r2) else None
           | _ => None
           end
    | 4 => match r0 with
           | String c1 (String c2 (String c3 r3)) =>
             if second_ok c0 c1 && cont c2 && cont c3
             then opt_prepend (String c0 (String c1 (String c2 (String c3 "")))) (unescape r3) else None
           | _ => None
           end
    | _ => None
    end
  end.

(* members of a non-empty object: key colon value, separated by commas, up to the closing brace *)
Fixpoint parse_members (pv : string -> option (json * string)) (fuel : nat) (s : string)
  : option (list (string * json) * string) :=
  match fuel with
  | O => None
  | S g =>
    match s with
    | String q s0 =>
      if (cN q =? 34)%N then
        match unescape s0 with
        | Some (k, String colon s2) =>
          if (cN colon =? 58)%N then
            match pv s2 with
            | Some (v, String sep s4) =>
              if (cN sep =? 44)%N then
                match parse_members pv g s4 with
                | Some (kvs, s5) => Some ((k, v) :: kvs, s5)
                | None => None
                end
              else if (cN sep =? 125)%N then Some ([(k, v)], s4)
              else None
            | _ => None
            end
          else None
        | _ => None
        end
      else None
    | "" => None
    end
  end.

Fixpoint parse_value (fuel : nat) (s : string) : option (json * string) :=
  match fuel with
  | O => None
  | S f =>
    match s with
    | String c r =>
      if (cN c =? 34)%N then
        match unescape r with
        | Some (str, r') => Some (JStr str, r')
        | None => None
        end
      else if (cN c =? 123)%N then
        match r with
        | String c' r' =>
          if (cN c' =? 125)%N then Some (JObj [], r')
          else match parse_members (parse_value f) f r with
               | Some (kvs, r'') => Some (JObj kvs, r'')
               | None => None
               end
        | "" => None
        end
      else match parse_int s with
           | Some (z, r') => Some (JInt z, r')
           | None => None
           end
    | "" => None
    end
  end.

(* the whole text must be one value *)
Definition json_parse (s : string) : option json :=
  match parse_value (S (String.length s)) s with
  | Some (j, "") => Some j
  | _ => None
  end.

(* ---------- equality test used by correspondence cases ---------- *)
Definition opt_string_eqb (a b : option string) : bool := option_eqb String.eqb a b.
