(* Filter.v — model of filter/filter.go (New + the Start loop) and of the path from the four
   command-line filter flags to the filter's configuration.  Definitions only.

   Regular-expression matching is an oracle: [M item rel] is the result of Go's
   regexp.MustCompile(item).MatchString(rel) (an UNANCHORED search); the harness supplies it as a
   match matrix computed by Go's regexp.  An item that regexp.Compile rejects leaves a nil
   *Regexp in regexlist ([bad item = true]); calling MatchString on it panics. *)
From Bifrost.model Require Import Base.
From Bifrost.gen Require Import GenCli.

(* what the filter looks at in a WAL message; f_id identifies the message (the harness uses the
   position in the input stream) *)
Record fmsg := mkF { f_id : N; f_op : string; f_rel : string }.

Definition is_marker (m : fmsg) : bool :=
  String.eqb (f_op m) "BEGIN" || String.eqb (f_op m) "COMMIT".

(* the arguments of filter.New, in the shape cli_filter_cfg produces them *)
Definition fcfg := (bool * bool * list string)%type.   (* whitelist, regex, tablelist *)
Definition c_whitelist (c : fcfg) : bool := fst (fst c).
Definition c_regex (c : fcfg) : bool := snd (fst c).
Definition c_tablelist (c : fcfg) : list string := snd c.

(* New: passthrough := !whitelist && len(tablelist) == 0 *)
Definition passthrough (c : fcfg) : bool :=
  negb (c_whitelist c) && Nat.eqb (List.length (c_tablelist c)) 0.

(* the two search loops of Start, with their [break] *)
Fixpoint find_regex (bad : string -> bool) (M : string -> string -> bool) (rel : string)
         (items : list string) : option bool :=        (* None = nil *Regexp dereferenced *)
  match items with
  | [] => Some false
  | it :: r => if bad it then None
               else if M it rel then Some true
               else find_regex bad M rel r
  end.

Fixpoint find_plain (rel : string) (items : list string) : bool :=
  match items with
  | [] => false
  | it :: r => if String.eqb rel it then true else find_plain rel r
  end.

(* filtered := true; if whitelist { if found {filtered = false} } else { if !found {filtered = false} } *)
Definition keep (whitelist found : bool) : bool := if whitelist then found else negb found.

(* the decision for a row change when every regexp compiled (total; this is what the theorems
   relate to the user's intent) *)
Definition found (c : fcfg) (M : string -> string -> bool) (rel : string) : bool :=
  if c_regex c then existsb (fun it => M it rel) (c_tablelist c)
  else find_plain rel (c_tablelist c).

Definition decide (c : fcfg) (M : string -> string -> bool) (rel : string) : bool :=
  if passthrough c then true else keep (c_whitelist c) (found c M rel).

(* one iteration of the Start loop *)
Inductive verdict := Forward | Drop | Panic.

Definition step (c : fcfg) (bad : string -> bool) (M : string -> string -> bool) (m : fmsg) : verdict :=
  if passthrough c then Forward
  else if is_marker m then Forward
  else
    let fo := if c_regex c then find_regex bad M (f_rel m) (c_tablelist c)
              else Some (find_plain (f_rel m) (c_tablelist c)) in
    match fo with
    | None => Panic
    | Some f => if keep (c_whitelist c) f then Forward else Drop
    end.

(* the stage: the messages put on OutputChan, in order.  A panic is recovered by shutdown(),
   which closes the output channel: nothing after it is forwarded. *)
Inductive sres := Done (out : list fmsg) | Panicked (out : list fmsg).
Definition forwarded (r : sres) : list fmsg := match r with Done o => o | Panicked o => o end.
Definition cons_res (m : fmsg) (r : sres) : sres :=
  match r with Done o => Done (m :: o) | Panicked o => Panicked (m :: o) end.

Fixpoint stage (c : fcfg) (bad : string -> bool) (M : string -> string -> bool) (ms : list fmsg) : sres :=
  match ms with
  | [] => Done []
  | m :: r => match step c bad M m with
              | Forward => cons_res m (stage c bad M r)
              | Drop => stage c bad M r
              | Panic => Panicked []
              end
  end.

(* ---- the user's intent (property C08) ---- *)
Inductive fkind := WL | BL | WLR | BLR | NoFilter.

Definition permitted (k : fkind) (lst : list string) (M : string -> string -> bool) (rel : string) : Prop :=
  match k with
  | WL => In rel lst
  | BL => ~ In rel lst
  | WLR => exists r, In r lst /\ M r rel = true
  | BLR => forall r, In r lst -> M r rel = false
  | NoFilter => True
  end.

(* the configuration filter.New must receive for the filter stage to implement [permitted] *)
Definition cfg_of (k : fkind) (lst : list string) : fcfg :=
  match k with
  | WL => (true, false, lst) | BL => (false, false, lst)
  | WLR => (true, true, lst) | BLR => (false, true, lst)
  | NoFilter => (false, false, [])
  end.

(* the command line: values of --whitelist --blacklist --whitelist-regex --blacklist-regex *)
Definition cliflags := (list string * list string * list string * list string)%type.
Definition flags_of (k : fkind) (lst : list string) : cliflags :=
  match k with
  | WL => (lst, [], [], []) | BL => ([], lst, [], [])
  | WLR => ([], [], lst, []) | BLR => ([], [], [], lst)
  | NoFilter => ([], [], [], [])
  end.
Definition cli_cfg (f : cliflags) : option fcfg :=
  let '(wl, bl, wlr, blr) := f in cli_filter_cfg wl bl wlr blr.

Definition nonempty (l : list string) : bool := negb (Nat.eqb (List.length l) 0).
(* number of filter flags given *)
Definition flags_given (f : cliflags) : nat :=
  let '(wl, bl, wlr, blr) := f in
  List.length (List.filter nonempty [wl; bl; wlr; blr]).

(* ---- correspondence cases ---- *)
Definition str_mem (s : string) (l : list string) : bool := existsb (String.eqb s) l.
(* match matrix as the list of (item, relation) pairs for which Go's MatchString said true *)
Definition matrix_fn (mx : list (string * string)) (it rel : string) : bool :=
  existsb (fun p => String.eqb (fst p) it && String.eqb (snd p) rel) mx.

Definition fmsg_eqb (a b : fmsg) : bool :=
  (f_id a =? f_id b)%N && String.eqb (f_op a) (f_op b) && String.eqb (f_rel a) (f_rel b).

(* FILTER: ((whitelist, regex, tablelist), items that did not compile, match matrix, input stream,
            ids forwarded in order, output closed by a recovered panic) *)
Definition fcase := (fcfg * list string * list (string * string) * list fmsg * list N * bool)%type.

Definition fcase_ok (x : fcase) : bool :=
  let '(c, badl, mx, ms, out, panicked) := x in
  let r := stage c (fun it => str_mem it badl) (matrix_fn mx) ms in
  list_eqb N.eqb (map f_id (forwarded r)) out &&
  Bool.eqb (match r with Panicked _ => true | Done _ => false end) panicked.

(* CLI (end to end: the real binary, flags on its command line, stdout transport):
   (flags, match matrix, stream sent by the fake server, None = the binary refused the flags |
    Some ids = the row changes it printed, in order).  BEGIN/COMMIT are never printed. *)
Definition clicase := (cliflags * list (string * string) * list fmsg * option (list N))%type.

Definition clicase_ok (x : clicase) : bool :=
  let '(f, mx, ms, obs) := x in
  match cli_cfg f, obs with
  | None, None => true
  | Some c, Some out =>
      match stage c (fun _ => false) (matrix_fn mx) ms with
      | Done o => list_eqb N.eqb (map f_id (List.filter (fun m => negb (is_marker m)) o)) out
      | Panicked _ => false
      end
  | _, _ => false
  end.
