(* TestDecoding.v — SPEC SIDE (trusted, not checked against its original): what PostgreSQL's
   contrib/test_decoding output plugin prints with its default options (include-xids on,
   include-timestamp off, no streaming, no two-phase, no logical messages), written from
   test_decoding.c (pg_decode_begin_txn / pg_decode_commit_txn / pg_decode_change /
   pg_decode_truncate / tuple_to_stringinfo / print_literal), ruleutils.c quote_identifier and
   format_type.c format_type_be.  Definitions only. *)
From Bifrost.model Require Import Base.

Infix "+++" := String.append (right associativity, at level 60).

(* ---- quote_identifier ---- *)
Definition is_lower (c : ascii) : bool := let n := N_of_ascii c in (97 <=? n)%N && (n <=? 122)%N.
Definition is_digit (c : ascii) : bool := let n := N_of_ascii c in (48 <=? n)%N && (n <=? 57)%N.
Definition ident_start (c : ascii) : bool := is_lower c || Ascii.eqb c "_".
Definition ident_char (c : ascii) : bool := is_lower c || is_digit c || Ascii.eqb c "_".

Fixpoint str_all (p : ascii -> bool) (s : string) : bool :=
  match s with EmptyString => true | String c r => p c && str_all p r end.

(* keywords whose category is not UNRESERVED_KEYWORD (PostgreSQL 14 kwlist.h: RESERVED,
   TYPE_FUNC_NAME and COL_NAME keywords); quote_identifier quotes these even though their
   characters are safe.  No proof depends on the content of this list. *)
Definition keywords : list string :=
  [ "all"; "analyse"; "analyze"; "and"; "any"; "array"; "as"; "asc"; "asymmetric"; "both"; "case";
    "cast"; "check"; "collate"; "column"; "constraint"; "create"; "current_catalog"; "current_date";
    "current_role"; "current_time"; "current_timestamp"; "current_user"; "default"; "deferrable";
    "desc"; "distinct"; "do"; "else"; "end"; "except"; "false"; "fetch"; "for"; "foreign"; "from";
    "grant"; "group"; "having"; "in"; "initially"; "intersect"; "into"; "lateral"; "leading";
    "limit"; "localtime"; "localtimestamp"; "not"; "null"; "offset"; "on"; "only"; "or"; "order";
    "placing"; "primary"; "references"; "returning"; "select"; "session_user"; "some"; "symmetric";
    "table"; "then"; "to"; "trailing"; "true"; "union"; "unique"; "user"; "using"; "variadic";
    "when"; "where"; "window"; "with";
    "authorization"; "binary"; "collation"; "concurrently"; "cross"; "current_schema"; "freeze";
    "full"; "ilike"; "inner"; "is"; "isnull"; "join"; "left"; "like"; "natural"; "notnull"; "outer";
    "overlaps"; "right"; "similar"; "tablesample"; "verbose";
    "between"; "bigint"; "bit"; "boolean"; "char"; "character"; "coalesce"; "dec"; "decimal";
    "exists"; "extract"; "float"; "greatest"; "grouping"; "inout"; "int"; "integer"; "interval";
    "least"; "national"; "nchar"; "none"; "normalize"; "nullif"; "numeric"; "out"; "overlay";
    "position"; "precision"; "real"; "row"; "setof"; "smallint"; "substring"; "time"; "timestamp";
    "treat"; "trim"; "values"; "varchar"; "xmlattributes"; "xmlconcat"; "xmlelement"; "xmlexists";
    "xmlforest"; "xmlnamespaces"; "xmlparse"; "xmlpi"; "xmlroot"; "xmlserialize"; "xmltable" ].

Definition is_keyword (s : string) : bool := existsb (String.eqb s) keywords.

(* safe = first char [a-z_], all chars [a-z0-9_]; the empty identifier is not safe (ident[0]
   is the terminating NUL) and is printed as "" *)
Definition ident_safe (s : string) : bool :=
  match s with
  | EmptyString => false
  | String c r => ident_start c && str_all ident_char r
  end.

(* every occurrence of q doubled *)
Fixpoint dbl (q : ascii) (s : string) : string :=
  match s with
  | EmptyString => EmptyString
  | String c r => if Ascii.eqb c q then String q (String q (dbl q r)) else String c (dbl q r)
  end.

Definition dq : ascii := """"%char.
Definition sq : ascii := "'"%char.

Definition quote_ident (s : string) : string :=
  if ident_safe s && negb (is_keyword s) then s
  else String dq (dbl dq s +++ String dq EmptyString).

Definition qualified (ns rel : string) : string := quote_ident ns +++ "." +++ quote_ident rel.

(* ---- format_type_be (test_decoding passes no typmod) ----
   A column's type is carried as the string format_type_be printed.  [pgtype] generates the
   strings it can print: a built-in SQL spelling (words separated by single spaces, or the
   quoted "char"), or a possibly schema-qualified identifier; arrays get a "[]" suffix. *)
Inductive pgtype :=
| TBuiltin (words : string) (is_array : bool)            (* integer, character varying, timestamp with time zone, ... *)
| TQuotedChar (is_array : bool)                          (* "char" *)
| TNamed (ns : option string) (name : string) (is_array : bool).

Definition format_type (t : pgtype) : string :=
  let arr (b : bool) := if b then "[]" else "" in
  match t with
  | TBuiltin w a => w +++ arr a
  | TQuotedChar a => String dq ("char" +++ String dq (arr a))
  | TNamed None n a => quote_ident n +++ arr a
  | TNamed (Some ns) n a => quote_ident ns +++ "." +++ quote_ident n +++ arr a
  end.

(* ---- values as print_literal / tuple_to_stringinfo print them ---- *)
Inductive value :=
| VNull                      (* null *)
| VToast                     (* unchanged-toast-datum *)
| VRaw (s : string)          (* INT2/INT4/INT8/OID/FLOAT4/FLOAT8/NUMERIC output, or true/false for BOOL: printed as is *)
| VBit (bits : string)       (* BIT/VARBIT: B'<bits>' *)
| VText (s : string).        (* everything else: '<s with ' doubled>' *)

Definition print_value (v : value) : string :=
  match v with
  | VNull => "null"
  | VToast => "unchanged-toast-datum"
  | VRaw s => s
  | VBit b => "B'" +++ b +++ "'"
  | VText s => String sq (dbl sq s +++ String sq EmptyString)
  end.

Record col := mkCol { c_name : string; c_type : string; c_val : value }.
Definition tuple := list col.

Definition print_col (c : col) : string :=
  " " +++ quote_ident (c_name c) +++ "[" +++ c_type c +++ "]:" +++ print_value (c_val c).

Fixpoint print_tuple (t : tuple) : string :=
  match t with [] => "" | c :: r => print_col c +++ print_tuple r end.

Definition print_tuple_opt (t : option tuple) : string :=
  match t with None => " (no-tuple-data)" | Some t => print_tuple t end.

(* ---- changes ---- *)
Inductive change :=
| CBegin (xid : N)
| CCommit (xid : N)
| CInsert (ns rel : string) (new : option tuple)
| CUpdate (ns rel : string) (old : option tuple) (new : option tuple)
| CDelete (ns rel : string) (old : option tuple)
| CTruncate (rels : list (string * string)) (restart_seqs cascade : bool).

Fixpoint print_rels (rels : list (string * string)) : string :=
  match rels with
  | [] => ""
  | [(ns, rel)] => qualified ns rel
  | (ns, rel) :: r => qualified ns rel +++ ", " +++ print_rels r
  end.

Definition print (c : change) : string :=
  match c with
  | CBegin x => "BEGIN " +++ dec x
  | CCommit x => "COMMIT " +++ dec x
  | CInsert ns rel new => "table " +++ qualified ns rel +++ ":" +++ " INSERT:" +++ print_tuple_opt new
  | CUpdate ns rel old new =>
      "table " +++ qualified ns rel +++ ":" +++ " UPDATE:" +++
      match old with
      | Some o => " old-key:" +++ print_tuple o +++ " new-tuple:" +++ print_tuple_opt new
      | None => print_tuple_opt new
      end
  | CDelete ns rel old => "table " +++ qualified ns rel +++ ":" +++ " DELETE:" +++ print_tuple_opt old
  | CTruncate rels rs ca =>
      "table " +++ print_rels rels +++ ": TRUNCATE:" +++
      (if rs || ca then (if rs then " restart_seqs" else "") +++ (if ca then " cascade" else "")
       else " (no-flags)")
  end.
