(* Batch.v — model of transport/batch/generic_batch.go, transport/transporters/kinesis/batch/batch.go
   and progress.UpdateTransactions (definitions only).  A marshalled message is represented by its
   identity and the LENGTH of its JSON; the bytes themselves play no role in any batch decision. *)
From Bifrost.model Require Import Base.

Record msg := mkMsg {
  m_id : N;            (* identity given by the harness / position in the stream *)
  m_op : string;       (* Operation *)
  m_table : string;
  m_jlen : N;          (* len(Json) *)
  m_key : string;      (* TimeBasedKey *)
  m_txn : string;      (* Transaction *)
  m_wal : N;           (* WalStart *)
  m_pkey : string }.   (* PartitionKey *)

Definition is_marker (m : msg) : bool := String.eqb (m_op m) "BEGIN" || String.eqb (m_op m) "COMMIT".

(* progress.Written inside a batch's ordered transactions map: key -> (txn, count) *)
Definition txmap := list (string * (string * Z)).

(* progress.UpdateTransactions *)
Definition update_transactions (m : msg) (t : txmap) : txmap :=
  match aget (m_key m) t with
  | None => t ++ [(m_key m, (m_txn m, 1%Z))]
  | Some (tx, c) => aset (m_key m) (tx, (c + 1)%Z) t
  end.

Inductive kinesis_method := KWalStart | KBatch.

Inductive bkind :=
| BGeneric (max_size : Z)              (* GenericBatch: stdout, S3, RabbitMQ *)
| BKinesis (method : kinesis_method).

(* limits of the Kinesis batch; the values used by the code come from gen/GenConsts.v *)
Record klimits := mkLimits { max_records : N; max_batch_bytes : N; max_record_bytes : N }.

Record rec := mkRec { r_id : N; r_pk : string; r_len : N }.   (* a PutRecordsRequestEntry *)

Record batch := mkBatch {
  b_kind : bkind;
  b_pkey : string;              (* partition key of the batch *)
  b_items : list rec;           (* messages / records in order (generic: r_pk unused = "") *)
  b_txns : txmap;
  b_bytes : N }.                (* byteSize / batchSizeBytes *)

Definition new_batch (k : bkind) (pkey : string) : batch := mkBatch k pkey [] [] 0.

Definition nitems (b : batch) : Z := Z.of_nat (List.length (b_items b)).

Definition is_full (L : klimits) (b : batch) : bool :=
  match b_kind b with
  | BGeneric mx => (mx <=? nitems b)%Z
  | BKinesis _ => (Z.of_N (max_records L) <=? nitems b)%Z
  end.

Definition is_empty (b : batch) : bool := match b_items b with [] => true | _ => false end.

Inductive add_result := AOk | ATooBig | AFull | ACantFit | AInvalid.

Definition add (L : klimits) (b : batch) (m : msg) : batch * add_result :=
  if is_marker m then (b, AOk) else
  match b_kind b with
  | BGeneric mx =>
      if (nitems b =? mx)%Z then (b, AFull)
      else (mkBatch (b_kind b) (b_pkey b) (b_items b ++ [mkRec (m_id m) "" (m_jlen m)])
                    (update_transactions m (b_txns b)) (b_bytes b + m_jlen m), AOk)
  | BKinesis meth =>
      if (max_record_bytes L <? m_jlen m)%N
      then (mkBatch (b_kind b) (b_pkey b) (b_items b) (update_transactions m (b_txns b)) (b_bytes b), ATooBig)
      else if is_full L b then (b, AFull)
      else
        let pk := match meth with KWalStart => dec (m_wal m) | KBatch => m_pkey m end in
        let rsize := (m_jlen m + N.of_nat (String.length pk))%N in
        if (max_batch_bytes L <? rsize + b_bytes b)%N then (b, ACantFit)
        else if String.eqb pk "" then (b, AInvalid)   (* PutRecordsRequestEntry.Validate: key min length 1 *)
        else (mkBatch (b_kind b) (b_pkey b) (b_items b ++ [mkRec (m_id m) pk (m_jlen m)])
                      (update_transactions m (b_txns b)) (b_bytes b + rsize), AOk)
  end.

(* ---- equality tests for the correspondence ---- *)
Definition rec_eqb (a b : rec) : bool :=
  (r_id a =? r_id b)%N && String.eqb (r_pk a) (r_pk b) && (r_len a =? r_len b)%N.
Definition tx_eqb (a b : string * (string * Z)) : bool :=
  String.eqb (fst a) (fst b) && String.eqb (fst (snd a)) (fst (snd b)) && (snd (snd a) =? snd (snd b))%Z.
Definition add_result_eqb (a b : add_result) : bool :=
  match a, b with
  | AOk, AOk | ATooBig, ATooBig | AFull, AFull | ACantFit, ACantFit | AInvalid, AInvalid => true
  | _, _ => false
  end.

(* correspondence case for BATCH: kind, limits (the code's constants, handed over by the harness
   from the real package constants), partition key, messages; observed per Add: result, IsFull,
   IsEmpty, NumMessages, byte size; finally the records and the transactions map *)
Definition bcase := (bkind * klimits * string * list msg *
                     list (add_result * bool * bool * Z * N) * list rec * txmap)%type.

Fixpoint run_adds (L : klimits) (b : batch) (ms : list msg) : batch * list (add_result * bool * bool * Z * N) :=
  match ms with
  | [] => (b, [])
  | m :: r => let '(b', x) := add L b m in
              let '(b'', xs) := run_adds L b' r in
              (b'', (x, is_full L b', is_empty b', nitems b', b_bytes b') :: xs)
  end.

Definition bcase_ok (c : bcase) : bool :=
  let '(k, L, pk, ms, obs, recs, txs) := c in
  let '(b, mobs) := run_adds L (new_batch k pk) ms in
  list_eqb (fun a b => let '(r1, f1, e1, n1, s1) := a in let '(r2, f2, e2, n2, s2) := b in
                       add_result_eqb r1 r2 && Bool.eqb f1 f2 && Bool.eqb e1 e2 && (n1 =? n2)%Z && (s1 =? s2)%N) mobs obs &&
  list_eqb rec_eqb (b_items b) recs && list_eqb tx_eqb (b_txns b) txs.
