(* Kafka.v — model of transport/transporters/kafka/batch/batch.go (KafkaBatch),
   progress.UpdateTransactions (transport/progress/utils.go) and
   transport/transporters/kafka/transporter/transporter.go (sendBatchToKafka, StartTransporting,
   shutdown).  Definitions only.

   Library fact used (sarama v1.38.1, async_producer.go / record.go, read not verified):
   ProducerMessage.ByteSize(2) = maximumRecordOverhead (36) + |key| + |value| for a message
   without headers; a nil Key contributes 0. *)
From Bifrost.model Require Import Base.

(* ------------------------------------------------------------------ *)
(* KafkaBatch                                                           *)
(* ------------------------------------------------------------------ *)

(* utils.KafkaPartitionMethod, in the order of the iota block *)
Inductive kmethod := KTxn | KBatch | KRandom | KTxnConst | KTableName.

(* the fields of marshaller.MarshalledMessage that the Kafka path reads *)
Record kmsg := mkKMsg {
  m_op : string; m_json : string; m_tbk : string; m_txn : string; m_table : string }.

(* the fields of sarama.ProducerMessage that KafkaBatch.Add sets; Key = nil is None *)
Record pmsg := mkPMsg { p_topic : string; p_key : option string; p_value : string }.

(* NewKafkaBatch arguments.  c_uuid is kafkaPartitionKey: uuid.NewString() when the method is
   KBatch (opaque per-batch input), "" otherwise (never read then). *)
Record kcfg := mkKCfg {
  c_topic : string; c_max_batch : Z; c_max_bytes : Z; c_method : kmethod; c_uuid : string }.

(* transactions: ordered_map TimeBasedKey -> &Written{Transaction, TimeBasedKey, Count} *)
Definition txns := list (string * (string * Z)).

Record kbatch := mkKBatch { b_msgs : list pmsg; b_txns : txns; b_bytes : Z }.

Definition empty_batch : kbatch := mkKBatch [] [] 0.

Definition is_control (m : kmsg) : bool :=
  String.eqb (m_op m) "BEGIN" || String.eqb (m_op m) "COMMIT".

(* progress.UpdateTransactions: new key -> Set (appends) Written{txn, key, 1};
   existing key -> Count += 1 through the stored pointer (Transaction is left as first stored) *)
Definition update_transactions (m : kmsg) (t : txns) : txns :=
  match aget (m_tbk m) t with
  | None => aset (m_tbk m) (m_txn m, 1%Z) t
  | Some (tx, c) => aset (m_tbk m) (tx, (c + 1)%Z) t
  end.

Definition key_for (cfg : kcfg) (m : kmsg) : option string :=
  match c_method cfg with
  | KTxn => Some (m_tbk m)
  | KTxnConst => Some (m_txn m)
  | KBatch => Some (c_uuid cfg)
  | KTableName => Some (m_table m)
  | KRandom => None
  end.

Definition to_pmsg (cfg : kcfg) (m : kmsg) : pmsg :=
  mkPMsg (c_topic cfg) (key_for cfg m) (m_json m).

Definition slen (s : string) : Z := Z.of_nat (String.length s).
Definition klen (k : option string) : Z := match k with None => 0%Z | Some s => slen s end.

Definition record_overhead : Z := 36.
(* sarama ProducerMessage.ByteSize(2), no headers *)
Definition byte_size (p : pmsg) : Z := (record_overhead + klen (p_key p) + slen (p_value p))%Z.

(* (true,nil) | (false,"batch is full") | (false, ERR_MSG_TOOBIG) *)
Inductive ares := AOk | AFull | ATooBig.

Definition num_msgs (b : kbatch) : Z := Z.of_nat (List.length (b_msgs b)).

Definition add (cfg : kcfg) (b : kbatch) (m : kmsg) : kbatch * ares :=
  if is_control m then (b, AOk)
  else if (num_msgs b =? c_max_batch cfg)%Z then (b, AFull)
  else
    let p := to_pmsg cfg m in
    if (byte_size p >? c_max_bytes cfg)%Z
    then (mkKBatch (b_msgs b) (update_transactions m (b_txns b)) (b_bytes b), ATooBig)
    else (mkKBatch (b_msgs b ++ [p]) (update_transactions m (b_txns b)) (b_bytes b + slen (m_json m))%Z, AOk).

Definition is_full (cfg : kcfg) (b : kbatch) : bool := (num_msgs b >=? c_max_batch cfg)%Z.
Definition is_empty (b : kbatch) : bool := match b_msgs b with [] => true | _ => false end.

(* a sequence of Add calls on one batch; every result is recorded (the batcher decides what to
   do with Full/TooBig, the batch itself stays usable) *)
Fixpoint add_run (cfg : kcfg) (b : kbatch) (ms : list kmsg) : kbatch * list ares :=
  match ms with
  | [] => (b, [])
  | m :: r => let '(b1, x) := add cfg b m in
              let '(b2, xs) := add_run cfg b1 r in (b2, x :: xs)
  end.

(* the same with the getters read after every Add:
   (result, IsFull, IsEmpty, GetPayloadByteSize, NumMessages) *)
Definition aobs := (ares * bool * bool * Z * Z)%type.

Fixpoint add_run_obs (cfg : kcfg) (b : kbatch) (ms : list kmsg) : kbatch * list aobs :=
  match ms with
  | [] => (b, [])
  | m :: r => let '(b1, x) := add cfg b m in
              let '(b2, xs) := add_run_obs cfg b1 r in
              (b2, (x, is_full cfg b1, is_empty b1, b_bytes b1, num_msgs b1) :: xs)
  end.

(* the batch the batcher hands to a worker *)
Definition build (cfg : kcfg) (ms : list kmsg) : kbatch := fst (add_run cfg empty_batch ms).

(* ------------------------------------------------------------------ *)
(* KafkaTransporter                                                     *)
(* ------------------------------------------------------------------ *)

(* what SyncProducer.SendMessages returns: nil | sarama.ProducerErrors for the listed message
   indices (possibly empty: a non-nil error of length 0) | any other error type *)
Inductive presult := PAllOk | PFailed (rejected : list nat) | POther.

(* where, relative to one loop iteration, TerminateCtx is cancelled from outside:
   CBeforeRecv  while the worker waits in the first select (the batch is not processed);
   CBeforeSend  after the second select and before the select of sendBatchToKafka;
   CDuringSend  while SendMessages runs *)
Inductive cpoint := CNone | CBeforeRecv | CBeforeSend | CDuringSend.

(* what arrives on inputChan: a *KafkaBatch built by Add calls, or some other transport.Batch *)
Inductive tbatch := TKafka (cfg : kcfg) (ms : list kmsg) | TNotKafka.

Record tstep := mkStep { s_batch : tbatch; s_cancel : cpoint; s_result : presult }.

Definition stat := (string * Z)%type.

(* sendBatchToKafka.  SPanic = the type assertion err.(sarama.ProducerErrors) fails. *)
Inductive sres := SCancelled | SOk | SErr | SPanic.

Definition send_batch (ctx_done : bool) (pr : presult) : sres * list stat * bool (* SendMessages called *) :=
  if ctx_done then (SCancelled, [], false)
  else match pr with
       | PAllOk => (SOk, [("success", 1%Z)], true)
       | PFailed rej => (SErr, [("failure", Z.of_nat (List.length rej))], true)
       | POther => (SPanic, [], true)
       end.

(* per batch offered to the worker: what SendMessages received (None = not called), what was
   put on txnsWritten (None = nothing) *)
Record tobs := mkObs { o_sent : option (list pmsg); o_written : option txns }.

(* how one iteration of the for loop ends: back to the loop head (with the state of
   TerminateCtx), or StartTransporting returns / panics (deferred shutdown runs) *)
Inductive flow := Loop (ctx_done : bool) | Return.

Definition iterate (s : tstep) : tobs * list stat * flow :=
  match s_cancel s with
  | CBeforeRecv => (mkObs None None, [], Return)              (* first select: TerminateCtx.Done() *)
  | cp =>
    match s_batch s with
    | TNotKafka => (mkObs None None, [], Return)              (* panic("Batch is not a KafkaBatch") *)
    | TKafka cfg ms =>
      let b := build cfg ms in
      let ctx_done := match cp with CBeforeSend => true | _ => false end in
      let '(r, st, called) := send_batch ctx_done (s_result s) in
      let sent := if called then Some (b_msgs b) else None in
      let after := match cp with CNone => false | _ => true end in
      match r with
      | SPanic => (mkObs sent None, st, Return)
      | SErr => (mkObs sent None, st ++ [("duration", 0%Z)], Return)
      | SCancelled => (mkObs sent None, st ++ [("duration", 0%Z)], Loop true)
      | SOk => (mkObs sent (Some (b_txns b)),
                st ++ [("duration", 0%Z); ("written", num_msgs b)], Loop after)
      end
    end
  end.

(* observable state when the script is exhausted (before the harness closes inputChan):
   stopped = StartTransporting returned; terminated = TerminateCtx cancelled;
   closes = number of kafkaProducer.Close calls; chan_closed = txnsWritten closed *)
Record trun := mkRun {
  r_obs : list tobs; r_stats : list stat;
  r_stopped : bool; r_terminated : bool; r_closes : N; r_chan_closed : bool }.

(* deferred shutdown(): Close the producer, CancelFunc(), recover, close(txnsWritten) *)
Definition shutdown_run (obs : list tobs) (st : list stat) : trun := mkRun obs st true true 1 true.
(* worker blocked in the first select, context not cancelled *)
Definition alive_run : trun := mkRun [] [] false false 0 false.

Definition run_cons (o : tobs) (st : list stat) (r : trun) : trun :=
  mkRun (o :: r_obs r) (st ++ r_stats r) (r_stopped r) (r_terminated r) (r_closes r) (r_chan_closed r).

Fixpoint tloop (ctx_done : bool) (sc : list tstep) : trun :=
  if ctx_done then shutdown_run [] []
  else match sc with
       | [] => alive_run
       | s :: rest =>
         let '(o, st, f) := iterate s in
         match f with
         | Return => shutdown_run [o] st
         | Loop d => run_cons o st (tloop d rest)
         end
       end.

Definition transport (sc : list tstep) : trun := tloop false sc.

(* ------------------------------------------------------------------ *)
(* correspondence                                                       *)
(* ------------------------------------------------------------------ *)
Definition ares_eqb (a b : ares) : bool :=
  match a, b with AOk, AOk | AFull, AFull | ATooBig, ATooBig => true | _, _ => false end.
Definition pmsg_eqb (a b : pmsg) : bool :=
  String.eqb (p_topic a) (p_topic b) && option_eqb String.eqb (p_key a) (p_key b) &&
  String.eqb (p_value a) (p_value b).
Definition txn_eqb (a b : string * (string * Z)) : bool :=
  String.eqb (fst a) (fst b) && String.eqb (fst (snd a)) (fst (snd b)) && (snd (snd a) =? snd (snd b))%Z.
Definition aobs_eqb (a b : aobs) : bool :=
  let '(r1, f1, e1, s1, n1) := a in
  let '(r2, f2, e2, s2, n2) := b in
  ares_eqb r1 r2 && Bool.eqb f1 f2 && Bool.eqb e1 e2 && (s1 =? s2)%Z && (n1 =? n2)%Z.
Definition tobs_eqb (a b : tobs) : bool :=
  option_eqb (list_eqb pmsg_eqb) (o_sent a) (o_sent b) &&
  option_eqb (list_eqb txn_eqb) (o_written a) (o_written b).
Definition stat_eqb (a b : stat) : bool := String.eqb (fst a) (fst b) && (snd a =? snd b)%Z.

(* a case is a tagged union:
   KFAdd  cfg msgs | per-Add observations, produced messages, transactions (in map order)
   KFRun  script   | per-batch observations, stats in order, stopped, terminated, closes, chan closed *)
Inductive kfcase :=
| KFAdd (cfg : kcfg) (ms : list kmsg) (obs : list aobs) (produced : list pmsg) (tx : txns)
| KFRun (sc : list tstep) (obs : list tobs) (st : list stat)
        (stopped terminated : bool) (closes : N) (chan_closed : bool).

Definition kfcase_ok (c : kfcase) : bool :=
  match c with
  | KFAdd cfg ms obs produced tx =>
    let '(b, mobs) := add_run_obs cfg empty_batch ms in
    list_eqb aobs_eqb mobs obs && list_eqb pmsg_eqb (b_msgs b) produced &&
    list_eqb txn_eqb (b_txns b) tx
  | KFRun sc obs st stopped terminated closes chan_closed =>
    let r := transport sc in
    list_eqb tobs_eqb (r_obs r) obs && list_eqb stat_eqb (r_stats r) st &&
    Bool.eqb (r_stopped r) stopped && Bool.eqb (r_terminated r) terminated &&
    (r_closes r =? closes)%N && Bool.eqb (r_chan_closed r) chan_closed
  end.
