(* Front.v — the three stateless front stages composed as app/runner.go wires them (definitions only):

     replication client --*WalMessage--> [filter.Start] --> [partitioner.Start] --> [marshaller.Start]
                                                                                          |
                                                            *MarshalledMessage  ----------+--> batcher (model/Pipeline.v)

   The three stages are sequential loops connected by UNBUFFERED channels, so the composition is
   a function of the input stream: every message goes through filter.go's verdict (model/Filter.v,
   [step]), then gets the partition key of partitioner.go (model/Partition.v, [pkey]), then is
   turned into a MarshalledMessage by marshaller.go, which copies Operation, Relation,
   TimeBasedKey, WalStart, Transaction and PartitionKey and attaches the JSON.  Filter.v's and
   Partition.v's definitions are REUSED, not re-modelled.

   The JSON is represented by its LENGTH only (as in model/Batch.v) and that length is a function
   argument [jlen]: everything stated about the front holds for every marshalling function; the
   bytes are the business of component MARSHAL (model/Marshal.v).  The error branch of
   marshaller.Start (gojson.Marshal fails: message dropped, failure stat) is not modelled, as in
   Marshal.v.

   A panic in a stage (nil *Regexp in the filter, division by zero in the partitioner) is recovered
   by that stage's shutdown(), which cancels the shared context: every stage then stops.  [front]
   stops the stream at that point and says which stage stopped.  In the running system the one or
   two messages that were in flight BETWEEN the stages at that moment may be dropped (each stage
   selects between its send and the cancellation), so what the batcher receives is an initial
   segment of [front]'s output; the correspondence check accepts exactly the losses the wiring
   allows ([max_lost]) and the theorems are stated for every initial segment. *)
From Bifrost.model Require Import Base Crc32 Batch Filter Partition.

(* what the front stages look at in a *replication.WalMessage; w_id identifies the message (the
   harness uses the position in the input stream) *)
Record wal := mkWal {
  w_id : N;
  w_op : string;       (* Pr.Operation *)
  w_rel : string;      (* Pr.Relation *)
  w_txn : string;      (* Pr.Transaction *)
  w_key : string;      (* TimeBasedKey *)
  w_wal : N }.         (* WalStart *)

(* the part the filter sees *)
Definition fmsg_of (w : wal) : fmsg := mkF (w_id w) (w_op w) (w_rel w).

(* the arguments runner.go hands to filter.New and partitioner.New *)
Record frcfg := mkFront {
  fr_filter : fcfg;          (* whitelist, regex, tablelist *)
  fr_method : pmethod;       (* partMethod *)
  fr_buckets : N }.          (* partPartitions *)

(* marshaller.Start: &MarshalledMessage{Operation, Relation, Json, TimeBasedKey, WalStart, Transaction, PartitionKey} *)
Definition marshal (jlen : wal -> N) (w : wal) (pk : string) : msg :=
  mkMsg (w_id w) (w_op w) (w_rel w) (jlen w) (w_key w) (w_txn w) (w_wal w) pk.

(* one message through the three stages *)
Inductive fstep :=
| FOut (m : msg)             (* it leaves the marshaller *)
| FDropped                   (* the filter removes it *)
| FPanicFilter               (* the filter panics on it *)
| FPanicPartition.           (* the filter forwards it, the partitioner panics on it *)

Definition front_step (cfg : frcfg) (bad : string -> bool) (M : string -> string -> bool)
           (jlen : wal -> N) (w : wal) : fstep :=
  match Filter.step (fr_filter cfg) bad M (fmsg_of w) with
  | Drop => FDropped
  | Panic => FPanicFilter
  | Forward =>
      match pkey (fr_method cfg) (fr_buckets cfg) (w_rel w) (w_txn w) with
      | PPanic => FPanicPartition
      | PKey k => FOut (marshal jlen w k)
      end
  end.

(* which stage stopped the stream *)
Inductive fstop := StopNone | StopFilter | StopPartition.
Definition stopped (s : fstop) : bool := match s with StopNone => false | _ => true end.

(* the stream: the messages that leave the marshaller, in order *)
Fixpoint front (cfg : frcfg) (bad : string -> bool) (M : string -> string -> bool)
         (jlen : wal -> N) (ws : list wal) : list msg * fstop :=
  match ws with
  | [] => ([], StopNone)
  | w :: r =>
      match front_step cfg bad M jlen w with
      | FOut m => let '(o, s) := front cfg bad M jlen r in (m :: o, s)
      | FDropped => front cfg bad M jlen r
      | FPanicFilter => ([], StopFilter)
      | FPanicPartition => ([], StopPartition)
      end
  end.

(* the input messages the stages consumed before any of them stopped *)
Fixpoint consumed (cfg : frcfg) (bad : string -> bool) (M : string -> string -> bool) (ws : list wal) : list wal :=
  match ws with
  | [] => []
  | w :: r =>
      match front_step cfg bad M (fun _ => 0%N) w with
      | FOut _ | FDropped => w :: consumed cfg bad M r
      | _ => []
      end
  end.

(* messages that can be in flight between the stopping stage and the marshaller's output when the
   shared context is cancelled: one held by every stage downstream of the one that stopped *)
Definition max_lost (s : fstop) : nat :=
  match s with StopNone => 0 | StopFilter => 2 | StopPartition => 1 end.

(* ---- correspondence cases ---- *)
(* the JSON lengths observed at the marshaller's output, by message id (0 for a message that did
   not come out: its length plays no role) *)
Definition jl_lookup (jl : list (N * N)) (w : wal) : N :=
  match find (fun p => (fst p =? w_id w)%N) jl with Some p => snd p | None => 0%N end.

(* a MarshalledMessage as observed: (id, Operation, Table, len(Json), TimeBasedKey, Transaction,
   WalStart, PartitionKey); the id is recovered by the harness from the (pairwise distinct) WalStart *)
Definition frobs := (N * string * string * N * string * string * N * string)%type.

Definition obs_of (m : msg) : frobs :=
  (m_id m, m_op m, m_table m, m_jlen m, m_key m, m_txn m, m_wal m, m_pkey m).

Definition frobs_eqb (a b : frobs) : bool :=
  let '(i1, o1, t1, j1, k1, x1, l1, p1) := a in
  let '(i2, o2, t2, j2, k2, x2, l2, p2) := b in
  (i1 =? i2)%N && String.eqb o1 o2 && String.eqb t1 t2 && (j1 =? j2)%N && String.eqb k1 k2 &&
  String.eqb x1 x2 && (l1 =? l2)%N && String.eqb p1 p2.

(* FRONT: ((whitelist, regex, tablelist), items that did not compile, match matrix,
           partition method name as given to --partition-method, bucket count, input stream,
           observed JSON lengths by id,
           messages that left the marshaller in order, a stage stopped before the input was exhausted).
   The observed stream must be the model's output short of at most [max_lost] in-flight messages. *)
Definition frcase := (fcfg * list string * list (string * string) * string * N * list wal *
                      list (N * N) * list frobs * bool)%type.

Definition frcase_ok (x : frcase) : bool :=
  let '(c, badl, mx, mname, buckets, ws, jl, obs, stop) := x in
  let '(out, s) := front (mkFront c (pmethod_of_name mname) buckets)
                         (fun it => str_mem it badl) (matrix_fn mx) (jl_lookup jl) ws in
  let n := List.length obs in
  Bool.eqb (stopped s) stop &&
  (n <=? List.length out)%nat && (List.length out - n <=? max_lost s)%nat &&
  list_eqb frobs_eqb (map obs_of (firstn n out)) obs.
