(* Pipeline.v — the batcher, N sequential workers, the written queue and the progress ledger
   composed as app/runner.go wires them (definitions only).

     marshaller -> [Batcher] --OBatch w--> queue of worker w --accept--> sink
                      |  \--OEmptyWritten--------------------\            |
                      |                                       v           v
                      \--OSeenList (unbuffered: atomic)--> [Ledger] <-- written queue (FIFO)
                                                              |
                                                           emit --> acknowledged positions

   An execution is a list of labels saying WHICH component moves; "for all schedules" is
   "for all label lists".  The client (C03) only ever acknowledges values the ledger emitted.
   Retries and retryable sink failures are stuttering (no label).  A worker reports a batch
   written only after the sink accepted it (C11-C14): one label [LAccept w] does both, the report
   then waits in the FIFO written queue until the tracker reads it. *)
From Bifrost.model Require Import Base Batch Batcher Ledger.

Inductive plabel :=
| LFeed (now : Z) (m : msg)                       (* the batcher receives and fully processes m *)
| LTick (now : Z) (order pops : list string)      (* a batcher tick with its oracles *)
| LAccept (w : N)                                 (* the sink accepts the head batch of worker w; w reports it *)
| LRead                                           (* the tracker reads one report off the written queue *)
| LEmit.                                          (* tracker tick: emitProgress *)

Record pstate := mkPst {
  p_b : bstate;
  p_queues : list (N * list batch);      (* per worker, FIFO, head first *)
  p_written : list txmap;                (* txnsWritten channel, FIFO, head first *)
  p_ledger : ledger;
  p_accepted : list rec;                 (* ghost: every record the sink has accepted, in order *)
  p_acked : list N;                      (* ghost: positions emitted so far, oldest first *)
  p_lops : list lop;                     (* ghost: the operations applied to the ledger, in order *)
  p_failed : bool }.                     (* updateSeen returned an error: the tracker panicked *)

Definition pinit : pstate := mkPst binit [] [] empty_ledger [] [] [] false.

Definition enqueue (w : N) (b : batch) (qs : list (N * list batch)) : list (N * list batch) :=
  let fix go qs :=
    match qs with
    | [] => [(w, [b])]
    | (w', q) :: r => if (w =? w')%N then (w', q ++ [b]) :: r else (w', q) :: go r
    end in go qs.

Fixpoint dequeue (w : N) (qs : list (N * list batch)) : option (batch * list (N * list batch)) :=
  match qs with
  | [] => None
  | (w', q) :: r =>
      if (w =? w')%N then match q with [] => None | b :: q' => Some (b, (w', q') :: r) end
      else match dequeue w r with Some (b, r') => Some (b, (w', q) :: r') | None => None end
  end.

Definition seen_ops (l : list seen) : list lop :=
  map (fun s => OSeen (s_txn s) (s_key s) (s_total s) (s_commit s)) l.
Definition written_ops (t : txmap) : list lop :=
  map (fun p => OWritten (fst (snd p)) (fst p) (snd (snd p))) t.

(* apply operations to the ledger; stop at the first error *)
Fixpoint apply_lops (l : ledger) (ops : list lop) : ledger * bool (* failed *) :=
  match ops with
  | [] => (l, false)
  | o :: r => match lstep l o with
              | (l', RError) => (l', true)
              | (l', _) => apply_lops l' r
              end
  end.

(* route the batcher's outputs *)
Fixpoint route (st : pstate) (outs : list bout) : pstate :=
  match outs with
  | [] => st
  | o :: r =>
      let st' :=
        match o with
        | OSeenList l =>
            let '(lg, f) := apply_lops (p_ledger st) (seen_ops l) in
            mkPst (p_b st) (p_queues st) (p_written st) lg (p_accepted st) (p_acked st)
                  (p_lops st ++ seen_ops l) (p_failed st || f)
        | OBatch w b =>
            mkPst (p_b st) (enqueue w b (p_queues st)) (p_written st) (p_ledger st) (p_accepted st) (p_acked st)
                  (p_lops st) (p_failed st)
        | OEmptyWritten t =>
            mkPst (p_b st) (p_queues st) (p_written st ++ [t]) (p_ledger st) (p_accepted st) (p_acked st)
                  (p_lops st) (p_failed st)
        | OFatal => st
        end in
      route st' r
  end.

Definition set_b (st : pstate) (b : bstate) : pstate :=
  mkPst b (p_queues st) (p_written st) (p_ledger st) (p_accepted st) (p_acked st) (p_lops st) (p_failed st).

Definition pstep (cfg : bcfg) (st : pstate) (l : plabel) : pstate :=
  if p_failed st then st else
  match l with
  | LFeed now m =>
      if dead (p_b st) then st
      else let '(b', outs) := bstep_msg cfg (p_b st) now m in route (set_b st b') outs
  | LTick now order pops =>
      match bstep_tick cfg (p_b st) now order pops with
      | Some (b', outs) => route (set_b st b') outs
      | None => st
      end
  | LAccept w =>
      match dequeue w (p_queues st) with
      | Some (b, qs) =>
          mkPst (p_b st) qs (p_written st ++ [b_txns b]) (p_ledger st) (p_accepted st ++ b_items b)
                (p_acked st) (p_lops st) (p_failed st)
      | None => st
      end
  | LRead =>
      match p_written st with
      | [] => st
      | t :: r =>
          let '(lg, f) := apply_lops (p_ledger st) (written_ops t) in
          mkPst (p_b st) (p_queues st) r lg (p_accepted st) (p_acked st) (p_lops st ++ written_ops t) (p_failed st || f)
      end
  | LEmit =>
      match emit (p_ledger st) with
      | (Some f, lg) => mkPst (p_b st) (p_queues st) (p_written st) lg (p_accepted st) (p_acked st ++ [f])
                              (p_lops st ++ [OEmit]) (p_failed st)
      | (None, lg) => mkPst (p_b st) (p_queues st) (p_written st) lg (p_accepted st) (p_acked st)
                            (p_lops st ++ [OEmit]) (p_failed st)
      end
  end.

Definition prun (cfg : bcfg) (ls : list plabel) : pstate := fold_left (pstep cfg) ls pinit.

(* the messages fed so far *)
Definition fed_of (ls : list plabel) : list msg :=
  flat_map (fun l => match l with LFeed _ m => [m] | _ => [] end) ls.
