(* Backoff.v — the part of github.com/cenkalti/backoff/v4 (v4.2.1) that decides whether a failing
   operation is tried again: ExponentialBackOff.NextBackOff and the test in Retry's loop
   (definitions only; trusted spec side: read from the module cache, not checked against it).
     NextBackOff: if MaxElapsedTime != 0 && elapsed + next > MaxElapsedTime { return b.Stop }; return next
     Retry:       if next = b.NextBackOff(); next == Stop { return err }      (const Stop = -1)
   A literal &backoff.ExponentialBackOff{...} that does not set the Stop FIELD leaves it 0, and
   0 is not the Stop CONSTANT: Retry then never gives up. *)
From Bifrost.model Require Import Base.

Definition backoff_Stop : Z := (-1)%Z.

Record policy := mkPolicy { max_elapsed : Z; stop_field : Z }.

(* elapsed: time since Reset; next: the randomized interval (> 0) *)
Definition next_backoff (p : policy) (elapsed next : Z) : Z :=
  if negb (max_elapsed p =? 0)%Z && (max_elapsed p <? elapsed + next)%Z then stop_field p else next.

(* does Retry call the operation again after a failure? *)
Definition retries_again (p : policy) (elapsed next : Z) : bool :=
  negb (next_backoff p elapsed next =? backoff_Stop)%Z.

(* the policy a composite literal denotes: Stop is backoff.Stop only if the literal says so *)
Definition policy_of_literal (max_elapsed_ns : Z) (stop_is_backoff_stop : bool) : policy :=
  mkPolicy max_elapsed_ns (if stop_is_backoff_stop then backoff_Stop else 0%Z).
