(* Parse.v — model of /repo/parselogical/parselogical.go (the state machine parse(preludeOnly))
   and of replication.XLogDataToWalMessage (ParsePrelude, then ParseColumns on the same
   ParseResult).  Definitions only.

   Faithfulness notes
   * message = Go string = byte string; indices are byte indices; chr/chrNext use the \000
     sentinel beyond the end exactly as the Go code (a real NUL byte is indistinguishable).
   * [state := pr.State] is a COPY that is never written back: every call of parse starts from
     NewParseResult's state (Current = Initial, TokenStart = 0); [parse] therefore takes no
     state argument.  What persists between ParsePrelude and ParseColumns is the ParseResult
     (Relation, Operation, Transaction, NoTupleData, the two maps).
   * one loop iteration = [body]; the for-loop's i++ is folded into the index [body] returns
     ([i = TokenStart-1; continue] gives TokenStart, [i++] inside the quoted states gives i+2).
   * every Go slice expression message[a:b] goes through [slice], which is None exactly when Go
     panics (a > b or b > len); None becomes [Panic].  [endStr--] on i = 0 would give -1: Panic.
   * Go maps = association lists with [aset] (assignment overwrites an existing key in place).
   * strings.Fields = [fields]: splits at Unicode White_Space runes.  The lead byte of every
     multi-byte white-space rune (C2 85, C2 A0, E1 9A 80, E2 80 80..8A, E2 80 A8/A9/AF,
     E2 81 9F, E3 80 80) is never a UTF-8 continuation byte and invalid bytes decode with
     width 1, so these byte patterns are recognised at every position exactly where Go's rune
     iteration sees the rune: [fields] is exact on arbitrary (also invalid UTF-8) byte strings. *)
From Bifrost.model Require Import Base TestDecoding.

Inductive pstate :=
| SInitial | SRelation | SOperation | SEscaped | STruncate
| SColName | SColType | SOpenSq | SColValue | SQuoted | SEnd | SNull.

Record colval := mkCV { cv_value : string; cv_type : string; cv_quoted : bool }.

Record parse_result := mkPR {
  pr_txn : string; pr_rel : string; pr_op : string; pr_notuple : bool;
  pr_cols : list (string * colval); pr_old : list (string * colval) }.

Definition empty_result : parse_result := mkPR "" "" "" false [] [].

Record pst := mkSt {
  cur : pstate; prev : pstate; ts : nat; oldkey : bool; cname : string; ctype : string }.

Inductive outcome := Ok (r : parse_result) | Err | Panic | OutOfFuel.

(* ---- bytes and slices ---- *)
Definition byte_at (s : string) (i : nat) : ascii :=          (* \000 when i >= len *)
  match get i s with Some c => c | None => zero end.

Definition slice (s : string) (a b : nat) : option string :=  (* message[a:b] *)
  if ((a <=? b)%nat && (b <=? length s)%nat)%bool then Some (substring a (b - a) s) else None.

(* strings.Replace(s, "''", "'", -1) *)
Fixpoint unq (s : string) : string :=
  match s with
  | EmptyString => EmptyString
  | String a t =>
      match t with
      | EmptyString => s
      | String b r => if Ascii.eqb a sq && Ascii.eqb b sq then String sq (unq r) else String a (unq t)
      end
  end.

(* ---- strings.Fields ---- *)
Definition ws_len (s : string) : nat :=
  match s with
  | EmptyString => 0
  | String c0 r0 =>
      let n0 := N_of_ascii c0 in
      if ((9 <=? n0)%N && (n0 <=? 13)%N) || (n0 =? 32)%N then 1
      else match r0 with
      | EmptyString => 0
      | String c1 r1 =>
          let n1 := N_of_ascii c1 in
          if (n0 =? 194)%N then (if (n1 =? 133)%N || (n1 =? 160)%N then 2 else 0)
          else match r1 with
          | EmptyString => 0
          | String c2 _ =>
              let n2 := N_of_ascii c2 in
              if (n0 =? 225)%N && (n1 =? 154)%N && (n2 =? 128)%N then 3
              else if (n0 =? 226)%N && (n1 =? 128)%N &&
                      (((128 <=? n2)%N && (n2 <=? 138)%N) || (n2 =? 168)%N || (n2 =? 169)%N || (n2 =? 175)%N) then 3
              else if (n0 =? 226)%N && (n1 =? 129)%N && (n2 =? 159)%N then 3
              else if (n0 =? 227)%N && (n1 =? 128)%N && (n2 =? 128)%N then 3
              else 0
          end
      end
  end.

Definition flush (w : string) : list string := match w with EmptyString => [] | _ => [w] end.

(* skip = bytes of a multi-byte white-space rune still to be dropped; w = current field *)
Fixpoint fields_go (s : string) (skip : nat) (w : string) : list string :=
  match s with
  | EmptyString => flush w
  | String c r =>
      match skip with
      | S k => fields_go r k w
      | O => match ws_len s with
             | O => fields_go r 0 (w +++ String c EmptyString)
             | S k => flush w ++ fields_go r k EmptyString
             end
      end
  end.
Definition fields (s : string) : list string := fields_go s 0 EmptyString.

(* ---- state updates ---- *)
Definition st_cp (st : pst) (c p : pstate) : pst := mkSt c p (ts st) (oldkey st) (cname st) (ctype st).
Definition st_push (st : pst) (c : pstate) : pst := st_cp st c (cur st).   (* Prev = Current; Current = c *)
Definition st_pop (st : pst) : pst := st_cp st (prev st) SNull.            (* Current = Prev; Prev = Null *)
Definition st_swap (st : pst) : pst := st_cp st (prev st) (cur st).        (* prev := Prev; Prev = Current; Current = prev *)

Definition set_rel (r : parse_result) (x : string) :=
  mkPR (pr_txn r) x (pr_op r) (pr_notuple r) (pr_cols r) (pr_old r).
Definition set_op (r : parse_result) (x : string) :=
  mkPR (pr_txn r) (pr_rel r) x (pr_notuple r) (pr_cols r) (pr_old r).
Definition set_notuple (r : parse_result) :=
  mkPR (pr_txn r) (pr_rel r) (pr_op r) true (pr_cols r) (pr_old r).
Definition set_col (old : bool) (k : string) (v : colval) (r : parse_result) :=
  if old then mkPR (pr_txn r) (pr_rel r) (pr_op r) (pr_notuple r) (pr_cols r) (aset k v (pr_old r))
  else mkPR (pr_txn r) (pr_rel r) (pr_op r) (pr_notuple r) (aset k v (pr_cols r)) (pr_old r).

Definition is_quoted_state (p : pstate) : bool := match p with SQuoted => true | _ => false end.

(* ---- one iteration of the for loop ---- *)
Inductive bres :=
| BNext (i' : nat) (st : pst) (r : parse_result)   (* loop head is reached again with index i' *)
| BBreak (st : pst) (r : parse_result)             (* break outer *)
| BRet (o : outcome).                              (* return from inside the loop *)

Definition body (pre : bool) (msg : string) (i : nat) (st : pst) (r : parse_result) : bres :=
  if (i <? ts st)%nat then BNext (ts st) st r else
  let chr := byte_at msg i in
  let nxt := byte_at msg (S i) in
  match cur st with
  | SNull => BRet Err
  | SRelation =>
      if Ascii.eqb chr ":" then
        if negb (Ascii.eqb nxt " ") then BRet Err else
        match slice msg (ts st) i with
        | None => BRet Panic
        | Some rel => BNext (S i) (mkSt SOperation (prev st) (i + 2) (oldkey st) (cname st) (ctype st)) (set_rel r rel)
        end
      else if Ascii.eqb chr dq then BNext (S i) (st_push st SEscaped) r
      else BNext (S i) st r
  | SOperation =>
      if Ascii.eqb chr ":" then
        if negb (Ascii.eqb nxt " ") then BRet Err else
        match slice msg (ts st) i with
        | None => BRet Panic
        | Some op =>
            let r' := set_op r op in
            if String.eqb op "TRUNCATE" then BBreak (st_cp st STruncate (prev st)) r'
            else
              let st' := mkSt SColName (prev st) (i + 2) (oldkey st) (cname st) (ctype st) in
              if pre then BBreak st' r' else BNext (S i) st' r'
        end
      else BNext (S i) st r
  | SColName =>
      if Ascii.eqb chr "[" then
        match slice msg (ts st) i with
        | None => BRet Panic
        | Some nm => BNext (S i) (mkSt SColType (prev st) (S i) (oldkey st) nm (ctype st)) r
        end
      else if Ascii.eqb chr ":" then
        match slice msg (ts st) i with
        | None => BRet Panic
        | Some tok =>
            let ok := if String.eqb tok "old-key" then true
                      else if String.eqb tok "new-tuple" then false else oldkey st in
            BNext (S i) (mkSt (cur st) (prev st) (i + 2) ok (cname st) (ctype st)) r
        end
      else if Ascii.eqb chr "(" then
        match slice msg (ts st) (length msg) with
        | None => BRet Panic
        | Some tl => if String.eqb tl "(no-tuple-data)"
                     then BNext (S i) (st_cp st SEnd (prev st)) (set_notuple r)
                     else BNext (S i) st r     (* chr = '(' is not a double quote: falls through *)
        end
      else if Ascii.eqb chr dq then BNext (S i) (st_push st SEscaped) r
      else BNext (S i) st r
  | SColType =>
      if Ascii.eqb chr "]" then
        if negb (Ascii.eqb nxt ":") then BRet Err else
        match slice msg (ts st) i with
        | None => BRet Panic
        | Some ty => BNext (S i) (mkSt SColValue (prev st) (i + 2) (oldkey st) (cname st) ty) r
        end
      else if Ascii.eqb chr dq then BNext (S i) (st_push st SEscaped) r
      else if Ascii.eqb chr "[" then BNext (S i) (st_push st SOpenSq) r
      else BNext (S i) st r
  | SColValue =>
      let isnul := Ascii.eqb chr zero in
      let issp := Ascii.eqb chr " " in
      let stored : option parse_result :=
        if isnul || issp then
          let quoted := is_quoted_state (prev st) in
          let sl := if quoted then
                      (* fix ced041a: if message[startStr] == 'B' && message[startStr+1] == '\'' { startStr++ }
                         — two index expressions, each panics when out of range; && short-circuits *)
                      match get (ts st) msg with
                      | None => None
                      | Some b0 =>
                          let start := if Ascii.eqb b0 "B" then
                                         match get (S (ts st)) msg with
                                         | None => None
                                         | Some b1 => Some (if Ascii.eqb b1 sq then S (ts st) else ts st)
                                         end
                                       else Some (ts st) in
                          match start, i with
                          | Some s0, S j => slice msg (S s0) j      (* startStr++; endStr-- *)
                          | _, _ => None
                          end
                      end
                    else slice msg (ts st) i in
          match sl with
          | None => None
          | Some v => Some (set_col (oldkey st) (cname st) (mkCV (unq v) (ctype st) quoted) r)
          end
        else Some r in
      match stored with
      | None => BRet Panic
      | Some r' =>
          if isnul then BNext (S i) (st_cp st SEnd (prev st)) r'
          else if issp then BNext (S i) (mkSt SColName (cur st) (S i) (oldkey st) (cname st) (ctype st)) r'
          else if Ascii.eqb chr sq then BNext (S i) (st_push st SQuoted) r'
          else BNext (S i) st r'
      end
  | SOpenSq =>
      if Ascii.eqb chr "]" then BNext (S i) (st_pop st) r else BNext (S i) st r
  | SEscaped =>
      if Ascii.eqb chr dq then
        if Ascii.eqb nxt dq then BNext (S (S i)) st r else BNext (S i) (st_pop st) r
      else BNext (S i) st r
  | SQuoted =>
      if Ascii.eqb chr sq then
        if Ascii.eqb nxt sq then BNext (S (S i)) st r else BNext (S i) (st_swap st) r
      else BNext (S i) st r
  | SInitial | STruncate | SEnd => BNext (S i) st r     (* no case in the switch *)
  end.

Inductive lres := LDone (st : pst) (r : parse_result) | LRet (o : outcome) | LOutOfFuel.

(* for i := 0; i <= len(message); i++ { body }  —  n = len(message) *)
Fixpoint loop (fuel : nat) (pre : bool) (msg : string) (n i : nat) (st : pst) (r : parse_result) : lres :=
  match fuel with
  | O => LOutOfFuel
  | S f =>
      if (n <? i)%nat then LDone st r else
      match body pre msg i st r with
      | BNext i' st' r' => loop f pre msg n i' st' r'
      | BBreak st' r' => LDone st' r'
      | BRet o => LRet o
      end
  end.

Definition init_table_state : pst := mkSt SRelation SInitial 6 false "" "".

Definition finish (pre : bool) (st : pst) (r : parse_result) : outcome :=
  match cur st with
  | STruncate => Ok r
  | SColName => if pre then Ok r else Err
  | SEnd => if pre then Err else Ok r
  | _ => Err
  end.

Definition parse (pre : bool) (msg : string) (r : parse_result) : outcome :=
  let n := length msg in
  if (n <? 5)%nat then Err else
  match slice msg 0 5 with
  | None => Panic
  | Some h =>
      if String.eqb h "BEGIN" || String.eqb h "COMMI" then
        match fields msg with
        | [a; b] => Ok (mkPR b (pr_rel r) a (pr_notuple r) (pr_cols r) (pr_old r))
        | _ => Err
        end
      else if String.eqb h "table" then
        match loop (n + 2) pre msg n 0 init_table_state r with
        | LOutOfFuel => OutOfFuel
        | LRet o => o
        | LDone st' r' => finish pre st' r'
        end
      else Err
  end.

(* XLogDataToWalMessage: NewParseResult; ParsePrelude; ParseColumns *)
Definition parse_full (msg : string) : outcome :=
  match parse true msg empty_result with
  | Ok r => parse false msg r
  | o => o
  end.

(* ---- what a change is expected to decode to ---- *)
(* identifiers and types stay as printed (with their quotes); text values have the quote
   doubling undone and Quoted = true; a bit string B'0101' is its digits with Quoted = true
   (decoder fix ced041a). *)
Definition exp_val (v : value) : string * bool :=
  match v with
  | VNull => ("null", false)
  | VToast => ("unchanged-toast-datum", false)
  | VRaw s => (s, false)
  | VBit b => (b, true)
  | VText s => (s, true)
  end.

Definition exp_colval (c : col) : colval :=
  let (v, q) := exp_val (c_val c) in mkCV v (c_type c) q.

(* the map a tuple is expected to become: keyed by the printed name; a repeated name overwrites
   (PostgreSQL column names within a relation are distinct, then this is just the list) *)
Fixpoint exp_cols (m : list (string * colval)) (t : tuple) : list (string * colval) :=
  match t with
  | [] => m
  | c :: r => exp_cols (aset (quote_ident (c_name c)) (exp_colval c) m) r
  end.

Definition opt_cols (t : option tuple) : list (string * colval) :=
  match t with None => [] | Some t => exp_cols [] t end.
Definition is_none {A} (o : option A) : bool := match o with None => true | Some _ => false end.

Definition expected (c : change) : parse_result :=
  match c with
  | CBegin x => mkPR (dec x) "" "BEGIN" false [] []
  | CCommit x => mkPR (dec x) "" "COMMIT" false [] []
  | CInsert ns rel new => mkPR "" (qualified ns rel) "INSERT" (is_none new) (opt_cols new) []
  | CUpdate ns rel old new => mkPR "" (qualified ns rel) "UPDATE" (is_none new) (opt_cols new) (opt_cols old)
  (* a DELETE's old tuple is printed without an "old-key:" marker: it arrives in Columns *)
  | CDelete ns rel old => mkPR "" (qualified ns rel) "DELETE" (is_none old) (opt_cols old) []
  (* several truncated relations arrive as ONE string "a.b, c.d": the decoder has a single
     Relation field and /repo's own TestTruncateCascade asserts the joined string *)
  | CTruncate rels _ _ => mkPR "" (print_rels rels) "TRUNCATE" false [] []
  end.

(* ---- well-formedness of what the printer is given ---- *)
(* type strings: what the parser's ColumnType / EscapedIdentifier / single-level
   OpenSquareBracket states tolerate: outside double quotes every '[' is closed by the next ']'
   (nesting depth <= 1; a double quote inside brackets is an ordinary character), no ']' outside
   brackets/quotes, double-quoted parts closed, double quotes doubled inside them. *)
Inductive smode := MTop | MQuote | MQSkip | MBrack.

Fixpoint scan (br : bool) (stop : ascii -> bool) (m : smode) (s : string) : bool :=
  match s with
  | EmptyString => match m with MTop => true | _ => false end
  | String c r =>
      match m with
      | MTop => if stop c then false
                else if Ascii.eqb c dq then scan br stop MQuote r
                else if br && Ascii.eqb c "[" then scan br stop MBrack r
                else scan br stop MTop r
      | MQuote => if Ascii.eqb c dq then
                    match r with
                    | EmptyString => true
                    | String d _ => if Ascii.eqb d dq then scan br stop MQSkip r else scan br stop MTop r
                    end
                  else scan br stop MQuote r
      | MQSkip => scan br stop MQuote r
      | MBrack => if Ascii.eqb c "]" then scan br stop MTop r else scan br stop MBrack r
      end
  end.

Definition type_stop (c : ascii) : bool := Ascii.eqb c "]".
Definition type_ok (t : string) : bool := scan true type_stop MTop t.

(* what format_type_be can print (TestDecoding.pgtype) is type_ok as soon as the built-in
   spellings contain no bracket and no double quote (none does) — proved in ParseRoundtrip.v *)
Definition builtin_char (c : ascii) : bool :=
  negb (Ascii.eqb c "[") && negb (Ascii.eqb c "]") && negb (Ascii.eqb c dq).
Definition pgtype_ok (t : pgtype) : bool :=
  match t with TBuiltin w _ => str_all builtin_char w | _ => true end.

(* unquoted values: no space, no single quote, no NUL *)
Definition raw_char_ok (c : ascii) : bool :=
  negb (Ascii.eqb c " ") && negb (Ascii.eqb c sq) && negb (Ascii.eqb c zero).

Definition not_sq (c : ascii) : bool := negb (Ascii.eqb c sq).

(* bit strings: the digits contain no single quote (print_literal does not double inside B'..') *)
Definition value_ok (v : value) : bool :=
  match v with VRaw s => str_all raw_char_ok s | VBit b => str_all not_sq b | _ => true end.

Definition col_ok (c : col) : bool := type_ok (c_type c) && value_ok (c_val c).
Definition tuple_ok (t : tuple) : bool := forallb col_ok t.
Definition nonempty {A} (l : list A) : bool := match l with [] => false | _ => true end.
(* the LAST printed tuple must have a column: a zero-column tuple prints nothing after
   "INSERT:" and the decoder rejects the message (see findings) *)
Definition last_tuple_ok (t : option tuple) : bool :=
  match t with None => true | Some t => nonempty t && tuple_ok t end.

Definition WF (c : change) : bool :=
  match c with
  | CBegin _ | CCommit _ | CTruncate _ _ _ => true
  | CInsert _ _ new => last_tuple_ok new
  | CUpdate _ _ old new => (match old with None => true | Some o => tuple_ok o end) && last_tuple_ok new
  | CDelete _ _ old => last_tuple_ok old
  end.

(* ---- correspondence case ---- *)
Inductive pobs :=
| OOk (rel op txn : string) (notuple : bool)
      (cols olds : list (string * (string * string * bool)))   (* name -> (value, type, quoted), sorted by name *)
| OErr
| OPanic.

(* (input, the abstract change it was printed from if any, observed on the implementation) *)
Definition pcase := (string * option change * pobs)%type.

Definition obs_val_eqb (v : colval) (o : string * string * bool) : bool :=
  let '(x, t, q) := o in
  String.eqb (cv_value v) x && String.eqb (cv_type v) t && Bool.eqb (cv_quoted v) q.

(* both maps have unique keys (Go map / aset): equal sizes and every observed entry found *)
Definition map_equiv (m : list (string * colval)) (o : list (string * (string * string * bool))) : bool :=
  Nat.eqb (List.length m) (List.length o) &&
  forallb (fun kv => match aget (fst kv) m with Some v => obs_val_eqb v (snd kv) | None => false end) o &&
  forallb (fun kv => match aget (fst kv) o with Some x => obs_val_eqb (snd kv) x | None => false end) m.

Definition pcase_ok (c : pcase) : bool :=
  let '(s, ch, o) := c in
  (match ch with Some a => String.eqb (print a) s | None => true end) &&
  match parse_full s, o with
  | Ok r, OOk rel op txn nt cols olds =>
      String.eqb (pr_rel r) rel && String.eqb (pr_op r) op && String.eqb (pr_txn r) txn &&
      Bool.eqb (pr_notuple r) nt && map_equiv (pr_cols r) cols && map_equiv (pr_old r) olds
  | Err, OErr => true
  | Panic, OPanic => true
  | _, _ => false
  end.
