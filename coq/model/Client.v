(* Client.v — model of replication/client/client.go (Start loop, handleProgress, sendProgressStatus,
   recoverFromErrorResponse, handlePrimaryKeepaliveMessage, handleXLogData) together with the
   connection manager's reconnect rule (replication/client/conn/manager.go: a new connection, with
   START_REPLICATION at the given LSN, is made only when there is none or it is closed).
   Definitions only.  One model step = one iteration of the receive loop, including the ticks
   served by the blocked-output loop (WriteLoop) of handleXLogData inside it. *)
From Bifrost.model Require Import Base.

(* what the parser made of an XLogData payload; the parser itself is modelled in Parse.v *)
Inductive xkind :=
| XBegin (txn : string)
| XCommit (txn : string)
| XChange (op : string)        (* INSERT / UPDATE / DELETE / TRUNCATE *)
| XBadText                     (* XLogDataToWalMessage returns an error: fatal for the client *)
| XShort.                      (* pglogrepl.ParseXLogData fails (shorter than its header): counted, skipped *)

(* the result of one ReceiveMessage call *)
Inductive cev :=
| EXLog (wal : N) (k : xkind)
| EKeepalive (walend : N) (reply : bool) (slow : bool)   (* slow: >= 100 ms accumulated since the last reset *)
| EKeepaliveBad                 (* keepalive too short to parse: fatal *)
| ENil                          (* nil message, nil error *)
| ETimeout                      (* receive deadline exceeded *)
| EClosedErr                    (* error, and the connection reports closed *)
| EOtherErr                     (* error, connection not closed: fatal *)
| EErrorResponse (xlogpos : N)  (* server error; IDENTIFY_SYSTEM during recovery answers xlogpos *)
| ECopyOther                    (* CopyData with another leading byte *)
| EParam                        (* ParameterStatus / ParameterDescription *)
| EUnexpected                   (* any other message type: fatal *)
| EErrorResponseFail (at_identify : bool).
    (* server error whose recovery fails: no connection can be had for it (false), or the connection is
       there and IDENTIFY_SYSTEM fails on it (true); recoverFromErrorResponse returns the error, Start returns *)

(* one loop iteration's inputs: did the progress ticker fire (polled at the loop head), the values
   waiting on the progress channel when handleProgress runs at the loop head, whether the
   channel is closed after them, then the receive result, then (for the handlers that call
   handleProgress again: timeout, keepalive with reply) the values waiting at that second call,
   then (for an XLogData message that is forwarded: the WriteLoop at the end of handleXLogData)
   one element per tick of the progress ticker served while the output channel is full: the
   values waiting on the progress channel at that tick and whether the channel is closed after
   them.  [i_blocked = []] = the output channel had room at once.
   [i_dies]: the connection dies silently at this message boundary: ReceiveMessage still returns
   its result, but from then on the connection reports IsClosed().  The client looks at IsClosed()
   only after a receive ERROR (client.go: "if pgConn.IsClosed() { continue }"); otherwise the death
   is noticed by the connection manager at its next GetConnWithStartLsn / GetConn call, wherever in
   the iteration (or in the next one) that is. *)
Record citer := mkIter {
  i_tick : bool;
  i_prog : list N; i_pclosed : bool;
  i_ev : cev;
  i_prog2 : list N; i_pclosed2 : bool;
  i_blocked : list (list N * bool);
  i_dies : bool }.

Record cstate := mkCst {
  overall : N;          (* overallProgress *)
  highest : N;          (* highestWalStart *)
  ctxn : string;        (* transaction *)
  ckey : string;        (* timeBasedKey *)
  saw_commit : bool;
  first_iter : bool;
  conn_open : bool;     (* connection manager holds a live connection *)
  hb_count : N;         (* heartbeatRequestCounter *)
  hb_slow : bool;       (* heartbeatRequestDeltaTime >= 100 ms *)
  begins : N;           (* clock oracle: number of BEGINs stamped so far (strictly increasing time) *)
  stopped : bool }.

Inductive cobs :=
| CGetStart (lsn : N) (fresh : bool)   (* GetConnWithStartLsn(lsn); fresh = START_REPLICATION issued *)
| CGetPlain (fresh : bool)             (* GetConn *)
| CClose                               (* manager.Close *)
| CIdentify                            (* IDENTIFY_SYSTEM *)
| CSend (lsn : N)                      (* SendStandbyStatus *)
| CRecv                                (* ReceiveMessage *)
| COut (op txn key : string) (wal : N) (* message forwarded downstream *)
| CStop.                               (* Start returned: shutdown (cancel, Close, close channels) *)

Definition cinit : cstate := mkCst 0 0 "" "" false true false 0 false 0 false.

Definition set_conn (s : cstate) (b : bool) : cstate :=
  mkCst (overall s) (highest s) (ctxn s) (ckey s) (saw_commit s) (first_iter s) b (hb_count s) (hb_slow s) (begins s) (stopped s).
Definition set_overall (s : cstate) (v : N) : cstate :=
  mkCst v (highest s) (ctxn s) (ckey s) (saw_commit s) (first_iter s) (conn_open s) (hb_count s) (hb_slow s) (begins s) (stopped s).
Definition stop (s : cstate) : cstate :=
  mkCst (overall s) (highest s) (ctxn s) (ckey s) (saw_commit s) (first_iter s) false (hb_count s) (hb_slow s) (begins s) true.

(* manager.GetConnWithStartLsn *)
Definition get_start (s : cstate) : cstate * list cobs :=
  (set_conn s true, [CGetStart (highest s) (negb (conn_open s))]).

(* the reading loop of handleProgress: values not above the current one are skipped *)
Fixpoint absorb (cur : N) (vs : list N) : N * bool :=
  match vs with
  | [] => (cur, false)
  | v :: r => if (v <=? cur)%N then absorb cur r
              else let '(c, _) := absorb v r in (c, true)
  end.

(* handleProgress(force); None = it returned an error (channel closed) *)
Definition handle_progress (s : cstate) (force : bool) (vs : list N) (closed : bool) : option (cstate * list cobs) :=
  let '(c, updated) := absorb (overall s) vs in
  if closed then None else
  let s1 := set_overall s c in
  if updated || force then
    let '(s2, o) := get_start s1 in Some (s2, o ++ [CSend c])
  else Some (s1, []).

Definition key_of (txn : string) (n : N) : string := (txn ++ "-" ++ dec n)%string.

(* the ticker case of the WriteLoop at the end of handleXLogData, once per tick served while the
   output channel is full: handleProgress(true).  Result: the state, the observations, and
   whether a handleProgress call returned an error (progress channel closed) - the ticks after
   that one never happen.  (The Go code has absorbed the values of the closing tick into
   overallProgress when it returns the error; the client stops without using it again.) *)
Fixpoint blocked_ticks (s : cstate) (bl : list (list N * bool)) : cstate * list cobs * bool :=
  match bl with
  | [] => (s, [], false)
  | (vs, closed) :: r =>
      match handle_progress s true vs closed with
      | None => (s, [], true)
      | Some (s1, o1) => let '(s2, o2, e) := blocked_ticks s1 r in (s2, o1 ++ o2, e)
      end
  end.

(* WriteLoop: serve the blocked ticks, then hand the message [m] over; if handleProgress fails the
   error is returned to Start (third component) and [m] is never forwarded *)
Definition write_loop (s : cstate) (bl : list (list N * bool)) (m : cobs) : cstate * list cobs * bool :=
  let '(sb, ob, e) := blocked_ticks s bl in
  if e then (sb, ob, true) else (sb, ob ++ [m], false).

(* handleXLogData for a parsed message; [bl] = the ticks served in its WriteLoop.  The state
   updates (highestWalStart, sawCommit, transaction, timeBasedKey, firstIteration) are made before
   the WriteLoop and are kept when it fails.  XShort, XBadText and the dropped BEGIN return
   before the WriteLoop. *)
Definition handle_xlog (s : cstate) (wal : N) (k : xkind) (bl : list (list N * bool))
  : cstate * list cobs * bool (* fatal *) :=
  match k with
  | XShort => (s, [], false)
  | XBadText => (s, [], true)
  | XCommit t =>
      let h := if (highest s <? wal)%N then wal else highest s in
      let s1 := mkCst (overall s) h (ctxn s) (ckey s) true (first_iter s) (conn_open s) (hb_count s) (hb_slow s) (begins s) false in
      write_loop s1 bl (COut "COMMIT" (ctxn s1) (ckey s1) wal)
  | XBegin t =>
      let key := key_of t (begins s) in
      if negb (saw_commit s) && negb (first_iter s) then
        (* BEGIN although the previous transaction has no COMMIT: drop it, force a reconnect *)
        (mkCst (overall s) (highest s) t key false true false (hb_count s) (hb_slow s) (begins s + 1) false, [CClose], false)
      else
        write_loop (mkCst (overall s) (highest s) t key false false (conn_open s) (hb_count s) (hb_slow s) (begins s + 1) false)
                   bl (COut "BEGIN" t key wal)
  | XChange op => write_loop s bl (COut op (ctxn s) (ckey s) wal)
  end.

(* recoverFromErrorResponse: the synthetic COMMIT closes out a transaction only if one is open
   (a BEGIN was forwarded and no COMMIT followed); it is stamped with the highest COMMIT position
   received, or with the already acknowledged position when none was received yet *)
Definition recover (s : cstate) (xlogpos : N) : cstate * list cobs :=
  let o := if negb (first_iter s) && negb (saw_commit s)
           then [COut "COMMIT" (ctxn s) (ckey s) (if (highest s =? 0)%N then overall s else highest s)]
           else [] in
  (mkCst (overall s) xlogpos (ctxn s) (ckey s) false true false (hb_count s) (hb_slow s) (begins s) false,
   o ++ [CClose; CGetPlain true; CIdentify; CClose]).

(* a recovery that fails: the synthetic COMMIT and the Close of the broken connection have happened, the
   recovery connection was obtained or not; nothing else (in particular not the second Close) *)
Definition recover_fail (s : cstate) (at_identify : bool) : cstate * list cobs :=
  let o := if negb (first_iter s) && negb (saw_commit s)
           then [COut "COMMIT" (ctxn s) (ckey s) (if (highest s =? 0)%N then overall s else highest s)]
           else [] in
  (set_conn s false, o ++ [CClose] ++ (if at_identify then [CGetPlain true] else [])).

(* handlePrimaryKeepaliveMessage after the forced status update *)
Definition heartbeat (s : cstate) (slow : bool) : cstate * bool (* fatal: rapid requests *) :=
  let sl := hb_slow s || slow in
  let n := (hb_count s + 1)%N in
  if negb sl && (5 <? n)%N then
    (mkCst (overall s) (highest s) (ctxn s) (ckey s) (saw_commit s) (first_iter s) (conn_open s) n sl (begins s) false, true)
  else if (5 <? n)%N then
    (mkCst (overall s) (highest s) (ctxn s) (ckey s) (saw_commit s) (first_iter s) (conn_open s) 0 false (begins s) false, false)
  else
    (mkCst (overall s) (highest s) (ctxn s) (ckey s) (saw_commit s) (first_iter s) (conn_open s) n sl (begins s) false, false).

Definition fatal (s : cstate) (o : list cobs) : cstate * list cobs := (stop s, o ++ [CClose; CStop]).

(* one iteration of the loop in Start *)
Definition cstep (s : cstate) (it : citer) : cstate * list cobs :=
  if stopped s then (s, []) else
  match handle_progress s (i_tick it) (i_prog it) (i_pclosed it) with
  | None => fatal s []
  | Some (s1, o1) =>
      let '(s2h, o2) := get_start s1 in
      let o := o1 ++ o2 ++ [CRecv] in
      (* the connection may die right after delivering this result: the manager holds a connection
         that reports closed, its next call reconnects *)
      let s2 := if i_dies it then set_conn s2h false else s2h in
      match i_ev it with
      | ETimeout =>
          match handle_progress s2 true (i_prog2 it) (i_pclosed2 it) with
          | None => fatal s2 o
          | Some (s3, o3) => (s3, o ++ o3)
          end
      | EClosedErr => (set_conn s2 false, o)
      | EOtherErr =>
          (* a non-timeout error: fatal unless the connection reports closed ("connection was
             closed": continue) - which a connection that died at this boundary does *)
          if i_dies it then (s2, o) else fatal s2 o
      | ENil | ECopyOther | EParam => (s2, o)
      | EUnexpected | EKeepaliveBad => fatal s2 o
      | EErrorResponse x => let '(s3, o3) := recover s2 x in (s3, o ++ o3)
      | EErrorResponseFail idf => let '(s3, o3) := recover_fail s2 idf in fatal s3 (o ++ o3)
      | EKeepalive _ false _ => (s2, o)
      | EKeepalive _ true slow =>
          match handle_progress s2 true (i_prog2 it) (i_pclosed2 it) with
          | None => fatal s2 o
          | Some (s3, o3) =>
              let '(s4, f) := heartbeat s3 slow in
              if f then fatal s4 (o ++ o3) else (s4, o ++ o3)
          end
      | EXLog wal k =>
          (* a non-nil error from handleXLogData (unparsable text, or handleProgress failing in the
             WriteLoop) makes Start return: shutdown *)
          let '(s3, o3, f) := handle_xlog s2 wal k (i_blocked it) in
          if f then fatal s3 (o ++ o3) else (s3, o ++ o3)
      end
  end.

(* the prologue of Start: first connection, first message must be a keepalive *)
Definition cstart (first : cev) : cstate * list cobs :=
  let '(s1, o1) := get_start cinit in
  let o := o1 ++ [CRecv] in
  match first with
  | EKeepalive walend _ _ => (set_overall s1 walend, o)
  | EKeepaliveBad => (set_overall s1 0, o)    (* the parse error is only logged *)
  | _ => fatal s1 o
  end.

Fixpoint citers (s : cstate) (its : list citer) : cstate * list cobs :=
  match its with
  | [] => (s, [])
  | it :: r => let '(s1, o1) := cstep s it in
               let '(s2, o2) := citers s1 r in (s2, o1 ++ o2)
  end.

Definition crun (first : cev) (its : list citer) : cstate * list cobs :=
  let '(s0, o0) := cstart first in
  let '(s1, o1) := citers s0 its in (s1, o0 ++ o1).

(* ---------- correspondence ---------- *)
(* delivery keys carry wall-clock nanoseconds in the implementation and a counter in the model:
   compared up to a consistent renaming (a bijection built while walking both logs) *)
Definition cobs_shape_eqb (a b : cobs) : bool :=
  match a, b with
  | CGetStart l f, CGetStart l' f' => (l =? l')%N && Bool.eqb f f'
  | CGetPlain f, CGetPlain f' => Bool.eqb f f'
  | CClose, CClose | CIdentify, CIdentify | CRecv, CRecv | CStop, CStop => true
  | CSend l, CSend l' => (l =? l')%N
  | COut op t _ w, COut op' t' _ w' => String.eqb op op' && String.eqb t t' && (w =? w')%N
  | _, _ => false
  end.

Definition cobs_key (a : cobs) : option string := match a with COut _ _ k _ => Some k | _ => None end.

Fixpoint keys_consistent (m : list (string * string)) (r : list (string * string)) (a b : list cobs) : bool :=
  match a, b with
  | [], [] => true
  | x :: a', y :: b' =>
      cobs_shape_eqb x y &&
      match cobs_key x, cobs_key y with
      | Some k, Some k' =>
          match aget k m, aget k' r with
          | None, None => keys_consistent ((k, k') :: m) ((k', k) :: r) a' b'
          | Some v, Some v' => String.eqb v k' && String.eqb v' k && keys_consistent m r a' b'
          | _, _ => false
          end
      | None, None => keys_consistent m r a' b'
      | _, _ => false
      end
  | _, _ => false
  end.

Definition ccase := (cev * list citer * list cobs)%type.
Definition ccase_ok (c : ccase) : bool :=
  let '(first, its, obs) := c in
  keys_consistent [] [] (snd (crun first its)) obs.
