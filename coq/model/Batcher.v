(* Batcher.v — model of transport/batcher/batcher.go (definitions only).
   One model step per message received / per tick.  Nondeterminism is explicit:
     - the order in which a tick visits the Go map of open batches is an oracle (a list of keys);
     - clock readings are event arguments.
   Output events are in the batcher's program order (all its sends are blocking). *)
From Bifrost.model Require Import Base Crc32 Batch.

Inductive routing := RoundRobin | ByPartition.

Record bcfg := mkBcfg {
  c_kind : bkind;          (* what the batch factory makes *)
  c_limits : klimits;
  c_workers : N;
  c_routing : routing;
  c_upd_age : Z;           (* flushBatchUpdateAge, ns *)
  c_max_age : Z;           (* flushBatchMaxAge, ns *)
  c_mem_limit : Z }.       (* batcherMemorySoftLimit *)

Record seen := mkSeen { s_txn : string; s_key : string; s_total : Z; s_commit : N }.

(* an open batch with the clock readings the flush rule looks at *)
Record obatch := mkOB { ob_batch : batch; ob_ctime : Z; ob_mtime : Z }.

Record bstate := mkBst {
  open : list (string * obatch);   (* b.batches; iteration order is NOT this list's order *)
  seenl : list seen;               (* b.seenList *)
  total : Z;                       (* totalMsgsInTxn *)
  curkey : string;                 (* curTimeBasedKey *)
  rr : N;                          (* roundRobinPosition *)
  drops_big : N; drops_invalid : N;   (* statistics dropped_too_big / dropped_msg_invalid *)
  dead : bool }.                   (* StartBatching returned (fatal) *)

Definition binit : bstate := mkBst [] [] 0 "" 0 0 0 false.

Inductive bout :=
| OSeenList (l : list seen)                 (* txnsSeenChan <- seenList *)
| OBatch (worker : N) (b : batch)           (* outputChans[worker] <- batch *)
| OEmptyWritten (t : txmap)                 (* txnsWritten <- batch.GetTransactions() of an empty batch *)
| OFatal.                                   (* the batcher stops; shutdown cancels the process *)

Definition flush_seen (st : bstate) : bstate * list bout :=
  match seenl st with
  | [] => (st, [])
  | l => (mkBst (open st) [] (total st) (curkey st) (rr st) (drops_big st) (drops_invalid st) (dead st), [OSeenList l])
  end.

Definition set_rr (st : bstate) (r : N) : bstate :=
  mkBst (open st) (seenl st) (total st) (curkey st) r (drops_big st) (drops_invalid st) (dead st).

(* sendBatch; None for the worker index = integer divide by zero (workers = 0), outside the domain *)
Definition send_batch (cfg : bcfg) (st : bstate) (b : batch) : bstate * list bout :=
  let '(st1, o1) := flush_seen st in
  if is_empty b then (st1, o1 ++ [OEmptyWritten (b_txns b)])
  else match c_routing cfg with
       | RoundRobin =>
           let i := rr st1 in
           let r' := if (i =? c_workers cfg - 1)%N then 0%N else (i + 1)%N in
           (set_rr st1 r', o1 ++ [OBatch i b])
       | ByPartition =>
           match quick_hash (b_pkey b) (c_workers cfg) with
           | Some i => (st1, o1 ++ [OBatch i b])
           | None => (st1, o1 ++ [OFatal])
           end
       end.

Definition bump_big (st : bstate) : bstate :=
  mkBst (open st) (seenl st) (total st) (curkey st) (rr st) (drops_big st + 1) (drops_invalid st) (dead st).
Definition bump_invalid (st : bstate) : bstate :=
  mkBst (open st) (seenl st) (total st) (curkey st) (rr st) (drops_big st) (drops_invalid st + 1) (dead st).

(* addToBatch: recursion on ERR_CANT_FIT, explicit fuel; fuel exhaustion = the Go recursion would not end *)
Inductive add_status := SOk | SFail | SFatal | SNoFuel.

Fixpoint add_to_batch (fuel : nat) (cfg : bcfg) (st : bstate) (b : batch) (m : msg)
  : bstate * batch * add_status * list bout :=
  let '(b', r) := add (c_limits cfg) b m in
  match r with
  | AOk => (st, b', SOk, [])
  | ACantFit =>
      match fuel with
      | O => (st, b, SNoFuel, [])
      | S f =>
          let '(st1, o1) := send_batch cfg st b in
          let '(st2, b2, s2, o2) := add_to_batch f cfg st1 (new_batch (c_kind cfg) (m_pkey m)) m in
          (st2, b2, s2, o1 ++ o2)
      end
  | ATooBig => (bump_big st, b', SFail, [])
  | AInvalid => (bump_invalid st, b', SFail, [])
  | AFull => (st, b', SFatal, [])
  end.

Definition set_open (st : bstate) (o : list (string * obatch)) : bstate :=
  mkBst o (seenl st) (total st) (curkey st) (rr st) (drops_big st) (drops_invalid st) (dead st).

(* one received message at clock reading [now] (used only for ctime/mtime of batches) *)
Definition bstep_msg (cfg : bcfg) (st : bstate) (now : Z) (m : msg) : bstate * list bout :=
  if dead st then (st, []) else
  let pk := m_pkey m in
  (* get or create the batch of this partition key *)
  let '(ob0, open0) := match aget pk (open st) with
                       | Some ob => (ob, open st)
                       | None => let ob := mkOB (new_batch (c_kind cfg) pk) now now in (ob, aset pk ob (open st))
                       end in
  (* COMMIT: remember what was seen *)
  let seenl1 := if String.eqb (m_op m) "COMMIT"
                then seenl st ++ [mkSeen (m_txn m) (m_key m) (total st) (m_wal m)] else seenl st in
  (* the per-transaction counter restarts when the delivery key changes *)
  let '(cur1, tot1) := if String.eqb (curkey st) (m_key m) then (curkey st, total st) else (m_key m, 0%Z) in
  let st1 := mkBst open0 seenl1 tot1 cur1 (rr st) (drops_big st) (drops_invalid st) false in
  (* a full batch is dispatched before anything is added *)
  let '(st2, ob2, o2) :=
    if is_full (c_limits cfg) (ob_batch ob0)
    then let '(s, o) := send_batch cfg st1 (ob_batch ob0) in
         let ob := mkOB (new_batch (c_kind cfg) pk) now now in
         (set_open s (aset pk ob (open s)), ob, o)
    else (st1, ob0, []) in
  if existsb (fun o => match o with OFatal => true | _ => false end) o2
  then (mkBst (open st2) (seenl st2) (total st2) (curkey st2) (rr st2) (drops_big st2) (drops_invalid st2) true, o2) else
  if is_marker m then (st2, o2) else
  let '(st3, b3, status, o3) := add_to_batch 2 cfg st2 (ob_batch ob2) m in
  (* a batch made inside addToBatch is new (ctime = now); an Ok add sets mtime *)
  let fresh := negb (match o3 with [] => true | _ => false end) in
  let ob3 := mkOB b3 (if fresh then now else ob_ctime ob2)
                     (match status with SOk => now | _ => if fresh then now else ob_mtime ob2 end) in
  let st4 := set_open st3 (aset pk ob3 (open st3)) in
  match status with
  | SFatal | SNoFuel => (mkBst (open st4) (seenl st4) (total st4) (curkey st4) (rr st4) (drops_big st4) (drops_invalid st4) true,
                         o2 ++ o3 ++ [OFatal])
  | _ => (mkBst (open st4) (seenl st4) (total st4 + 1) (curkey st4) (rr st4) (drops_big st4) (drops_invalid st4) false, o2 ++ o3)
  end.

(* ---- tick ---- *)
Definition flagged (cfg : bcfg) (now : Z) (ob : obatch) : bool :=
  is_empty (ob_batch ob) ||
  (ob_mtime ob <? now - c_upd_age cfg)%Z ||
  (ob_ctime ob <? now - c_max_age cfg)%Z ||
  is_full (c_limits cfg) (ob_batch ob).

Definition bytes_of (ob : obatch) : Z := Z.of_N (b_bytes (ob_batch ob)).

(* the keys a tick flushes because of the per-batch rule, in map-iteration order [order] *)
Definition rule_flush (cfg : bcfg) (now : Z) (st : bstate) (order : list string) : list string :=
  filter (fun k => match aget k (open st) with Some ob => flagged cfg now ob | None => false end) order.

Definition kept_keys (cfg : bcfg) (now : Z) (st : bstate) (order : list string) : list string :=
  filter (fun k => match aget k (open st) with Some ob => negb (flagged cfg now ob) | None => false end) order.

Definition kept_total (st : bstate) (ks : list string) : Z :=
  sum_Z (map (fun k => match aget k (open st) with Some ob => bytes_of ob | None => 0%Z end) ks).

(* memory pressure: [pops] is the order in which heap.Pop returned keys (oracle).  The model
   accepts it only if every pop is a largest remaining batch, and pops exactly while the
   remaining total is >= the limit.  None = not a possible behaviour (or heap.Pop on an empty
   heap: a Go panic, reachable only when the limit is <= 0). *)
Fixpoint mem_flush (fuel : nat) (cfg : bcfg) (st : bstate) (remaining : list string) (tot : Z) (pops : list string)
  : option (list string) :=
  if (tot <? c_mem_limit cfg)%Z then match pops with [] => Some [] | _ => None end else
  match fuel, pops with
  | S f, k :: pops' =>
      match aget k (open st) with
      | Some ob =>
          if existsb (String.eqb k) remaining &&
             forallb (fun k' => match aget k' (open st) with Some ob' => (bytes_of ob' <=? bytes_of ob)%Z | None => true end) remaining
          then match mem_flush f cfg st (filter (fun k' => negb (String.eqb k k')) remaining) (tot - bytes_of ob) pops' with
               | Some l => Some (k :: l)
               | None => None
               end
          else None
      | None => None
      end
  | _, _ => None
  end.

Definition is_perm_of_keys (order : list string) (st : bstate) : bool :=
  Nat.eqb (List.length order) (List.length (open st)) &&
  forallb (fun p => existsb (String.eqb (fst p)) order) (open st) &&
  forallb (fun k => match aget k (open st) with Some _ => true | None => false end) order.

Fixpoint flush_keys (cfg : bcfg) (st : bstate) (ks : list string) : bstate * list bout :=
  match ks with
  | [] => (st, [])
  | k :: r =>
      match aget k (open st) with
      | None => flush_keys cfg st r
      | Some ob =>
          let '(st1, o1) := send_batch cfg st (ob_batch ob) in
          if existsb (fun o => match o with OFatal => true | _ => false end) o1
          then (mkBst (open st1) (seenl st1) (total st1) (curkey st1) (rr st1) (drops_big st1) (drops_invalid st1) true, o1)
          else let '(st2, o2) := flush_keys cfg (set_open st1 (adel k (open st1))) r in (st2, o1 ++ o2)
      end
  end.

(* handleTicker at clock reading [now]; [order] = map iteration order, [pops] = heap pop order.
   None = the oracle does not describe a possible execution. *)
Definition bstep_tick (cfg : bcfg) (st : bstate) (now : Z) (order pops : list string) : option (bstate * list bout) :=
  if dead st then Some (st, []) else
  if negb (is_perm_of_keys order st) then None else
  let rf := rule_flush cfg now st order in
  let kept := kept_keys cfg now st order in
  match mem_flush (S (List.length kept)) cfg st kept (kept_total st kept) pops with
  | None => None
  | Some mf => Some (flush_keys cfg st (rf ++ mf))
  end.

(* ================= correspondence: trace acceptance ================= *)
(* what the harness sees: a flushed empty batch is identified by its partition key (the harness
   wraps the batch factory and knows which transactions map belongs to which key) *)
Inductive oev :=
| OvSeen (l : list seen)
| OvBatch (worker : N) (pkey : string) (items : list rec) (t : txmap)
| OvEmpty (pkey : string) (t : txmap)
| OvFatal.

Inductive bev := EvFeed (m : msg) | EvOut (o : oev).

Definition seen_eqb (a b : seen) : bool :=
  String.eqb (s_txn a) (s_txn b) && String.eqb (s_key a) (s_key b) && (s_total a =? s_total b)%Z && (s_commit a =? s_commit b)%N.

(* does model output [o] (with the key of the batch it came from) equal observed [v]? *)
Definition out_matches (o : bout) (v : oev) : bool :=
  match o, v with
  | OSeenList l, OvSeen l' => list_eqb seen_eqb l l'
  | OBatch w b, OvBatch w' pk its t => (w =? w')%N && String.eqb (b_pkey b) pk && list_eqb rec_eqb (b_items b) its && list_eqb tx_eqb (b_txns b) t
  | OEmptyWritten t, OvEmpty _ t' => list_eqb tx_eqb t t'
  | OFatal, OvFatal => true
  | _, _ => false
  end.

Fixpoint expect (outs : list bout) (evs : list bev) : option (list bev) :=
  match outs with
  | [] => Some evs
  | o :: r => match evs with
              | EvOut v :: evs' => if out_matches o v then expect r evs' else None
              | _ => None
              end
  end.

Fixpoint span_outs (evs : list bev) : list oev * list bev :=
  match evs with
  | EvOut v :: r => let '(a, b) := span_outs r in (v :: a, b)
  | _ => ([], evs)
  end.

Definition oev_key (v : oev) : list string :=
  match v with OvBatch _ pk _ _ => [pk] | OvEmpty pk _ => [pk] | _ => [] end.

Definition same_keys (a b : list string) : bool :=
  Nat.eqb (List.length a) (List.length b) && forallb (fun k => existsb (String.eqb k) b) a && forallb (fun k => existsb (String.eqb k) a) b.

(* one tick explained by the observed outputs [obs]: the keys flushed by rule come first (any
   order), then the memory-pressure pops *)
Definition tick_accept (cfg : bcfg) (st : bstate) (now : Z) (obs : list oev) : option bstate :=
  let keys := flat_map oev_key obs in
  let allk := map fst (open st) in
  let R := rule_flush cfg now st allk in
  let n := List.length R in
  let first := firstn n keys in
  let pops := skipn n keys in
  if negb (same_keys first R) then None else
  match bstep_tick cfg st now (first ++ kept_keys cfg now st allk) pops with
  | Some (st', outs) =>
      if Nat.eqb (List.length outs) (List.length obs) &&
         forallb (fun p => out_matches (fst p) (snd p)) (combine outs obs)
      then Some st' else None
  | None => None
  end.

(* BATCHER case: configuration, observed event log, final drop counters *)
(* acceptance of a whole observed trace of StartBatching; clock readings are irrelevant here
   because the harness configures negative ages (every tick flushes every open batch) *)
Definition btcase := (bcfg * list bev * N * N)%type.
Fixpoint final_state (fuel : nat) (cfg : bcfg) (st : bstate) (evs : list bev) : option bstate :=
  match fuel with
  | O => None
  | S f =>
      match evs with
      | [] => Some st
      | EvFeed m :: r => let '(st', outs) := bstep_msg cfg st 0 m in
                         match expect outs r with Some r' => final_state f cfg st' r' | None => None end
      | EvOut _ :: _ => let '(obs, r) := span_outs evs in
                        match tick_accept cfg st 0 obs with Some st' => final_state f cfg st' r | None => None end
      end
  end.
Definition btcase_ok (c : btcase) : bool :=
  let '(cfg, evs, big, inv) := c in
  match final_state (S (List.length evs)) cfg binit evs with
  | Some st => (drops_big st =? big)%N && (drops_invalid st =? inv)%N
  | None => false
  end.

(* TICK case: configuration, open batches (key, batch, ctime, mtime), clock reading, observed
   outputs of ONE real handleTicker call, keys left open afterwards (sorted by the harness) *)
Definition tkcase := (bcfg * list (string * obatch) * Z * list oev * list string)%type.
Definition tkcase_ok (c : tkcase) : bool :=
  let '(cfg, opn, now, obs, leftk) := c in
  let st := mkBst opn [] 0 "" 0 0 0 false in
  match tick_accept cfg st now obs with
  | Some st' => same_keys (map fst (open st')) leftk
  | None => false
  end.

(* ================= whole runs (used by the theorems) ================= *)
Inductive bevent :=
| BMsg (now : Z) (m : msg)
| BTick (now : Z) (order pops : list string).   (* oracles: map iteration order, heap pop order *)

(* the trace of a run: what was received and what was sent, in program order *)
Inductive tr := TFeed (m : msg) | TOut (o : bout).

Definition bstep (cfg : bcfg) (st : bstate) (e : bevent) : bstate * list tr :=
  match e with
  | BMsg now m =>
      if dead st then (st, [])
      else let '(st', outs) := bstep_msg cfg st now m in (st', TFeed m :: map TOut outs)
  | BTick now order pops =>
      match bstep_tick cfg st now order pops with
      | Some (st', outs) => (st', map TOut outs)
      | None => (st, [])            (* not a possible behaviour of the code: no step *)
      end
  end.

Fixpoint brun (cfg : bcfg) (st : bstate) (evs : list bevent) : bstate * list tr :=
  match evs with
  | [] => (st, [])
  | e :: r => let '(st1, t1) := bstep cfg st e in
              let '(st2, t2) := brun cfg st1 r in (st2, t1 ++ t2)
  end.

(* what finally happens to a change handed to the batcher depends on the change alone *)
Inductive fate := FAccepted | FDroppedBig | FDroppedInvalid.
Definition fate_of (cfg : bcfg) (m : msg) : fate :=
  match c_kind cfg with
  | BGeneric _ => FAccepted
  | BKinesis meth =>
      if (max_record_bytes (c_limits cfg) <? m_jlen m)%N then FDroppedBig
      else let pk := match meth with KWalStart => dec (m_wal m) | KBatch => m_pkey m end in
           if String.eqb pk "" then FDroppedInvalid else FAccepted
  end.
