// verifharness: drives the real pg-bifrost code with fakes, writes (input, observed) cases
// as Gallina terms for the Coq model to re-evaluate, and runs property monitors over the
// implementation's traces.
package main

import (
	"encoding/json"
	"flag"
	"fmt"
	"math/rand"
	"os"
	"path/filepath"
	"sort"
	"strings"
)

// Violation is a property failure observed on the IMPLEMENTATION.
type Violation struct {
	Property  string      `json:"property"`
	Signature string      `json:"signature"` // narrow class used to match known findings
	What      string      `json:"what"`
	Case      interface{} `json:"case"` // replayable description
}

// Report is what a component run hands back to ./check.
type Report struct {
	Component    string            `json:"component"`
	Seed         int64             `json:"seed"`
	Evaluations  int               `json:"evaluations"`
	Nontrivial   int               `json:"distinct_nontrivial"`
	Rule         string            `json:"rule"`
	Distribution map[string]int    `json:"distribution"`
	Samples      []interface{}     `json:"samples"`
	Violations   []Violation       `json:"violations"`
	CasesFile    string            `json:"cases_file"`
	CaseIndex    []json.RawMessage `json:"case_index,omitempty"` // i -> replayable case (for mismatches)
	Notes        []string          `json:"notes,omitempty"`
}

type component struct {
	name string
	run  func(rng *rand.Rand, n int, corpusDir string, rep *Report) (casesV string)
}

var components = map[string]component{}

func register(c component) { components[c.name] = c }

func main() {
	comp := flag.String("component", "", "component to drive")
	seed := flag.Int64("seed", 1, "PRNG seed")
	n := flag.Int("n", 100, "number of generated cases")
	out := flag.String("out", "", "output directory")
	corpus := flag.String("corpus", "", "corpus directory")
	list := flag.Bool("list", false, "list components")
	flag.Parse()
	if *list {
		names := []string{}
		for k := range components {
			names = append(names, k)
		}
		sort.Strings(names)
		fmt.Println(strings.Join(names, " "))
		return
	}
	c, ok := components[*comp]
	if !ok {
		fmt.Fprintf(os.Stderr, "unknown component %q\n", *comp)
		os.Exit(2)
	}
	rng := rand.New(rand.NewSource(*seed))
	rep := &Report{Component: c.name, Seed: *seed, Distribution: map[string]int{}, Violations: []Violation{}, Samples: []interface{}{}}
	casesV := c.run(rng, *n, *corpus, rep)
	if err := os.MkdirAll(*out, 0o755); err != nil {
		fmt.Fprintln(os.Stderr, err)
		os.Exit(2)
	}
	vfile := filepath.Join(*out, "cases_"+c.name+".v")
	if err := os.WriteFile(vfile, []byte(casesV), 0o644); err != nil {
		fmt.Fprintln(os.Stderr, err)
		os.Exit(2)
	}
	rep.CasesFile = vfile
	js, _ := json.MarshalIndent(rep, "", " ")
	if err := os.WriteFile(filepath.Join(*out, c.name+".json"), js, 0o644); err != nil {
		fmt.Fprintln(os.Stderr, err)
		os.Exit(2)
	}
}

func bump(rep *Report, k string) { rep.Distribution[k]++ }

func rawJSON(v interface{}) json.RawMessage {
	b, _ := json.Marshal(v)
	return b
}
