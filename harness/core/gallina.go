package core

import (
	"encoding/hex"
	"fmt"
	"strings"
)

// Gallina literal helpers. Every value the harness hands to Coq goes through these.

func GStr(s string) string {
	plain := true
	for i := 0; i < len(s); i++ {
		c := s[i]
		if c < 0x20 || c > 0x7e || c == '"' {
			plain = false
			break
		}
	}
	if plain {
		return "\"" + s + "\""
	}
	return "(hx \"" + hex.EncodeToString([]byte(s)) + "\")"
}

func GN(n uint64) string { return fmt.Sprintf("%d%%N", n) }

func GZ(z int64) string {
	if z < 0 {
		return fmt.Sprintf("(%d)%%Z", z)
	}
	return fmt.Sprintf("%d%%Z", z)
}

func GNat(n int) string { return fmt.Sprintf("%d", n) }

func GBool(b bool) string {
	if b {
		return "true"
	}
	return "false"
}

func GList(items []string) string {
	return "[" + strings.Join(items, "; ") + "]"
}

func GStrList(ss []string) string {
	out := make([]string, len(ss))
	for i, s := range ss {
		out[i] = GStr(s)
	}
	return GList(out)
}

func GTuple(items ...string) string {
	return "(" + strings.Join(items, ", ") + ")"
}

func GOpt(s *string) string {
	if s == nil {
		return "None"
	}
	return "(Some " + *s + ")"
}
