// verifharness: drives the real pg-bifrost code with fakes, writes (input, observed) cases
// as Gallina terms for the Coq model to re-evaluate, and runs property monitors over the
// implementation's traces.
package core

import (
	"encoding/json"
	"flag"
	"fmt"
	"math/rand"
	"os"
	"path/filepath"
	"sort"
	"strings"
	"syscall"
)

// Violation is a property failure observed on the IMPLEMENTATION.
type Violation struct {
	Property  string      `json:"property"`
	Signature string      `json:"signature"` // narrow class used to match known findings
	What      string      `json:"what"`
	Case      interface{} `json:"case"` // replayable description
}

// Report is what a component run hands back to ./check.
type Report struct {
	Component    string            `json:"component"`
	Seed         int64             `json:"seed"`
	Evaluations  int               `json:"evaluations"`
	Nontrivial   int               `json:"distinct_nontrivial"`
	Rule         string            `json:"rule"`
	Distribution map[string]int    `json:"distribution"`
	Samples      []interface{}     `json:"samples"`
	Violations   []Violation       `json:"violations"`
	CasesFile    string            `json:"cases_file"`
	CaseIndex    []json.RawMessage `json:"case_index,omitempty"` // i -> replayable case (for mismatches)
	Notes        []string          `json:"notes,omitempty"`
}

// Component drives one part of the real code.  Run returns the text of cases_<Name>.v.
// Replay (optional) re-runs one case (the JSON stored in Report.CaseIndex / a violation's Case)
// on the implementation and returns a human-readable account.
type Component struct {
	Name   string
	Run    func(rng *rand.Rand, n int, corpusDir string, rep *Report) (casesV string)
	Replay func(caseJSON json.RawMessage) string
}

var components = map[string]Component{}

func Register(c Component) { components[c.Name] = c }

// Out is the harness's own standard output.  File descriptor 1 itself is pointed at /dev/null
// in Main because every pg-bifrost package logs to os.Stdout.
var Out = os.Stdout

func silenceStdout() {
	orig, err := syscall.Dup(1)
	if err != nil {
		return
	}
	null, err := os.OpenFile(os.DevNull, os.O_WRONLY, 0)
	if err != nil {
		return
	}
	if err := syscall.Dup3(int(null.Fd()), 1, 0); err != nil {
		return
	}
	Out = os.NewFile(uintptr(orig), "harness-stdout")
}

func Main() {
	silenceStdout()
	comp := flag.String("component", "", "component to drive")
	seed := flag.Int64("seed", 1, "PRNG seed")
	n := flag.Int("n", 100, "number of generated cases")
	out := flag.String("out", "", "output directory")
	corpus := flag.String("corpus", "", "corpus directory")
	list := flag.Bool("list", false, "list components")
	replay := flag.String("replay", "", "replay file written by ./check (or a bare case with -component)")
	flag.Parse()
	if *replay != "" {
		os.Exit(doReplay(*replay, *comp))
	}
	if *list {
		names := []string{}
		for k := range components {
			names = append(names, k)
		}
		sort.Strings(names)
		fmt.Fprintln(Out, strings.Join(names, " "))
		return
	}
	c, ok := components[*comp]
	if !ok {
		fmt.Fprintf(os.Stderr, "unknown component %q\n", *comp)
		os.Exit(2)
	}
	rng := rand.New(rand.NewSource(*seed))
	rep := &Report{Component: c.Name, Seed: *seed, Distribution: map[string]int{}, Violations: []Violation{}, Samples: []interface{}{}}
	casesV := c.Run(rng, *n, *corpus, rep)
	if err := os.MkdirAll(*out, 0o755); err != nil {
		fmt.Fprintln(os.Stderr, err)
		os.Exit(2)
	}
	vfile := filepath.Join(*out, "cases_"+c.Name+".v")
	shards := shard(casesV, rep.Evaluations, 48)
	if len(shards) <= 1 {
		if err := os.WriteFile(vfile, []byte(casesV), 0o644); err != nil {
			fmt.Fprintln(os.Stderr, err)
			os.Exit(2)
		}
	} else {
		// independent shards cases_<K>_<first index>.v; ./check runs coqc on them in parallel
		for _, sh := range shards {
			f := filepath.Join(*out, fmt.Sprintf("cases_%s_%d.v", c.Name, sh.base))
			if err := os.WriteFile(f, []byte(sh.text), 0o644); err != nil {
				fmt.Fprintln(os.Stderr, err)
				os.Exit(2)
			}
		}
	}
	rep.CasesFile = vfile
	js, _ := json.MarshalIndent(rep, "", " ")
	if err := os.WriteFile(filepath.Join(*out, c.Name+".json"), js, 0o644); err != nil {
		fmt.Fprintln(os.Stderr, err)
		os.Exit(2)
	}
}

func Bump(rep *Report, k string) { rep.Distribution[k]++ }

func RawJSON(v interface{}) json.RawMessage {
	b, _ := json.Marshal(v)
	return b
}

// doReplay re-runs the case stored in a replay file on the implementation.
func doReplay(path, comp string) int {
	b, err := os.ReadFile(path)
	if err != nil {
		fmt.Fprintln(os.Stderr, err)
		return 2
	}
	var f struct {
		Property  string          `json:"property"`
		Kind      string          `json:"kind"`
		Component string          `json:"component"`
		What      string          `json:"what"`
		Case      json.RawMessage `json:"case"`
		Broken    []struct {
			Kind   string          `json:"kind"`
			Name   string          `json:"name"`
			Detail string          `json:"detail"`
			Case   json.RawMessage `json:"case"`
		} `json:"broken"`
	}
	if err := json.Unmarshal(b, &f); err != nil {
		fmt.Fprintln(os.Stderr, err)
		return 2
	}
	fmt.Fprintf(Out, "replay of %s: property=%s kind=%s\n%s\n", path, f.Property, f.Kind, f.What)
	if comp == "" {
		comp = f.Component
	}
	run := func(name string, cs json.RawMessage) {
		name = strings.Fields(name + " x")[0]
		c, ok := components[name]
		if !ok || c.Replay == nil || len(cs) == 0 || string(cs) == "null" {
			return
		}
		fmt.Fprintf(Out, "--- %s on the implementation ---\n%s\n", name, c.Replay(cs))
	}
	run(comp, f.Case)
	for _, br := range f.Broken {
		fmt.Fprintf(Out, "no longer checks: %s %s\n", br.Kind, br.Name)
		run(br.Name, br.Case)
	}
	return 0
}

type shardT struct {
	base int
	text string
}

// shard splits a cases file of the standard shape
//   <header> Definition cases : list T := [\n c0;\n c1 ... \n].\n<footer>
// into files of at most per cases.  It gives up (one file) unless the body splits into exactly
// n pieces on ";\n".
func shard(v string, n, per int) []shardT {
	i := strings.Index(v, ":= [\n")
	j := strings.LastIndex(v, "\n].\n")
	if i < 0 || j < 0 || j < i || n <= per {
		return nil
	}
	header, body, footer := v[:i+len(":= [\n")], v[i+len(":= [\n"):j], v[j:]
	parts := strings.Split(body, ";\n")
	if len(parts) != n {
		return nil
	}
	var out []shardT
	for b := 0; b < len(parts); b += per {
		e := b + per
		if e > len(parts) {
			e = len(parts)
		}
		out = append(out, shardT{b, header + strings.Join(parts[b:e], ";\n") + footer})
	}
	return out
}
