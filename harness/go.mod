module verifharness

go 1.22

require (
	github.com/NeowayLabs/wabbit v0.0.0-20190108150251-e762dd02f7f2
	github.com/Nextdoor/pg-bifrost.git v0.0.0
	github.com/Shopify/sarama v1.38.1
	github.com/aws/aws-sdk-go v1.44.327
	github.com/cenkalti/backoff/v4 v4.2.1
	github.com/cevaris/ordered_map v0.0.0-20180310183325-0efaee1733e3
	github.com/jackc/pglogrepl v0.0.0-20230428004623-0c5b98f52784
	github.com/jackc/pgx/v5 v5.3.1
	github.com/sirupsen/logrus v1.9.3
)

require (
	github.com/BurntSushi/toml v1.2.1 // indirect
	github.com/davecgh/go-spew v1.1.2-0.20180830191138-d8f796af33cc // indirect
	github.com/eapache/go-resiliency v1.4.0 // indirect
	github.com/eapache/go-xerial-snappy v0.0.0-20230731223053-c322873962e3 // indirect
	github.com/eapache/queue v1.1.0 // indirect
	github.com/goccy/go-json v0.10.2 // indirect
	github.com/golang/snappy v0.0.4 // indirect
	github.com/google/go-cmp v0.6.0 // indirect
	github.com/google/uuid v1.3.1 // indirect
	github.com/hashicorp/errwrap v1.1.0 // indirect
	github.com/hashicorp/go-multierror v1.1.1 // indirect
	github.com/hashicorp/go-uuid v1.0.3 // indirect
	github.com/jackc/pgio v1.0.0 // indirect
	github.com/jackc/pgpassfile v1.0.0 // indirect
	github.com/jackc/pgservicefile v0.0.0-20221227161230-091c0ba34f0a // indirect
	github.com/jcmturner/aescts/v2 v2.0.0 // indirect
	github.com/jcmturner/dnsutils/v2 v2.0.0 // indirect
	github.com/jcmturner/gofork v1.7.6 // indirect
	github.com/jcmturner/gokrb5/v8 v8.4.4 // indirect
	github.com/jcmturner/rpc/v2 v2.0.3 // indirect
	github.com/jmespath/go-jmespath v0.4.0 // indirect
	github.com/klauspost/compress v1.17.1 // indirect
	github.com/klauspost/pgzip v1.2.6 // indirect
	github.com/pierrec/lz4/v4 v4.1.18 // indirect
	github.com/pkg/errors v0.9.1 // indirect
	github.com/rcrowley/go-metrics v0.0.0-20201227073835-cf1acfcdf475 // indirect
	github.com/streadway/amqp v0.0.0-20181205114330-a314942b2fd9 // indirect
	golang.org/x/crypto v0.17.0 // indirect
	golang.org/x/net v0.17.0 // indirect
	golang.org/x/sys v0.15.0 // indirect
	golang.org/x/text v0.14.0 // indirect
	gopkg.in/Nextdoor/cli.v1 v1.20.2 // indirect
	gopkg.in/yaml.v2 v2.4.0 // indirect
)

replace github.com/Nextdoor/pg-bifrost.git => /repo
