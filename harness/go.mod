module verifharness

go 1.22

require (
	github.com/Nextdoor/pg-bifrost.git v0.0.0
	github.com/cevaris/ordered_map v0.0.0-20180310183325-0efaee1733e3
)

require (
	github.com/cenkalti/backoff/v4 v4.2.1 // indirect
	github.com/goccy/go-json v0.10.2 // indirect
	github.com/google/go-cmp v0.6.0 // indirect
	github.com/jackc/pgio v1.0.0 // indirect
	github.com/jackc/pglogrepl v0.0.0-20230428004623-0c5b98f52784 // indirect
	github.com/jackc/pgpassfile v1.0.0 // indirect
	github.com/jackc/pgservicefile v0.0.0-20221227161230-091c0ba34f0a // indirect
	github.com/jackc/pgx/v5 v5.3.1 // indirect
	github.com/pkg/errors v0.9.1 // indirect
	github.com/sirupsen/logrus v1.9.3 // indirect
	golang.org/x/crypto v0.17.0 // indirect
	golang.org/x/sys v0.15.0 // indirect
	golang.org/x/text v0.14.0 // indirect
)

replace github.com/Nextdoor/pg-bifrost.git => /repo
