package main

import (
	"verifharness/core"

	_ "verifharness/comp/batcher"
)

func main() { core.Main() }
