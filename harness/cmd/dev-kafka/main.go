//go:build verif

package main

import (
	_ "verifharness/comp/kafka"
	"verifharness/core"
)

func main() { core.Main() }
