//go:build verif

package main

import (
	_ "verifharness/comp/front"
	"verifharness/core"
)

func main() { core.Main() }
