package main

import (
	"verifharness/core"

	_ "verifharness/comp/marshal"
)

func main() { core.Main() }
