package main

import (
	_ "verifharness/comp/rabbitconn"
	"verifharness/core"
)

func main() { core.Main() }
