package main

import (
	"verifharness/core"

	_ "verifharness/comp/s3"
)

func main() { core.Main() }
