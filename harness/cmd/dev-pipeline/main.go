package main

import (
	"verifharness/core"

	_ "verifharness/comp/pipeline"
)

func main() { core.Main() }
