//go:build verif

package main

import (
	_ "verifharness/comp/parse"
	"verifharness/core"
)

func main() { core.Main() }
