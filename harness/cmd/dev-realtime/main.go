package main

import (
	"verifharness/core"

	_ "verifharness/comp/realtime"
)

func main() { core.Main() }
