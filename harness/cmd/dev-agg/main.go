package main

import (
	"verifharness/core"

	_ "verifharness/comp/agg"
)

func main() { core.Main() }
