//go:build verif

package main

import (
	_ "verifharness/comp/kinesis"
	"verifharness/core"
)

func main() { core.Main() }
