package main

import (
	"verifharness/core"

	_ "verifharness/comp/client"
)

func main() { core.Main() }
