//go:build verif

package main

import (
	_ "verifharness/comp/filter"
	_ "verifharness/comp/partition"
	"verifharness/core"
)

func main() { core.Main() }
