//go:build verif

package main

import (
	"verifharness/core"
	_ "verifharness/comp/stdoutw"
)

func main() { core.Main() }
