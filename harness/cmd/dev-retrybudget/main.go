package main

import (
	"verifharness/core"

	_ "verifharness/comp/retrybudget"
)

func main() { core.Main() }
