package main

import (
	"verifharness/core"

	_ "verifharness/comp/workerfault"
)

func main() { core.Main() }
