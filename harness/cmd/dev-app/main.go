package main

import (
	"verifharness/core"

	_ "verifharness/comp/app"
)

func main() { core.Main() }
