package main

import (
	"verifharness/core"

	_ "verifharness/comp/kafkaprod"
)

func main() { core.Main() }
