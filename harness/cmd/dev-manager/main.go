package main

import (
	"verifharness/core"

	_ "verifharness/comp/manager"
)

func main() { core.Main() }
