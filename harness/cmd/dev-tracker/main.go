package main

import (
	_ "verifharness/comp/tracker"
	"verifharness/core"
)

func main() { core.Main() }
