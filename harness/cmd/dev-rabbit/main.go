//go:build verif

package main

import (
	_ "verifharness/comp/rabbit"
	"verifharness/core"
)

func main() { core.Main() }
