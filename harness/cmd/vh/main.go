package main

import "verifharness/core"

func main() { core.Main() }
