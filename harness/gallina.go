package main

import (
	"encoding/hex"
	"fmt"
	"strings"
)

// Gallina literal helpers. Every value the harness hands to Coq goes through these.

func gStr(s string) string {
	plain := true
	for i := 0; i < len(s); i++ {
		c := s[i]
		if c < 0x20 || c > 0x7e || c == '"' {
			plain = false
			break
		}
	}
	if plain {
		return "\"" + s + "\""
	}
	return "(hx \"" + hex.EncodeToString([]byte(s)) + "\")"
}

func gN(n uint64) string { return fmt.Sprintf("%d%%N", n) }

func gZ(z int64) string {
	if z < 0 {
		return fmt.Sprintf("(%d)%%Z", z)
	}
	return fmt.Sprintf("%d%%Z", z)
}

func gNat(n int) string { return fmt.Sprintf("%d", n) }

func gBool(b bool) string {
	if b {
		return "true"
	}
	return "false"
}

func gList(items []string) string {
	return "[" + strings.Join(items, "; ") + "]"
}

func gStrList(ss []string) string {
	out := make([]string, len(ss))
	for i, s := range ss {
		out[i] = gStr(s)
	}
	return gList(out)
}

func gTuple(items ...string) string {
	return "(" + strings.Join(items, ", ") + ")"
}

func gOpt(s *string) string {
	if s == nil {
		return "None"
	}
	return "(Some " + *s + ")"
}
