//go:build verif

// Package fakepg is a minimal PostgreSQL replication server (wire protocol v3, walsender
// subset) for driving the real pg-bifrost binary or the real conn.Manager end to end.
//
// Contract (what this fake promises; a real server can do more — authentication failures, errors,
// connection loss — and the properties that use the fake say so): it accepts any startup packet (refuses TLS with 'N', no
// authentication), answers IDENTIFY_SYSTEM, CREATE_REPLICATION_SLOT and DROP_REPLICATION_SLOT,
// and on  START_REPLICATION SLOT s LOGICAL L  answers CopyBothResponse and then sends
//  1. a primary keepalive carrying the slot position (max(Script.StartLSN, highest position
//     acknowledged so far)),
//  2. every transaction of the script whose commit LSN is greater than L, in script order, as
//     XLogData messages with test_decoding text (BEGIN x / changes / COMMIT x), with a keepalive
//     (no reply requested) after every Script.KeepaliveEvery data messages,
//  3. then a keepalive every Script.IdleKeepalive until the client goes away.
//
// Every StandbyStatusUpdate is recorded; one with ReplyRequested is answered by a keepalive.
// A new connection starts again at 1 (PostgreSQL re-sends everything not acknowledged).
//
// API:  s, err := fakepg.Start(script);  s.Host, s.Port;  s.WaitAck(lsn, timeout);
// s.Status(), s.Starts(), s.Queries(), s.Connections();  s.Close().
package fakepg

import (
	"encoding/binary"
	"fmt"
	"net"
	"strconv"
	"strings"
	"sync"
	"sync/atomic"
	"time"

	"github.com/jackc/pgx/v5/pgproto3"
)

// Change is one row change: the test_decoding text, e.g. "table public.a: INSERT: id[integer]:1".
type Change struct {
	LSN  uint64
	Text string
}

// Txn is one committed transaction.  BEGIN is sent with BeginLSN, COMMIT with CommitLSN.
type Txn struct {
	Xid       string
	BeginLSN  uint64
	CommitLSN uint64
	Changes   []Change
}

type Script struct {
	StartLSN       uint64        // slot position reported by the first keepalive
	Txns           []Txn         // in commit order, LSNs strictly increasing
	KeepaliveEvery int           // keepalive after this many XLogData messages (0: none in between)
	IdleKeepalive  time.Duration // keepalive period after the stream (default 100ms)

	// Optional hooks; nil (the default) changes nothing.  They are called from the connection's
	// goroutines without any server lock held.
	OnStatus func(pos uint64, replyRequested bool) // a StandbyStatusUpdate has arrived (called before it is recorded)
	OnStart  func(cmd StartCmd)                    // START_REPLICATION has arrived (called before anything is streamed)
	// BeforeData is called before every XLogData message is sent.  A non-nil channel makes the
	// stream wait until it is closed; keepalives keep flowing every IdleKeepalive meanwhile.
	BeforeData func(lsn uint64, text string) <-chan struct{}

	// DecodeErrAt != 0: whenever the stream reaches the data message at this position the walsender raises
	// a (non-FATAL) decoding ERROR instead of sending it: ErrorResponse + ReadyForQuery, the COPY BOTH
	// stream is over and the session is back in command mode.  The error is a property of the WAL: it is
	// raised again by every START_REPLICATION from a position before it.  From the first time on
	// IDENTIFY_SYSTEM reports DecodeErrXLogPos (the server's flush position at that moment) instead of the
	// end of the script.  OnDecodeErr is called with the number of times the error has been raised.
	DecodeErrAt      uint64
	DecodeErrXLogPos uint64
	OnDecodeErr      func(n int)
}

// Start records one START_REPLICATION command.
type StartCmd struct {
	Slot string
	LSN  uint64
	Raw  string
}

type Server struct {
	Host string
	Port int

	script Script
	ln     net.Listener
	mu     sync.Mutex
	cond   *sync.Cond
	status []uint64 // WALWritePosition of every StandbyStatusUpdate, in arrival order
	starts []StartCmd
	query  []string
	conns  int
	closed bool
	open   map[net.Conn]bool
	decErr int // times the scripted decoding error has been raised
}

func Start(script Script) (*Server, error) {
	ln, err := net.Listen("tcp", "127.0.0.1:0")
	if err != nil {
		return nil, err
	}
	if script.IdleKeepalive == 0 {
		script.IdleKeepalive = 100 * time.Millisecond
	}
	s := &Server{script: script, ln: ln, open: map[net.Conn]bool{}}
	s.cond = sync.NewCond(&s.mu)
	addr := ln.Addr().(*net.TCPAddr)
	s.Host, s.Port = "127.0.0.1", addr.Port
	go func() {
		for {
			c, err := ln.Accept()
			if err != nil {
				return
			}
			s.mu.Lock()
			if s.closed {
				s.mu.Unlock()
				c.Close()
				return
			}
			s.conns++
			s.open[c] = true
			s.mu.Unlock()
			go s.serve(c)
		}
	}()
	return s, nil
}

func (s *Server) Close() {
	s.mu.Lock()
	s.closed = true
	for c := range s.open {
		c.Close()
	}
	s.cond.Broadcast()
	s.mu.Unlock()
	s.ln.Close()
}

// Status returns the acknowledged positions (WALWritePosition) in arrival order.
func (s *Server) Status() []uint64 {
	s.mu.Lock()
	defer s.mu.Unlock()
	return append([]uint64(nil), s.status...)
}

func (s *Server) Starts() []StartCmd {
	s.mu.Lock()
	defer s.mu.Unlock()
	return append([]StartCmd(nil), s.starts...)
}

func (s *Server) Queries() []string {
	s.mu.Lock()
	defer s.mu.Unlock()
	return append([]string(nil), s.query...)
}

func (s *Server) Connections() int {
	s.mu.Lock()
	defer s.mu.Unlock()
	return s.conns
}

func (s *Server) ackedLocked() uint64 {
	var m uint64
	for _, x := range s.status {
		if x > m {
			m = x
		}
	}
	return m
}

// Acked is the highest position acknowledged so far.
func (s *Server) Acked() uint64 {
	s.mu.Lock()
	defer s.mu.Unlock()
	return s.ackedLocked()
}

// WaitAck blocks until a position >= lsn has been acknowledged (true) or the timeout passed.
func (s *Server) WaitAck(lsn uint64, timeout time.Duration) bool {
	deadline := time.Now().Add(timeout)
	t := time.AfterFunc(timeout, func() { s.mu.Lock(); s.cond.Broadcast(); s.mu.Unlock() })
	defer t.Stop()
	s.mu.Lock()
	defer s.mu.Unlock()
	for s.ackedLocked() < lsn && !s.closed && time.Now().Before(deadline) {
		s.cond.Wait()
	}
	return s.ackedLocked() >= lsn
}

// ---- wire ----

func pgTime(t time.Time) uint64 {
	return uint64(t.Sub(time.Date(2000, 1, 1, 0, 0, 0, 0, time.UTC)).Microseconds())
}

func keepalive(walEnd uint64, reply bool) *pgproto3.CopyData {
	b := make([]byte, 18)
	b[0] = 'k'
	binary.BigEndian.PutUint64(b[1:], walEnd)
	binary.BigEndian.PutUint64(b[9:], pgTime(time.Now()))
	if reply {
		b[17] = 1
	}
	return &pgproto3.CopyData{Data: b}
}

// XLogData with server time 0, as PostgreSQL's logical walsender sends it.
func xlogData(walStart, walEnd uint64, text string) *pgproto3.CopyData {
	b := make([]byte, 25, 25+len(text))
	b[0] = 'w'
	binary.BigEndian.PutUint64(b[1:], walStart)
	binary.BigEndian.PutUint64(b[9:], walEnd)
	binary.BigEndian.PutUint64(b[17:], 0)
	return &pgproto3.CopyData{Data: append(b, text...)}
}

func LSNString(l uint64) string { return fmt.Sprintf("%X/%X", uint32(l>>32), uint32(l)) }

func parseLSN(s string) (uint64, bool) {
	p := strings.SplitN(s, "/", 2)
	if len(p) != 2 {
		return 0, false
	}
	hi, e1 := strconv.ParseUint(p[0], 16, 32)
	lo, e2 := strconv.ParseUint(p[1], 16, 32)
	return hi<<32 | lo, e1 == nil && e2 == nil
}

type session struct {
	s         *Server
	c         net.Conn
	be        *pgproto3.Backend
	wm        sync.Mutex // serialises writers (stream goroutine and status replies)
	streaming int32      // 1 while in COPY BOTH mode (atomic)
}

func (x *session) send(msgs ...pgproto3.BackendMessage) error {
	x.wm.Lock()
	defer x.wm.Unlock()
	for _, m := range msgs {
		x.be.Send(m)
	}
	return x.be.Flush()
}

func textRow(cols []string, vals []string) []pgproto3.BackendMessage {
	fds := make([]pgproto3.FieldDescription, len(cols))
	row := make([][]byte, len(vals))
	for i, c := range cols {
		fds[i] = pgproto3.FieldDescription{Name: []byte(c), DataTypeOID: 25, DataTypeSize: -1, TypeModifier: -1}
		row[i] = []byte(vals[i])
	}
	return []pgproto3.BackendMessage{&pgproto3.RowDescription{Fields: fds}, &pgproto3.DataRow{Values: row}}
}

func (s *Server) serve(c net.Conn) {
	defer func() {
		c.Close()
		s.mu.Lock()
		delete(s.open, c)
		s.mu.Unlock()
	}()
	x := &session{s: s, c: c, be: pgproto3.NewBackend(c, c)}
	for { // startup: refuse TLS/GSS, accept the startup packet
		m, err := x.be.ReceiveStartupMessage()
		if err != nil {
			return
		}
		if _, ok := m.(*pgproto3.StartupMessage); ok {
			break
		}
		if _, ok := m.(*pgproto3.CancelRequest); ok {
			return
		}
		if _, err := c.Write([]byte{'N'}); err != nil {
			return
		}
	}
	if x.send(&pgproto3.AuthenticationOk{},
		&pgproto3.ParameterStatus{Name: "server_version", Value: "14.0 (fakepg)"},
		&pgproto3.ParameterStatus{Name: "client_encoding", Value: "UTF8"},
		&pgproto3.BackendKeyData{ProcessID: 1, SecretKey: 1},
		&pgproto3.ReadyForQuery{TxStatus: 'I'}) != nil {
		return
	}
	for {
		m, err := x.be.Receive()
		if err != nil {
			return
		}
		switch q := m.(type) {
		case *pgproto3.Terminate:
			return
		case *pgproto3.CopyData:
			if len(q.Data) >= 34 && q.Data[0] == 'r' {
				pos := binary.BigEndian.Uint64(q.Data[1:])
				reply := q.Data[33] != 0
				if h := s.script.OnStatus; h != nil {
					h(pos, reply)
				}
				s.mu.Lock()
				s.status = append(s.status, pos)
				s.cond.Broadcast()
				s.mu.Unlock()
				if reply && x.send(keepalive(s.walEnd(), false)) != nil {
					return
				}
			}
		case *pgproto3.CopyDone:
			return
		case *pgproto3.Query:
			if atomic.LoadInt32(&x.streaming) == 1 {
				return
			}
			sql := strings.TrimSpace(q.String)
			s.mu.Lock()
			s.query = append(s.query, sql)
			s.mu.Unlock()
			f := strings.Fields(sql)
			switch {
			case len(f) >= 1 && f[0] == "IDENTIFY_SYSTEM":
				msgs := textRow([]string{"systemid", "timeline", "xlogpos", "dbname"},
					[]string{"7000000000000000001", "1", LSNString(s.xlogPos()), "postgres"})
				msgs = append(msgs, &pgproto3.CommandComplete{CommandTag: []byte("IDENTIFY_SYSTEM")}, &pgproto3.ReadyForQuery{TxStatus: 'I'})
				if x.send(msgs...) != nil {
					return
				}
			case len(f) >= 2 && f[0] == "CREATE_REPLICATION_SLOT":
				msgs := textRow([]string{"slot_name", "consistent_point", "snapshot_name", "output_plugin"},
					[]string{f[1], LSNString(s.script.StartLSN), "", "test_decoding"})
				msgs = append(msgs, &pgproto3.CommandComplete{CommandTag: []byte("CREATE_REPLICATION_SLOT")}, &pgproto3.ReadyForQuery{TxStatus: 'I'})
				if x.send(msgs...) != nil {
					return
				}
			case len(f) >= 1 && f[0] == "DROP_REPLICATION_SLOT":
				if x.send(&pgproto3.CommandComplete{CommandTag: []byte("DROP_REPLICATION_SLOT")}, &pgproto3.ReadyForQuery{TxStatus: 'I'}) != nil {
					return
				}
			case len(f) >= 5 && f[0] == "START_REPLICATION" && f[1] == "SLOT":
				lsn, ok := parseLSN(f[4])
				if !ok {
					x.send(&pgproto3.ErrorResponse{Severity: "ERROR", Code: "42601", Message: "fakepg: bad LSN"}, &pgproto3.ReadyForQuery{TxStatus: 'I'})
					continue
				}
				if h := s.script.OnStart; h != nil {
					h(StartCmd{Slot: f[2], LSN: lsn, Raw: sql})
				}
				s.mu.Lock()
				s.starts = append(s.starts, StartCmd{Slot: f[2], LSN: lsn, Raw: sql})
				s.mu.Unlock()
				if x.send(&pgproto3.CopyBothResponse{OverallFormat: 0}) != nil {
					return
				}
				atomic.StoreInt32(&x.streaming, 1)
				go x.stream(lsn)
			default:
				x.send(&pgproto3.ErrorResponse{Severity: "ERROR", Code: "42601", Message: "fakepg: unsupported command: " + sql}, &pgproto3.ReadyForQuery{TxStatus: 'I'})
			}
		}
	}
}

// walEnd: the server's current WAL end = commit LSN of the last scripted transaction.
func (s *Server) walEnd() uint64 {
	e := s.script.StartLSN
	for _, t := range s.script.Txns {
		if t.CommitLSN > e {
			e = t.CommitLSN
		}
	}
	return e
}

// xlogPos: what IDENTIFY_SYSTEM reports
func (s *Server) xlogPos() uint64 {
	s.mu.Lock()
	n := s.decErr
	s.mu.Unlock()
	if n > 0 && s.script.DecodeErrXLogPos != 0 {
		return s.script.DecodeErrXLogPos
	}
	return s.walEnd()
}

func (x *session) stream(from uint64) {
	s := x.s
	s.mu.Lock()
	slot := s.script.StartLSN
	if a := s.ackedLocked(); a > slot {
		slot = a
	}
	s.mu.Unlock()
	if x.send(keepalive(slot, false)) != nil {
		return
	}
	end := s.walEnd()
	sent := 0
	data := func(lsn uint64, text string) bool {
		if s.script.DecodeErrAt != 0 && lsn == s.script.DecodeErrAt {
			s.mu.Lock()
			s.decErr++
			n := s.decErr
			s.mu.Unlock()
			if h := s.script.OnDecodeErr; h != nil {
				h(n)
			}
			x.wm.Lock()
			x.be.Send(&pgproto3.ErrorResponse{Severity: "ERROR", SeverityUnlocalized: "ERROR", Code: "XX000", Message: "invalid memory alloc request size 1073741824"})
			x.be.Send(&pgproto3.ReadyForQuery{TxStatus: 'I'})
			atomic.StoreInt32(&x.streaming, 0)
			x.be.Flush()
			x.wm.Unlock()
			return false
		}
		if h := s.script.BeforeData; h != nil {
			if gate := h(lsn, text); gate != nil {
				for open := false; !open; {
					select {
					case <-gate:
						open = true
					case <-time.After(s.script.IdleKeepalive):
						if x.send(keepalive(end, false)) != nil {
							return false
						}
					}
				}
			}
		}
		if x.send(xlogData(lsn, end, text)) != nil {
			return false
		}
		sent++
		if s.script.KeepaliveEvery > 0 && sent%s.script.KeepaliveEvery == 0 {
			return x.send(keepalive(end, false)) == nil
		}
		return true
	}
	for _, t := range s.script.Txns {
		if t.CommitLSN <= from {
			continue
		}
		if !data(t.BeginLSN, "BEGIN "+t.Xid) {
			return
		}
		for _, ch := range t.Changes {
			if !data(ch.LSN, ch.Text) {
				return
			}
		}
		if !data(t.CommitLSN, "COMMIT "+t.Xid) {
			return
		}
	}
	for {
		time.Sleep(s.script.IdleKeepalive)
		if x.send(keepalive(end, false)) != nil {
			return
		}
	}
}
