//go:build verif

// Package filter holds two components serving property C08:
//
//	FILTER  the real filter.New(...).Start() on generated message streams (this file)
//	CLI     the real pg-bifrost binary, filter flags on its command line, against the fake
//	        PostgreSQL server of verifharness/fakepg, stdout transport (cli.go)
package filter

import (
	"encoding/json"
	"fmt"
	"github.com/jackc/pglogrepl"
	"math/rand"
	"os"
	"path/filepath"
	"regexp"
	"sort"
	"strings"

	"verifharness/core"

	realfilter "github.com/Nextdoor/pg-bifrost.git/filter"
	"github.com/Nextdoor/pg-bifrost.git/parselogical"
	"github.com/Nextdoor/pg-bifrost.git/replication"
	"github.com/Nextdoor/pg-bifrost.git/shutdown"
	"github.com/Nextdoor/pg-bifrost.git/stats"
)

// ---- case ----

type fmsg struct {
	Op  string `json:"op"`
	Rel string `json:"rel"`
}

type fcase struct {
	Mode string `json:"mode"`
	// Decoded: every row message reaches the filter the way it does in production - printed as
	// test_decoding text ("table <relation>: <OP>: ...") and decoded by the real parser - instead of
	// being handed over as a ready-made ParseResult.  The relations of such a case are names as
	// PostgreSQL prints them (quote_identifier).
	Decoded   bool     `json:"decoded,omitempty"`
	Whitelist bool     `json:"whitelist"`
	Regex     bool     `json:"regex"`
	Tablelist []string `json:"tablelist"`
	Msgs      []fmsg   `json:"msgs"`
}

type fobs struct {
	Forwarded []int // indices of the input messages that came out, in order
	Panicked  bool  // the stage stopped before consuming its whole input (recovered panic)
	// Decoded cases: messages the real decoder refused
	DecodeErrs []string
}

func isMarker(op string) bool { return op == "BEGIN" || op == "COMMIT" }

// runFilterImpl drives the real stage: all input is queued, the input channel is closed, and
// the output channel is read until the stage closes it.  Every processed message produces exactly
// one stat ("passed"/"filtered"); a message that panics produces none.
func runFilterImpl(c fcase) fobs {
	sh := shutdown.NewShutdownHandler()
	in := make(chan *replication.WalMessage, len(c.Msgs)+1)
	statsChan := make(chan stats.Stat, len(c.Msgs)+1)
	f := realfilter.New(sh, in, statsChan, c.Whitelist, c.Regex, c.Tablelist)
	var decodeErrs []string
	for i, m := range c.Msgs {
		pr := &parselogical.ParseResult{Operation: m.Op, Relation: m.Rel}
		if c.Decoded && !isMarker(m.Op) {
			text := "table " + m.Rel + ": " + m.Op + ": id[integer]:1 note[text]:'x: y'"
			if m.Op == "TRUNCATE" {
				text = "table " + m.Rel + ": TRUNCATE: (no-flags)"
			}
			wm, err := replication.XLogDataToWalMessage(pglogrepl.XLogData{WALStart: pglogrepl.LSN(i), WALData: []byte(text)})
			if err != nil {
				decodeErrs = append(decodeErrs, fmt.Sprintf("message %d %q: %v", i, text, err))
				continue // (the client treats a decode error as fatal; here the message is simply missing)
			}
			wm.WalStart = uint64(i)
			in <- wm
			continue
		}
		in <- &replication.WalMessage{WalStart: uint64(i), Pr: pr}
	}
	close(in)
	go f.Start()
	var o fobs
	o.DecodeErrs = decodeErrs
	for m := range f.OutputChan {
		o.Forwarded = append(o.Forwarded, int(m.WalStart))
	}
	o.Panicked = len(statsChan) < len(c.Msgs)-len(decodeErrs)
	return o
}

// matrix computes, with Go's regexp, which tablelist items do not compile and which
// (item, relation) pairs match.
func matrix(items []string, rels []string) (bad []string, pairs [][2]string) {
	seenItem := map[string]bool{}
	for _, it := range items {
		if seenItem[it] {
			continue
		}
		seenItem[it] = true
		re, err := regexp.Compile(it)
		if err != nil {
			bad = append(bad, it)
			continue
		}
		seenRel := map[string]bool{}
		for _, r := range rels {
			if !seenRel[r] && re.MatchString(r) {
				pairs = append(pairs, [2]string{it, r})
			}
			seenRel[r] = true
		}
	}
	return
}

func gMsgs(ms []fmsg) string {
	out := make([]string, len(ms))
	for i, m := range ms {
		out[i] = fmt.Sprintf("mkF %s %s %s", core.GN(uint64(i)), core.GStr(m.Op), core.GStr(m.Rel))
	}
	return core.GList(out)
}

func gPairs(pairs [][2]string) string {
	out := make([]string, len(pairs))
	for i, p := range pairs {
		out[i] = core.GTuple(core.GStr(p[0]), core.GStr(p[1]))
	}
	return core.GList(out)
}

func gIdx(ix []int) string {
	out := make([]string, len(ix))
	for i, x := range ix {
		out[i] = core.GN(uint64(x))
	}
	return core.GList(out)
}

func rels(ms []fmsg) []string {
	out := make([]string, len(ms))
	for i, m := range ms {
		out[i] = m.Rel
	}
	return out
}

func filterCaseGallina(c fcase, o fobs) string {
	bad, pairs := matrix(c.Tablelist, rels(c.Msgs))
	cfg := core.GTuple(core.GBool(c.Whitelist), core.GBool(c.Regex), core.GStrList(c.Tablelist))
	return core.GTuple(cfg, core.GStrList(bad), gPairs(pairs), gMsgs(c.Msgs), gIdx(o.Forwarded), core.GBool(o.Panicked))
}

// ---- monitor: C08 at the stage, stated directly (independent of the Coq model) ----
// A change is forwarded iff permitted by the configured kind of list; BEGIN/COMMIT always; order
// kept.  Cases whose regexp list contains an item that does not compile are outside the domain.
func permittedGo(whitelist, regex bool, list []string, rel string) bool {
	hit := false
	for _, it := range list {
		if regex {
			if regexp.MustCompile(it).MatchString(rel) {
				hit = true
			}
		} else if it == rel {
			hit = true
		}
	}
	return hit == whitelist
}

func filterMonitor(c fcase, o fobs) (vs []core.Violation, inDomain bool) {
	if c.Regex {
		for _, it := range c.Tablelist {
			if _, err := regexp.Compile(it); err != nil {
				return nil, false
			}
		}
	}
	var want []int
	for i, m := range c.Msgs {
		if isMarker(m.Op) || permittedGo(c.Whitelist, c.Regex, c.Tablelist, m.Rel) {
			want = append(want, i)
		}
	}
	if o.Panicked || fmt.Sprint(want) != fmt.Sprint(o.Forwarded) {
		what := fmt.Sprintf("filter stage forwarded %v (panicked=%v), the configured list permits %v", o.Forwarded, o.Panicked, want)
		if len(o.DecodeErrs) > 0 {
			what += "; the decoder refused: " + strings.Join(o.DecodeErrs, "; ")
		}
		vs = append(vs, core.Violation{Property: "C08", Signature: "filter-stage-mismatch", What: what, Case: c})
	}
	return vs, true
}

// ---- generator ----

var relPool = []string{
	"public.a", "public.b", "public.ab", "public.customers", "s2.a", "public.A",
	`public."Quoted.Name"`, `"My Schema"."t,1"`, `"a""b".c`, "public.a, public.b", "public.b, s2.a, public.customers",
	"", "public.\xc3\xa9t\xc3\xa9", "public.a_very_long_table_name_that_goes_on_and_on_and_on_0123456789",
	"public.pg_temp_readings", "public.users, public.pg_temp_readings", "public.pg_toast_notes",
}

var plainExtra = []string{"a", "public", "public.", "PUBLIC.A", "public.a ", "public.b, public.a", "Quoted.Name", "", " "}

var rxPool = []string{
	`^public\.a$`, `public\.a`, `^public\.`, `a`, `.*`, `^$`, `\.b`, `(?i)quoted`, `^public\.(a|b)$`,
	`public.a, public.b`, `^"`, `,`, `^s2\.`, `customers$`, `\x{e9}`, `^public\.a(, |$)`, `[[:upper:]]`,
	// blank entries (a trailing comma in WHITELIST_REGEX, --blacklist-regex ""): the empty pattern is a valid
	// regexp that matches every relation, a blank one matches names with a space and multi-table lists
	``, ` `, ``, `\t`,
}

var rxBad = []string{`[`, `(`, `a{2,1}`, `*a`, `\Q`, `(?P<n`}

func pick(rng *rand.Rand, pool []string) string { return pool[rng.Intn(len(pool))] }

func genStream(rng *rand.Rand) []fmsg {
	var ms []fmsg
	ntx := 1 + rng.Intn(4)
	for t := 0; t < ntx; t++ {
		ms = append(ms, fmsg{Op: "BEGIN"})
		for k := rng.Intn(6); k > 0; k-- {
			rel := pick(rng, relPool)
			op := []string{"INSERT", "UPDATE", "DELETE"}[rng.Intn(3)]
			if strings.Contains(rel, ", ") || rng.Intn(12) == 0 {
				op = "TRUNCATE"
			}
			ms = append(ms, fmsg{Op: op, Rel: rel})
		}
		if rng.Intn(10) != 0 { // sometimes the COMMIT is lost (connection flap)
			ms = append(ms, fmsg{Op: "COMMIT"})
		}
	}
	return ms
}

// relations exactly as test_decoding prints them (quote_identifier on schema and table): the cases that
// go through the real decoder use only these
var printedPool = []string{
	"public.a", "public.b", "public.ab", "public.customers", "s2.a", `public."A"`,
	`public."Quoted.Name"`, `"My Schema"."t,1"`, `"a""b".c`, `public."audit: log"`, `"s: x".t`, `public."x: INSERT: y"`,
	`public."tab[1]"`, `public."o'hara"`, `public."TRUNCATE"`, `public."table"`, `public."a, public.b"`,
	"public.a_very_long_table_name_that_goes_on_and_on_and_on_0123456789",
	// ordinary user tables whose names look like something internal (only SCHEMA names starting with pg_ are reserved)
	"public.pg_temp_readings", "public.pg_toast_notes", "app.sql_features",
}

func genDecodedCase(rng *rand.Rand) fcase {
	c := fcase{Whitelist: rng.Intn(2) == 0, Regex: rng.Intn(3) == 0, Decoded: true}
	for t := 1 + rng.Intn(3); t > 0; t-- {
		c.Msgs = append(c.Msgs, fmsg{Op: "BEGIN"})
		for k := rng.Intn(6); k > 0; k-- {
			rel := pick(rng, printedPool)
			op := []string{"INSERT", "UPDATE", "DELETE"}[rng.Intn(3)]
			if rng.Intn(8) == 0 {
				op = "TRUNCATE"
				for j := rng.Intn(3); j > 0; j-- {
					rel += ", " + pick(rng, printedPool)
				}
			}
			c.Msgs = append(c.Msgs, fmsg{Op: op, Rel: rel})
		}
		c.Msgs = append(c.Msgs, fmsg{Op: "COMMIT"})
	}
	for i := rng.Intn(4); i > 0; i-- {
		it := pick(rng, printedPool)
		if c.Regex {
			it = []string{"^" + regexp.QuoteMeta(it) + "$", regexp.QuoteMeta(it), `^public\.`, `: `, `^"`, `log"$`}[rng.Intn(6)]
		} else if rng.Intn(6) == 0 {
			for _, m := range c.Msgs {
				if m.Op == "TRUNCATE" {
					it = m.Rel
				}
			}
		}
		c.Tablelist = append(c.Tablelist, it)
	}
	c.Mode = "decoded-" + map[bool]string{true: "whitelist", false: "blacklist"}[c.Whitelist] + map[bool]string{true: "-regex", false: ""}[c.Regex]
	return c
}

// genManyRelations: a long-running stream: 1030-1400 DISTINCT relations (partitions, per-tenant schemas) pass
// before the relations the list is about arrive.  Whatever a filter remembers about relations it has seen,
// its verdict for a relation must not depend on how many others came before.
func genManyRelations(rng *rand.Rand) fcase {
	c := fcase{Whitelist: rng.Intn(2) == 0, Regex: rng.Intn(2) == 0, Mode: "many-relations"}
	n := 1030 + rng.Intn(371)
	c.Msgs = append(c.Msgs, fmsg{Op: "BEGIN"})
	for i := 0; i < n; i++ {
		c.Msgs = append(c.Msgs, fmsg{Op: "INSERT", Rel: fmt.Sprintf("tenant_%04d.orders", i)})
		if i%200 == 199 {
			c.Msgs = append(c.Msgs, fmsg{Op: "COMMIT"}, fmsg{Op: "BEGIN"})
		}
	}
	for _, r := range []string{"public.secrets", "public.a", "public.events_p9999", "tenant_0003.orders", "public.secrets"} {
		c.Msgs = append(c.Msgs, fmsg{Op: []string{"INSERT", "UPDATE", "DELETE"}[rng.Intn(3)], Rel: r})
	}
	c.Msgs = append(c.Msgs, fmsg{Op: "COMMIT"})
	if c.Regex {
		c.Tablelist = []string{`^public\.events_`, `^public\.secrets$`}
	} else {
		c.Tablelist = []string{"public.secrets", "public.passwords"}
	}
	c.Mode += map[bool]string{true: "-whitelist", false: "-blacklist"}[c.Whitelist] + map[bool]string{true: "-regex", false: ""}[c.Regex]
	return c
}

func genFilterCase(rng *rand.Rand, adversarial bool) fcase {
	if !adversarial && rng.Intn(4) == 0 {
		return genDecodedCase(rng)
	}
	c := fcase{Whitelist: rng.Intn(2) == 0, Regex: rng.Intn(2) == 0, Msgs: genStream(rng)}
	n := rng.Intn(4)
	if rng.Intn(8) == 0 {
		n = 0
	}
	for i := 0; i < n; i++ {
		switch {
		case c.Regex && adversarial && rng.Intn(3) == 0:
			c.Tablelist = append(c.Tablelist, pick(rng, rxBad))
		case c.Regex:
			c.Tablelist = append(c.Tablelist, pick(rng, rxPool))
		case rng.Intn(4) == 0:
			c.Tablelist = append(c.Tablelist, pick(rng, plainExtra))
		default:
			c.Tablelist = append(c.Tablelist, pick(rng, relPool))
		}
	}
	if adversarial && !c.Regex {
		// regexp-looking and non-compiling items in a plain list: compiled by New, never used
		c.Tablelist = append(c.Tablelist, pick(rng, rxBad), pick(rng, rxPool))
	}
	c.Mode = map[bool]string{true: "whitelist", false: "blacklist"}[c.Whitelist] + map[bool]string{true: "-regex", false: ""}[c.Regex]
	if adversarial {
		c.Mode += "+adversarial"
	}
	return c
}

func loadCorpus(dir, comp string, into func(name string, b []byte)) {
	files, _ := filepath.Glob(filepath.Join(dir, comp, "*.json"))
	sort.Strings(files)
	for _, f := range files {
		if b, err := os.ReadFile(f); err == nil {
			// a corpus file is a bare case or a replay file {"component":..,"case":{..}}
			var wrap struct {
				Case json.RawMessage `json:"case"`
			}
			if json.Unmarshal(b, &wrap) == nil && len(wrap.Case) > 0 {
				b = wrap.Case
			}
			into(strings.TrimSuffix(filepath.Base(f), ".json"), b)
		}
	}
}

func init() {
	core.Register(core.Component{Name: "FILTER", Replay: replayFilter, Run: func(rng *rand.Rand, n int, corpusDir string, rep *core.Report) string {
		var cases []fcase
		loadCorpus(corpusDir, "FILTER", func(name string, b []byte) {
			var c fcase
			if json.Unmarshal(b, &c) == nil {
				c.Mode = "corpus:" + name
				cases = append(cases, c)
			}
		})
		for i := 0; i < n; i++ {
			cases = append(cases, genFilterCase(rng, rng.Intn(5) == 0))
			if i%150 == 149 { // drawn in between, two per 300
				cases = append(cases, genManyRelations(rng))
			}
		}
		rep.Rule = "corpus first, then seeded: 80% well-formed configurations (whitelist/blacklist x plain/regex, 0-3 items from pools of schema-qualified, quoted, multi-table TRUNCATE, empty, non-ASCII relations and near-misses; regexps anchored/unanchored/case-insensitive, the empty and the blank pattern; empty and blank entries in plain lists), 20% adversarial (regexps that do not compile -> nil *Regexp, regexp-looking items in plain lists). Streams: 1-4 transactions, 0-5 changes each, 10% lost COMMIT; one case per 150 is a long stream in which 1030-1400 distinct relations pass before the listed ones arrive. Non-trivial: not pass-through and at least one change forwarded and one dropped (or a panic); distinct by (config, stream)."
		var sb strings.Builder
		sb.WriteString("From Bifrost.model Require Import Base Filter.\nOpen Scope string_scope.\nDefinition cases : list fcase := [\n")
		seen := map[string]bool{}
		for i, c := range cases {
			o := runFilterImpl(c)
			if i > 0 {
				sb.WriteString(";\n")
			}
			sb.WriteString(filterCaseGallina(c, o))
			rep.CaseIndex = append(rep.CaseIndex, core.RawJSON(c))
			rep.Evaluations++
			core.Bump(rep, "mode:"+strings.SplitN(c.Mode, ":", 2)[0])
			core.Bump(rep, fmt.Sprintf("items:%d", len(c.Tablelist)))
			changes, fwdChanges := 0, 0
			for _, m := range c.Msgs {
				if !isMarker(m.Op) {
					changes++
				}
			}
			for _, ix := range o.Forwarded {
				if !isMarker(c.Msgs[ix].Op) {
					fwdChanges++
				}
			}
			passthrough := !c.Whitelist && len(c.Tablelist) == 0
			switch {
			case o.Panicked:
				core.Bump(rep, "branch:panic-nil-regexp")
			case passthrough:
				core.Bump(rep, "branch:passthrough")
			case fwdChanges == 0:
				core.Bump(rep, "branch:all-changes-dropped")
			case fwdChanges == changes:
				core.Bump(rep, "branch:all-changes-forwarded")
			default:
				core.Bump(rep, "branch:some-dropped-some-forwarded")
			}
			key := fmt.Sprint(c.Whitelist, c.Regex, c.Tablelist, c.Msgs)
			if !seen[key] && (o.Panicked || (!passthrough && fwdChanges > 0 && fwdChanges < changes)) {
				rep.Nontrivial++
			}
			seen[key] = true
			if len(rep.Samples) < 3 && fwdChanges > 0 && fwdChanges < changes {
				rep.Samples = append(rep.Samples, map[string]interface{}{"case": c, "forwarded": o.Forwarded})
			}
			vs, inDomain := filterMonitor(c, o)
			if !inDomain {
				core.Bump(rep, "monitor:outside-domain(regexp does not compile)")
			}
			rep.Violations = append(rep.Violations, vs...)
		}
		sb.WriteString("\n].\nDefinition M := Eval vm_compute in mismatches fcase_ok cases.\nPrint M.\n")
		return sb.String()
	}})
}

func replayFilter(cs json.RawMessage) string {
	var c fcase
	if err := json.Unmarshal(cs, &c); err != nil {
		return "bad case: " + err.Error()
	}
	o := runFilterImpl(c)
	var sb strings.Builder
	fmt.Fprintf(&sb, "filter.New(whitelist=%v, regex=%v, tablelist=%q)\n", c.Whitelist, c.Regex, c.Tablelist)
	fw := map[int]bool{}
	for _, ix := range o.Forwarded {
		fw[ix] = true
	}
	for i, m := range c.Msgs {
		fmt.Fprintf(&sb, "  %2d %-8s %-40q forwarded=%v\n", i, m.Op, m.Rel, fw[i])
	}
	fmt.Fprintf(&sb, "panicked=%v\n", o.Panicked)
	vs, inDomain := filterMonitor(c, o)
	if !inDomain {
		sb.WriteString("MONITOR: outside the domain (a regexp does not compile)\n")
	}
	for _, v := range vs {
		fmt.Fprintf(&sb, "MONITOR %s [%s]: %s\n", v.Property, v.Signature, v.What)
	}
	return sb.String()
}
