//go:build verif

package filter

// Component CLI: C08 "from command line to output".  The REAL pg-bifrost binary is built from
// /repo/main and run with the filter flags on its command line (or in its environment) against
// verifharness/fakepg, with the stdout transport (batch size 1: a record is printed as soon as it
// reaches the transporter).  Observable: did the binary refuse the flags; otherwise which row
// changes of the scripted stream it printed, in order (identified by their LSN).
// A run is complete when the fake server has received a standby status update acknowledging the
// last COMMIT of the script: by then every record has been printed (the ledger releases a
// position only after the transporter reported the batch written).

import (
	"bufio"
	"bytes"
	"encoding/json"
	"fmt"
	"math/rand"
	"os"
	"os/exec"
	"path/filepath"
	"regexp"
	"strconv"
	"strings"
	"sync"
	"time"

	"verifharness/core"
	"verifharness/fakepg"
)

type cliTxn struct {
	Xid     string `json:"xid"`
	Changes []fmsg `json:"changes"`
}

type clicase struct {
	Mode   string   `json:"mode"`
	Via    string   `json:"via"` // "args" (default) or "env"
	WL     []string `json:"whitelist"`
	BL     []string `json:"blacklist"`
	WLR    []string `json:"whitelist_regex"`
	BLR    []string `json:"blacklist_regex"`
	Stream []cliTxn `json:"stream"`
}

type cliobs struct {
	Refused bool     // the binary exited by itself with an error before connecting
	Printed []int    // stream indices of the printed records, in print order
	Tables  []string // their "table" fields
	Acked   bool     // the last COMMIT was acknowledged to the server
	Err     string   // infrastructure problem (not a property failure)
	Cmdline string
	Log     string   // tail of the binary's own log, for replay output
	Lines   []string // the record lines as printed (replay output)
}

const cliBaseLSN = uint64(0x2_016B3748)

func lsnOf(i int) uint64 { return cliBaseLSN + uint64(0x28*(i+1)) }

// flatten: the stream as the filter sees it (BEGIN, changes, COMMIT per transaction).
func (c clicase) flatten() []fmsg {
	var ms []fmsg
	for _, t := range c.Stream {
		ms = append(ms, fmsg{Op: "BEGIN"})
		ms = append(ms, t.Changes...)
		ms = append(ms, fmsg{Op: "COMMIT"})
	}
	return ms
}

func (c clicase) script() (fakepg.Script, uint64) {
	sc := fakepg.Script{StartLSN: cliBaseLSN, KeepaliveEvery: 5}
	i := 0
	var last uint64
	for _, t := range c.Stream {
		tx := fakepg.Txn{Xid: t.Xid, BeginLSN: lsnOf(i)}
		i++
		for _, ch := range t.Changes {
			text := fmt.Sprintf("table %s: %s: id[integer]:%d data[text]:'row %d'", ch.Rel, ch.Op, i, i)
			if ch.Op == "TRUNCATE" {
				text = fmt.Sprintf("table %s: TRUNCATE: (no-flags)", ch.Rel)
			}
			tx.Changes = append(tx.Changes, fakepg.Change{LSN: lsnOf(i), Text: text})
			i++
		}
		tx.CommitLSN = lsnOf(i)
		last = tx.CommitLSN
		i++
		sc.Txns = append(sc.Txns, tx)
	}
	return sc, last
}

func (c clicase) cmdline(port int) (args []string, env []string) {
	args = []string{"--host", "127.0.0.1", "--port", strconv.Itoa(port), "--user", "replication",
		"--password", "secret", "--dbname", "postgres", "--slot", "verif_slot", "replicate"}
	env = []string{"PATH=" + os.Getenv("PATH"), "HOME=" + os.TempDir(), "PGSSLMODE=disable"}
	for _, f := range []struct {
		flag, env string
		vals      []string
	}{{"--whitelist", "WHITELIST", c.WL}, {"--blacklist", "BLACKLIST", c.BL},
		{"--whitelist-regex", "WHITELIST_REGEX", c.WLR}, {"--blacklist-regex", "BLACKLIST_REGEX", c.BLR}} {
		if len(f.vals) == 0 {
			continue
		}
		if c.Via == "env" {
			env = append(env, f.env+"="+strings.Join(f.vals, ","))
			continue
		}
		for _, v := range f.vals {
			args = append(args, f.flag, v)
		}
	}
	args = append(args, "--workers", "1", "stdout")
	return
}

var recordLine = regexp.MustCompile(`^\d+: (\{.*\})$`)

// buildBinary builds /repo/main once per process into a fresh temp dir.
var (
	binOnce sync.Once
	binPath string
	binErr  error
)

func repoDir() string {
	if d := os.Getenv("VERIF_REPO"); d != "" {
		return d
	}
	return "/repo"
}

func buildBinary() (string, error) {
	binOnce.Do(func() {
		dir, err := os.MkdirTemp("", "verif-cli-")
		if err != nil {
			binErr = err
			return
		}
		binPath = filepath.Join(dir, "pg-bifrost")
		cmd := exec.Command("go", "build", "-o", binPath, "./main")
		cmd.Dir = repoDir()
		cmd.Env = append(os.Environ(), "GOFLAGS=-mod=readonly", "GOPROXY=off", "GOSUMDB=off", "GOTOOLCHAIN=local", "CGO_ENABLED=0")
		if out, err := cmd.CombinedOutput(); err != nil {
			binErr = fmt.Errorf("go build %s/main: %v\n%s", repoDir(), err, out)
		}
	})
	return binPath, binErr
}

func cleanupBinary() {
	if binPath != "" {
		os.RemoveAll(filepath.Dir(binPath))
	}
}

func runCliImpl(c clicase) cliobs {
	var o cliobs
	bin, err := buildBinary()
	if err != nil {
		o.Err = err.Error()
		return o
	}
	script, lastCommit := c.script()
	srv, err := fakepg.Start(script)
	if err != nil {
		o.Err = "fakepg: " + err.Error()
		return o
	}
	defer srv.Close()
	args, env := c.cmdline(srv.Port)
	o.Cmdline = "pg-bifrost " + strings.Replace(strings.Join(args, " "), "--port "+strconv.Itoa(srv.Port), "--port <fakepg>", 1)
	if c.Via == "env" {
		o.Cmdline = strings.Join(env[3:], " ") + " " + o.Cmdline
	}
	work, err := os.MkdirTemp("", "verif-cli-run-")
	if err != nil {
		o.Err = err.Error()
		return o
	}
	defer os.RemoveAll(work)
	cmd := exec.Command(bin, args...)
	cmd.Dir, cmd.Env = work, env
	stdout, _ := cmd.StdoutPipe()
	var stderr bytes.Buffer
	cmd.Stderr = &stderr
	if err := cmd.Start(); err != nil {
		o.Err = "start: " + err.Error()
		return o
	}
	byLSN := map[string]int{}
	for i := range c.flatten() {
		byLSN[fakepg.LSNString(lsnOf(i))] = i
	}
	var logTail []string
	readerDone := make(chan struct{})
	go func() {
		defer close(readerDone)
		sc := bufio.NewScanner(stdout)
		sc.Buffer(make([]byte, 1<<20), 1<<24)
		for sc.Scan() {
			line := sc.Text()
			m := recordLine.FindStringSubmatch(line)
			if m == nil {
				if logTail = append(logTail, line); len(logTail) > 12 {
					logTail = logTail[1:]
				}
				continue
			}
			var rec struct {
				Lsn   string `json:"lsn"`
				Table string `json:"table"`
			}
			if json.Unmarshal([]byte(m[1]), &rec) != nil {
				o.Err = "unparsable record: " + line
				continue
			}
			ix, ok := byLSN[rec.Lsn]
			if !ok {
				o.Err = "record with an LSN that was never sent: " + line
				continue
			}
			o.Printed = append(o.Printed, ix)
			o.Tables = append(o.Tables, rec.Table)
			o.Lines = append(o.Lines, line)
		}
	}()
	exited := make(chan error, 1)
	go func() { <-readerDone; exited <- cmd.Wait() }()
	acked := make(chan bool, 1)
	go func() { acked <- srv.WaitAck(lastCommit, 25*time.Second) }()
	select {
	case err := <-exited: // the binary stopped by itself
		if err != nil && srv.Connections() == 0 {
			o.Refused = true
		} else {
			o.Err = fmt.Sprintf("binary exited by itself (%v) after %d connections", err, srv.Connections())
		}
	case ok := <-acked:
		o.Acked = ok
		if !ok {
			// no acknowledgement: let the output settle, keep what was printed, and say so
			time.Sleep(500 * time.Millisecond)
		}
		cmd.Process.Kill()
		<-exited
	}
	o.Log = strings.Join(logTail, "\n") + "\n" + tail(stderr.String(), 600)
	return o
}

func tail(s string, n int) string {
	if len(s) > n {
		return s[len(s)-n:]
	}
	return s
}

// ---- monitor: the property stated on the command line's own terms ----

func (c clicase) lists() [][]string { return [][]string{c.WL, c.BL, c.WLR, c.BLR} }

func (c clicase) given() (n int, kind int) {
	kind = -1
	for k, l := range c.lists() {
		if len(l) > 0 {
			n++
			kind = k
		}
	}
	return
}

func cliMonitor(c clicase, o cliobs) []core.Violation {
	v := func(sig, what string) []core.Violation {
		return []core.Violation{{Property: "C08", Signature: sig, What: what + "  [" + o.Cmdline + "]", Case: c}}
	}
	if o.Err != "" {
		return nil // infrastructure, reported separately
	}
	n, kind := c.given()
	if n >= 2 {
		if !o.Refused {
			return v("cli-filter-flag-chain/exclusive-flags-accepted",
				fmt.Sprintf("%d of the mutually exclusive filter flags were given and the binary accepted them (it printed tables %q)", n, o.Tables))
		}
		return nil
	}
	if o.Refused {
		return v("cli-single-flag-refused", "the binary refused a single filter flag")
	}
	ms := c.flatten()
	var want, all []int
	for i, m := range ms {
		if isMarker(m.Op) {
			continue
		}
		all = append(all, i)
		ok := true
		switch kind {
		case 0:
			ok = permittedGo(true, false, c.WL, m.Rel)
		case 1:
			ok = permittedGo(false, false, c.BL, m.Rel)
		case 2:
			ok = permittedGo(true, true, c.WLR, m.Rel)
		case 3:
			ok = permittedGo(false, true, c.BLR, m.Rel)
		}
		if ok {
			want = append(want, i)
		}
	}
	if fmt.Sprint(want) == fmt.Sprint(o.Printed) {
		return nil
	}
	tables := func(ix []int) []string {
		out := []string{}
		for _, i := range ix {
			out = append(out, ms[i].Rel)
		}
		return out
	}
	if kind >= 2 && fmt.Sprint(all) == fmt.Sprint(o.Printed) {
		return v("cli-filter-flag-chain/regex-flag-not-applied",
			fmt.Sprintf("%s %q had no effect: every table was printed %q, permitted are only %q",
				[]string{"", "", "--whitelist-regex", "--blacklist-regex"}[kind], c.lists()[kind], o.Tables, tables(want)))
	}
	return v("cli-output-mismatch", fmt.Sprintf("printed tables %q, permitted are %q", o.Tables, tables(want)))
}

// ---- cases ----

// the 12-table stream of the 16 directed flag patterns
func stream12() []cliTxn {
	return []cliTxn{
		{Xid: "501", Changes: []fmsg{{"INSERT", "public.a"}, {"INSERT", "public.b"}, {"UPDATE", "public.ab"}}},
		{Xid: "502", Changes: []fmsg{{"INSERT", "public.customers"}, {"DELETE", "s2.a"}, {"UPDATE", `public."Quoted.Name"`}, {"INSERT", `"My Schema"."t,1"`}}},
		{Xid: "503", Changes: nil},
		{Xid: "504", Changes: []fmsg{{"TRUNCATE", "public.a, public.b"}, {"INSERT", "public.A"}, {"INSERT", "s2.orders"}, {"UPDATE", "public.a"}, {"INSERT", "public.z_last"}}},
	}
}

var dirLists = [4][]string{
	{"public.a", `public."Quoted.Name"`, "public.a, public.b"}, // --whitelist
	{"public.b", "s2.a", "public.z_last"},                      // --blacklist
	{`^public\.a`, `(?i)quoted`},                               // --whitelist-regex
	{`^s2\.`, `customers$`, `,`},                               // --blacklist-regex
}

func directedCliCases() []clicase {
	var out []clicase
	for p := 0; p < 16; p++ {
		c := clicase{Mode: fmt.Sprintf("pattern:%04b", p), Stream: stream12()}
		if p&8 != 0 {
			c.WL = dirLists[0]
		}
		if p&4 != 0 {
			c.BL = dirLists[1]
		}
		if p&2 != 0 {
			c.WLR = dirLists[2]
		}
		if p&1 != 0 {
			c.BLR = dirLists[3]
		}
		out = append(out, c)
	}
	return out
}

var cliRelPool = []string{"public.a", "public.b", "public.ab", "public.customers", "s2.a", "public.A",
	`public."Quoted.Name"`, `"My Schema"."t,1"`, "public.a, public.b", "public.b, s2.a", "public.z"}
var cliRxPool = []string{`^public\.a$`, `public\.a`, `^public\.`, `a`, `^s2\.`, `customers$`, `(?i)quoted`, `^public\.(a|b)$`, `\.b`, `[[:upper:]]`}

func genCliCase(rng *rand.Rand) clicase {
	c := clicase{Mode: "random"}
	for t, nt := 0, 1+rng.Intn(3); t < nt; t++ {
		tx := cliTxn{Xid: strconv.Itoa(600 + t)}
		for k := rng.Intn(5); k > 0; k-- {
			rel := pick(rng, cliRelPool)
			op := []string{"INSERT", "UPDATE", "DELETE"}[rng.Intn(3)]
			if strings.Contains(rel, ", ") {
				op = "TRUNCATE"
			}
			tx.Changes = append(tx.Changes, fmsg{op, rel})
		}
		c.Stream = append(c.Stream, tx)
	}
	if rng.Intn(3) == 0 {
		c.Via = "env"
	}
	some := func(pool []string) []string {
		var l []string
		for k := 1 + rng.Intn(3); k > 0; k-- {
			it := pick(rng, pool)
			if c.Via == "env" && strings.Contains(it, ",") {
				continue // a comma separates list items in the environment form
			}
			l = append(l, it)
		}
		return l
	}
	// mostly a single flag (the domain of C08_cli); sometimes a combination
	pat := 1 << rng.Intn(4)
	if rng.Intn(4) == 0 {
		pat = rng.Intn(16)
	}
	if pat&8 != 0 {
		c.WL = some(cliRelPool)
	}
	if pat&4 != 0 {
		c.BL = some(cliRelPool)
	}
	if pat&2 != 0 {
		c.WLR = some(cliRxPool)
	}
	if pat&1 != 0 {
		c.BLR = some(cliRxPool)
	}
	n, _ := c.given()
	c.Mode = fmt.Sprintf("random:%d-flags", n)
	if c.Via == "env" {
		c.Mode += ":env"
	}
	return c
}

func cliCaseGallina(c clicase, o cliobs) string {
	ms := c.flatten()
	var items []string
	for _, l := range c.lists() {
		items = append(items, l...)
	}
	_, pairs := matrix(items, rels(ms))
	flags := core.GTuple(core.GStrList(c.WL), core.GStrList(c.BL), core.GStrList(c.WLR), core.GStrList(c.BLR))
	obs := "None"
	if !o.Refused {
		obs = "(Some " + gIdx(o.Printed) + ")"
	}
	return core.GTuple(flags, gPairs(pairs), gMsgs(ms), obs)
}

func init() {
	core.Register(core.Component{Name: "CLI", Replay: replayCli, Run: func(rng *rand.Rand, n int, corpusDir string, rep *core.Report) string {
		defer cleanupBinary()
		var cases []clicase
		loadCorpus(corpusDir, "CLI", func(name string, b []byte) {
			var c clicase
			if json.Unmarshal(b, &c) == nil {
				c.Mode = "corpus:" + name
				cases = append(cases, c)
			}
		})
		cases = append(cases, directedCliCases()...)
		for i := 0; i < n; i++ {
			cases = append(cases, genCliCase(rng))
		}
		rep.Rule = "corpus first (F4 witnesses), then the 16 emptiness patterns of --whitelist/--blacklist/--whitelist-regex/--blacklist-regex over a 12-table stream (4 transactions, quoted, comma-containing, multi-table TRUNCATE relations, one empty transaction), then n seeded cases: 75% a single flag, 25% any pattern, 1-3 items, 1-3 transactions, one third given through the environment. Each case = one run of the real binary against fakepg. Non-trivial: the binary streamed and at least one change was dropped and one printed, or the flags were refused; distinct by (flags, stream)."
		if _, err := buildBinary(); err != nil {
			fmt.Fprintln(os.Stderr, "CLI: cannot build the pg-bifrost binary:", err)
			os.Exit(2)
		}
		obs := make([]cliobs, len(cases))
		sem := make(chan struct{}, 32)
		var wg sync.WaitGroup
		for i := range cases {
			wg.Add(1)
			sem <- struct{}{}
			go func(i int) {
				defer wg.Done()
				obs[i] = runCliImpl(cases[i])
				<-sem
			}(i)
		}
		wg.Wait()
		var sb strings.Builder
		sb.WriteString("From Bifrost.model Require Import Base Filter.\nOpen Scope string_scope.\nDefinition cases : list clicase := [\n")
		seen := map[string]bool{}
		for i, c := range cases {
			o := obs[i]
			if o.Err != "" {
				fmt.Fprintf(os.Stderr, "CLI: infrastructure failure on case %d (%s): %s\n%s\n", i, o.Cmdline, o.Err, o.Log)
				os.Exit(2)
			}
			if i > 0 {
				sb.WriteString(";\n")
			}
			sb.WriteString(cliCaseGallina(c, o))
			rep.CaseIndex = append(rep.CaseIndex, core.RawJSON(c))
			rep.Evaluations++
			core.Bump(rep, "mode:"+strings.SplitN(c.Mode, ":", 2)[0])
			ng, _ := c.given()
			core.Bump(rep, fmt.Sprintf("flags-given:%d", ng))
			changes := 0
			for _, m := range c.flatten() {
				if !isMarker(m.Op) {
					changes++
				}
			}
			switch {
			case o.Refused:
				core.Bump(rep, "outcome:refused")
			case !o.Acked:
				core.Bump(rep, "outcome:streamed-without-final-ack")
				rep.Notes = append(rep.Notes, fmt.Sprintf("case %d: the last COMMIT was not acknowledged within 25 s; the records printed until then were used", i))
			case len(o.Printed) == changes:
				core.Bump(rep, "outcome:all-printed")
			case len(o.Printed) == 0:
				core.Bump(rep, "outcome:none-printed")
			default:
				core.Bump(rep, "outcome:some-printed")
			}
			key := fmt.Sprint(c.lists(), c.Stream)
			if !seen[key] && (o.Refused || (len(o.Printed) > 0 && len(o.Printed) < changes)) {
				rep.Nontrivial++
			}
			seen[key] = true
			if len(rep.Samples) < 3 && len(o.Printed) > 0 && len(o.Printed) < changes {
				rep.Samples = append(rep.Samples, map[string]interface{}{"cmdline": o.Cmdline, "printed_tables": o.Tables})
			}
			rep.Violations = append(rep.Violations, cliMonitor(c, o)...)
		}
		sb.WriteString("\n].\nDefinition M := Eval vm_compute in mismatches clicase_ok cases.\nPrint M.\n")
		return sb.String()
	}})
}

func replayCli(cs json.RawMessage) string {
	defer cleanupBinary()
	var c clicase
	if err := json.Unmarshal(cs, &c); err != nil {
		return "bad case: " + err.Error()
	}
	o := runCliImpl(c)
	var sb strings.Builder
	fmt.Fprintf(&sb, "$ %s      (against fakepg; stream below)\n", o.Cmdline)
	pr := map[int]bool{}
	for _, ix := range o.Printed {
		pr[ix] = true
	}
	for i, m := range c.flatten() {
		if isMarker(m.Op) {
			fmt.Fprintf(&sb, "  %2d %s %s\n", i, fakepg.LSNString(lsnOf(i)), m.Op)
		} else {
			fmt.Fprintf(&sb, "  %2d %s %-8s %-36q printed=%v\n", i, fakepg.LSNString(lsnOf(i)), m.Op, m.Rel, pr[i])
		}
	}
	sb.WriteString("stdout records of the binary:\n")
	for _, l := range o.Lines {
		fmt.Fprintf(&sb, "  %s\n", l)
	}
	fmt.Fprintf(&sb, "refused=%v acked_last_commit=%v printed tables in order: %q\n", o.Refused, o.Acked, o.Tables)
	if o.Err != "" {
		fmt.Fprintf(&sb, "INFRASTRUCTURE: %s\n", o.Err)
	}
	if o.Refused || o.Err != "" {
		fmt.Fprintf(&sb, "binary log tail:\n%s\n", o.Log)
	}
	for _, v := range cliMonitor(c, o) {
		fmt.Fprintf(&sb, "MONITOR %s [%s]: %s\n", v.Property, v.Signature, v.What)
	}
	return sb.String()
}
