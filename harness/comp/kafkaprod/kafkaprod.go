//go:build verif

// Package kafkaprod — KAFKAPROD component (properties C14, C15, C17): the PRODUCTION construction
// path of the Kafka sink, end to end inside one process.  Monitor only: no Coq-side case file.
//
//	transportConfig (every flag of the `kafka` subcommand with the Go type main.go's getFlagValue
//	                 yields, plus workers / partition-method / batcher-routing-method)
//	  -> kafka.NewBatchFactory(transportConfig)                 real KafkaBatch via the factory
//	  -> kafka.New(shutdownHandler, txnsWritten, statsChan, workers, inputChans, transportConfig)
//	                                                            real sarama SyncProducers built by
//	                                                            the repo's producerConfig, real
//	                                                            KafkaTransporters
//	  -> sarama.MockBroker (in-process TCP broker of sarama v1.38.1): MockMetadataResponse,
//	     MockApiVersionsResponse, and for ProduceRequests a MockSequence of MockProduceResponses
//	     (NoError / a scripted KError for all or one partition).
//
// Ground truth.  Everything the broker received is taken from MockBroker.History(): each decoded
// ProduceRequest (its unexported `records` field is read through reflect/unsafe: topic, partition,
// key bytes, value bytes per record) together with the ProduceResponse the broker answered for it.
// A message is ACKED when it was in a request whose response block for its partition is NoError.
// The broker appends to its history before it writes the response, so at the moment the harness
// reads a written report from txnsWritten every answer the producer can have seen is in the
// history: the history length is noted with each report and only entries below it count.
//
// Scripts.  mode "serial": batches are handed over one at a time and the answer script of the
// batch is installed (MockBroker.SetHandlerByMap) before it is handed over — deterministic.  mode
// "queued": every batch sits in its worker's input channel before anything is awaited and ONE
// script by arrival order of the ProduceRequests is installed — the workers run concurrently, the
// request that is hit depends on the interleaving, the monitor judges what was observed.
//
// C17 part (kind "unbuildable"): configurations whose producer cannot be built as configured.  A
// negative flush frequency / flush bytes makes sarama.NewSyncProducer fail; kafka.New drops the
// error and hands a nil producer to the worker, whose first batch panics out of StartTransporting
// (shutdown() panics again on the nil producer's Close): the process dies — accepted.  With nothing
// listening on the bootstrap address the producer is still built (Metadata.Full=false: nobody is
// contacted) and the first send fails: termination — accepted.  FINDING (kept as a violation,
// corpus/KAFKAPROD/07_tls_certificate_files_missing.json): with kafka-tls and certificate files
// that cannot be read, producerConfig returns (nil, err); kafka.New drops err and passes the nil
// config on; sarama.NewSyncProducer(addrs, nil) then builds a producer with sarama's DEFAULT
// configuration: plaintext, no compression, MaxMessageBytes 1000000 whatever was configured —
// batches are sent unencrypted and reported written.
//
// Nothing is ended by silence: a case waits for the written reports, the termination signal, the
// return of a worker, or the bound (10 s).  Kafka's shutdown sleep (3 s) is set to 0 through
// transporter.VerifSetShutdownDelay.
package kafkaprod

import (
	"bytes"
	"encoding/json"
	"fmt"
	"io"
	"math/rand"
	"net"
	"os"
	"path/filepath"
	"reflect"
	"sort"
	"strconv"
	"strings"
	"sync"
	"time"
	"unsafe"

	"verifharness/core"

	appconfig "github.com/Nextdoor/pg-bifrost.git/app/config"
	"github.com/Nextdoor/pg-bifrost.git/marshaller"
	"github.com/Nextdoor/pg-bifrost.git/partitioner"
	"github.com/Nextdoor/pg-bifrost.git/shutdown"
	"github.com/Nextdoor/pg-bifrost.git/stats"
	"github.com/Nextdoor/pg-bifrost.git/transport"
	"github.com/Nextdoor/pg-bifrost.git/transport/batcher"
	"github.com/Nextdoor/pg-bifrost.git/transport/progress"
	kafkafac "github.com/Nextdoor/pg-bifrost.git/transport/transporters/kafka"
	ftrans "github.com/Nextdoor/pg-bifrost.git/transport/transporters/kafka/transporter"
	kutils "github.com/Nextdoor/pg-bifrost.git/transport/transporters/kafka/utils"
	"github.com/Shopify/sarama"
	"github.com/cevaris/ordered_map"
)

const (
	caseBound   = 10 * time.Second // start of the case -> an outcome of every batch handed over
	returnBound = 5 * time.Second  // termination -> every StartTransporting has returned
	topic       = "verif.bifrost"
	produceVer  = 3 // ProduceRequest version of sarama 1.38.1 for >= V0_11 without zstd (produce_set.go)
	placeholder = "Placeholder message to verify broker communication"
	bigRow      = 1100000
)

var limits = []int{300, 1000, 4096, 1000000, 1048588, 1048589, 2000000, 4000000}

var methods = func() []string {
	var m []string
	for k := range kutils.NameToPartitionMethod {
		m = append(m, k)
	}
	sort.Strings(m)
	return m
}()

// scripted broker errors.  Which of them sarama retries is sarama's business (async_producer.go):
// the monitor does not use that classification, only the generator's labels do.
var kerrs = map[string]sarama.KError{
	"not-leader":           sarama.ErrNotLeaderForPartition,
	"request-timed-out":    sarama.ErrRequestTimedOut,
	"not-enough-replicas":  sarama.ErrNotEnoughReplicas,
	"message-too-large":    sarama.ErrMessageSizeTooLarge,
	"topic-not-authorized": sarama.ErrTopicAuthorizationFailed,
}
var retriableNames = []string{"not-leader", "request-timed-out", "not-enough-replicas"}
var fatalNames = []string{"message-too-large", "topic-not-authorized"}

var whys = []string{"flush-frequency-negative", "flush-bytes-negative", "unreachable", "tls-files-missing"}

// ---- case format ----

// Row: one record.  Size is the wanted PRODUCED size (sarama's ProducerMessage.ByteSize(2) =
// 36 + |key| + |json|); the JSON is padded to reach it and is never shorter than the bare record.
type Row struct {
	Size int `json:"size"`
	Txn  int `json:"txn,omitempty"` // 0..2: transaction of the row inside its batch
	Tab  int `json:"tab,omitempty"` // 0..2: table public.t<Tab>
}

// Answer: how the broker answers ProduceRequests, by arrival order from the moment it is installed.
type Answer struct {
	Skip int    `json:"skip,omitempty"` // this many are answered NoError first
	Fail int    `json:"fail"`           // then this many get Err (-1: every one from then on), then NoError
	Err  string `json:"err"`            // key of kerrs
	Part int    `json:"part"`           // -1: every partition of the request; p: partition p only, the others NoError
}

type Batch struct {
	Rows   []Row   `json:"rows"`
	Answer *Answer `json:"answer,omitempty"` // serial mode: installed before this batch is handed over
}

type Case struct {
	Name       string  `json:"name,omitempty"`
	Kind       string  `json:"kind"`          // produce | unbuildable
	Why        string  `json:"why,omitempty"` // unbuildable: what is wrong with the configuration
	Limit      int     `json:"limit"`         // kafka-max-message-bytes
	Method     string  `json:"method"`        // kafka-partition-method
	Workers    int     `json:"workers"`
	Partitions int     `json:"partitions"` // partitions of the topic at the mock broker
	BatchSize  int     `json:"batch_size"` // kafka-batch-size
	FlushMs    int     `json:"flush_ms"`   // kafka-flush-frequency
	FlushBytes int     `json:"flush_bytes"`
	RetryMax   int     `json:"retry_max"`        // kafka-flush-retry-max (sarama Metadata.Retry.Max)
	Verify     bool    `json:"verify,omitempty"` // kafka-verify-producer
	Mode       string  `json:"mode"`             // serial | queued
	Batches    []Batch `json:"batches"`          // batch i goes to worker i mod workers
	Answer     *Answer `json:"answer,omitempty"` // queued mode: installed before the batches are queued
}

func clamp(v, lo, hi int) int {
	if v < lo {
		return lo
	}
	if v > hi {
		return hi
	}
	return v
}

func oneOf(s string, opts ...string) string {
	for _, o := range opts {
		if s == o {
			return s
		}
	}
	return opts[0]
}

func normAnswer(a *Answer, parts int) *Answer {
	if a == nil || a.Fail == 0 {
		return nil
	}
	b := *a
	if _, ok := kerrs[b.Err]; !ok {
		b.Err = "not-leader"
	}
	b.Skip = clamp(b.Skip, 0, 12)
	b.Fail = clamp(b.Fail, -1, 3)
	b.Part = clamp(b.Part, -1, parts-1)
	return &b
}

// normalize makes any JSON a runnable case (corpus files and replays go through it too).
func normalize(c *Case) {
	c.Kind = oneOf(c.Kind, "produce", "unbuildable")
	if c.Kind == "unbuildable" {
		c.Why = oneOf(c.Why, whys...)
	} else {
		c.Why = ""
	}
	c.Limit = clamp(c.Limit, 100, 8000000)
	c.Method = oneOf(c.Method, append([]string{"random"}, methods...)...)
	c.Workers = clamp(c.Workers, 1, 3)
	c.Partitions = clamp(c.Partitions, 1, 3)
	c.BatchSize = clamp(c.BatchSize, 5, 100000)
	c.FlushMs = clamp(c.FlushMs, 1, 50)
	c.FlushBytes = clamp(c.FlushBytes, 0, 1<<20)
	c.RetryMax = clamp(c.RetryMax, 0, 3)
	c.Mode = oneOf(c.Mode, "serial", "queued")
	if len(c.Batches) == 0 {
		c.Batches = []Batch{{Rows: []Row{{Size: 120}}}}
	}
	if len(c.Batches) > 8 {
		c.Batches = c.Batches[:8]
	}
	for i := range c.Batches {
		b := &c.Batches[i]
		if len(b.Rows) == 0 {
			b.Rows = []Row{{Size: 120}}
		}
		if len(b.Rows) > 5 {
			b.Rows = b.Rows[:5]
		}
		for j := range b.Rows {
			b.Rows[j].Size = clamp(b.Rows[j].Size, 0, 8000100)
			b.Rows[j].Txn = clamp(b.Rows[j].Txn, 0, 2)
			b.Rows[j].Tab = clamp(b.Rows[j].Tab, 0, 2)
		}
		if c.Mode == "serial" && c.Kind == "produce" {
			b.Answer = normAnswer(b.Answer, c.Partitions)
		} else {
			b.Answer = nil
		}
	}
	if c.Mode == "queued" && c.Kind == "produce" {
		c.Answer = normAnswer(c.Answer, c.Partitions)
	} else {
		c.Answer = nil
	}
	if c.Kind == "unbuildable" {
		c.Mode = "queued"
	}
}

// ---- records ----

func txnOf(b int, r Row) string { return strconv.Itoa(1000 + 10*b + r.Txn) }
func tbkOf(b int, r Row) string { return txnOf(b, r) + "-1" }
func tableOf(r Row) string      { return fmt.Sprintf("public.t%d", r.Tab) }
func batchOfTbk(k string) int   { return batchOfTxn(strings.TrimSuffix(k, "-1")) }
func valueHead(b, m int) string { return fmt.Sprintf(`{"b":%d,"m":%d,"p":"`, b, m) }
func parseValue(v []byte) (int, int) {
	b, m := -1, -1
	head := v
	if len(head) > 40 {
		head = head[:40]
	}
	if _, err := fmt.Sscanf(string(head), `{"b":%d,"m":%d,`, &b, &m); err != nil {
		return -1, -1
	}
	return b, m
}
func batchOfTxn(t string) int {
	x, err := strconv.Atoi(t)
	if err != nil || x < 1000 {
		return -1
	}
	return (x - 1000) / 10
}

// keyOf: the Kafka key KafkaBatch.Add must give the row under the method ("" + false: nil key).
// For the method "batch" the key is a per-batch uuid: a 36 character stand-in (the real one is
// checked on the wire: 36 characters, one per batch).
func keyOf(method string, b int, r Row) (string, bool) {
	switch method {
	case "transaction":
		return tbkOf(b, r), true
	case "transaction-constant":
		return txnOf(b, r), true
	case "tablename":
		return tableOf(r), true
	case "batch":
		return strings.Repeat("u", 36), true
	}
	return "", false
}

func valueOf(c *Case, b, m int) []byte {
	r := c.Batches[b].Rows[m]
	k, _ := keyOf(c.Method, b, r)
	head := valueHead(b, m)
	pad := r.Size - 36 - len(k) - len(head) - 2
	if pad < 0 {
		pad = 0
	}
	buf := make([]byte, 0, len(head)+pad+2)
	buf = append(buf, head...)
	buf = append(buf, bytes.Repeat([]byte{'x'}, pad)...)
	return append(buf, '"', '}')
}

// producedSize: the size rule of the repo's batch and of sarama's producer alike.
func producedSize(key string, hasKey bool, value []byte) int {
	pm := &sarama.ProducerMessage{Topic: topic, Value: sarama.ByteEncoder(value)}
	if hasKey {
		pm.Key = sarama.StringEncoder(key)
	}
	return pm.ByteSize(2)
}

// ---- the mock broker's reporter ----

type fatalReport struct{ msg string }

type reporter struct {
	mu   sync.Mutex
	errs []string
}

func (r *reporter) note(s string) {
	r.mu.Lock()
	if len(r.errs) < 8 {
		if len(s) > 300 {
			s = s[:300] + "..."
		}
		r.errs = append(r.errs, s)
	}
	r.mu.Unlock()
}
func (r *reporter) Error(a ...interface{})            { r.note(fmt.Sprint(a...)) }
func (r *reporter) Errorf(f string, a ...interface{}) { r.note(fmt.Sprintf(f, a...)) }
func (r *reporter) Fatal(a ...interface{})            { panic(fatalReport{fmt.Sprint(a...)}) }
func (r *reporter) Fatalf(f string, a ...interface{}) { panic(fatalReport{fmt.Sprintf(f, a...)}) }
func (r *reporter) Helper()                           {}
func (r *reporter) list() []string {
	r.mu.Lock()
	defer r.mu.Unlock()
	return append([]string{}, r.errs...)
}

func newBroker(rep *reporter) (b *sarama.MockBroker, err error) {
	defer func() {
		if r := recover(); r != nil {
			b, err = nil, fmt.Errorf("%v", r)
		}
	}()
	return sarama.NewMockBrokerAddr(rep, 1, "127.0.0.1:0"), nil
}

func produceScript(rep *reporter, parts int, a *Answer) sarama.MockResponse {
	ok := sarama.NewMockProduceResponse(rep).SetVersion(produceVer)
	if a == nil || a.Fail == 0 {
		return ok
	}
	bad := sarama.NewMockProduceResponse(rep).SetVersion(produceVer)
	for p := 0; p < parts; p++ {
		if a.Part < 0 || a.Part == p {
			bad.SetError(topic, int32(p), kerrs[a.Err])
		}
	}
	var seq []interface{}
	for i := 0; i < a.Skip; i++ {
		seq = append(seq, ok)
	}
	if a.Fail < 0 {
		seq = append(seq, bad)
	} else {
		for i := 0; i < a.Fail; i++ {
			seq = append(seq, bad)
		}
		seq = append(seq, ok)
	}
	return sarama.NewMockSequence(seq...)
}

// recordsOf reads ProduceRequest.records (unexported in sarama).
func recordsOf(req *sarama.ProduceRequest) (map[string]map[int32]sarama.Records, bool) {
	f := reflect.ValueOf(req).Elem().FieldByName("records")
	if !f.IsValid() || f.Type() != reflect.TypeOf(map[string]map[int32]sarama.Records{}) {
		return nil, false
	}
	return *(*map[string]map[int32]sarama.Records)(unsafe.Pointer(f.UnsafeAddr())), true
}

// ---- observations ----

type rowObs struct {
	B      int    `json:"b"`
	M      int    `json:"m"`
	Size   int    `json:"produced_size"` // ByteSize(2) of the message the row must become
	Added  bool   `json:"accepted_by_add"`
	AddErr string `json:"add_error,omitempty"`
}

type wireMsg struct {
	Req    int    `json:"history_index"`
	B      int    `json:"b"` // -1: not one of the case's rows
	M      int    `json:"m"`
	Topic  string `json:"topic"`
	Part   int32  `json:"partition"`
	HasKey bool   `json:"has_key"`
	Key    string `json:"key,omitempty"`
	Len    int    `json:"value_len"`
	Same   bool   `json:"value_is_the_rows_json"`
	Verify bool   `json:"verify_placeholder,omitempty"`
	Ans    string `json:"answer"` // ok | <KError> | no-answer
}

type txe struct {
	Key   string `json:"time_based_key"`
	Txn   string `json:"transaction"`
	Count int    `json:"count"`
}

type repObs struct {
	Batch   int    `json:"batch"` // -1: not recognisable
	HistLen int    `json:"broker_history_len_when_read"`
	Entries []txe  `json:"entries"`
	Odd     string `json:"odd,omitempty"`
}

type batchObs struct {
	Fed   bool  `json:"handed_to_worker"`
	Empty bool  `json:"empty_not_handed_over,omitempty"`
	Txns  []txe `json:"transactions_after_adds"`
}

type Obs struct {
	Infra        string     `json:"infrastructure,omitempty"` // the case is dropped, reason from the positive list
	CtorPanic    string     `json:"kafka_new_panicked,omitempty"`
	Rows         []rowObs   `json:"rows"`
	Batches      []batchObs `json:"batches"`
	Wire         []wireMsg  `json:"wire"`
	Requests     int        `json:"produce_requests"`
	ErrAnswers   int        `json:"produce_requests_with_an_error_answer"`
	Reports      []repObs   `json:"reports"`
	TermByWorker bool       `json:"termination_raised_by_a_worker"`
	Stop         string     `json:"feeding_ended_by"` // all-reported | terminated | worker-returned | bound
	Returned     []bool     `json:"workers_returned"`
	ReturnMs     int64      `json:"termination_to_last_return_ms"`
	Escaped      []string   `json:"escaped_panics,omitempty"`
	TxnsClosed   bool       `json:"txns_written_closed"`
	BrokerErrs   []string   `json:"mock_broker_errors,omitempty"`
	Anomalies    []string   `json:"anomalies,omitempty"`
	ElapsedMs    int64      `json:"elapsed_ms"`
}

type world struct {
	mu           sync.Mutex
	notify       chan struct{}
	reports      []repObs
	termByWorker bool
	harnessCut   bool
	returned     []bool
	lastReturn   time.Time
	escaped      []string
}

func (w *world) ping() {
	select {
	case w.notify <- struct{}{}:
	default:
	}
}

func readTxns(m *ordered_map.OrderedMap) ([]txe, string) {
	if m == nil {
		return nil, "nil map"
	}
	var out []txe
	odd := ""
	it := m.IterFunc()
	for kv, ok := it(); ok; kv, ok = it() {
		k, _ := kv.Key.(string)
		wr, isW := kv.Value.(*progress.Written)
		if !isW || wr == nil {
			odd = "value is not a *progress.Written"
			out = append(out, txe{Key: k})
			continue
		}
		if wr.TimeBasedKey != k {
			odd = "map key differs from Written.TimeBasedKey"
		}
		out = append(out, txe{Key: k, Txn: wr.Transaction, Count: wr.Count})
	}
	return out, odd
}

func transportConfig(c *Case, host, port string) map[string]interface{} {
	cfg := map[string]interface{}{
		kafkafac.ConfVarKafkaBatchSize:       c.BatchSize,
		kafkafac.ConfVarKafkaFlushBytes:      c.FlushBytes,
		kafkafac.ConfVarKafkaFlushFrequency:  c.FlushMs,
		kafkafac.ConfVarKafkaMaxMessageBytes: c.Limit,
		kafkafac.ConfVarKafkaRetryMax:        c.RetryMax,
		kafkafac.ConfVarKafkaTopic:           topic,
		kafkafac.ConfVarBootstrapHost:        host,
		kafkafac.ConfVarBootstrapPort:        port,
		kafkafac.ConfVarKafkaTls:             false,
		kafkafac.ConfVarKafkaClusterCA:       "",
		kafkafac.ConfVarKafkaPrivateKey:      "",
		kafkafac.ConfVarKafkaPublicKey:       "",
		kafkafac.ConfVarKafkaVerifyProducer:  c.Verify,
		kafkafac.ConfVarKafkaPartitionMethod: c.Method,
		// what replicateAction adds to the flags of the subcommand
		appconfig.VAR_NAME_WORKERS:                c.Workers,
		appconfig.VAR_NAME_PARTITION_METHOD:       partitioner.GetPartitionMethod("none"),
		appconfig.VAR_NAME_BATCHER_ROUTING_METHOD: batcher.GetRoutingMethod("round-robin"),
	}
	switch c.Why {
	case "flush-frequency-negative":
		cfg[kafkafac.ConfVarKafkaFlushFrequency] = -1
	case "flush-bytes-negative":
		cfg[kafkafac.ConfVarKafkaFlushBytes] = -1
	case "tls-files-missing":
		cfg[kafkafac.ConfVarKafkaTls] = true
		cfg[kafkafac.ConfVarKafkaClusterCA] = "/nonexistent/kafkaprod/ca.pem"
		cfg[kafkafac.ConfVarKafkaPrivateKey] = "/nonexistent/kafkaprod/client.key"
		cfg[kafkafac.ConfVarKafkaPublicKey] = "/nonexistent/kafkaprod/client.pem"
	}
	return cfg
}

// runCase drives the real construction path once.
func runCase(c Case) *Obs {
	normalize(&c)
	start := time.Now()
	deadline := start.Add(caseBound)
	o := &Obs{Returned: make([]bool, c.Workers)}
	defer func() { o.ElapsedMs = time.Since(start).Milliseconds() }()
	rep := &reporter{}

	// ---- broker ----
	var broker *sarama.MockBroker
	host, port := "127.0.0.1", ""
	if c.Why == "unreachable" {
		l, err := net.Listen("tcp", "127.0.0.1:0")
		if err != nil {
			o.Infra = "no free port for the unreachable address"
			return o
		}
		_, port, _ = net.SplitHostPort(l.Addr().String())
		_ = l.Close()
	} else {
		var err error
		if broker, err = newBroker(rep); err != nil {
			o.Infra = "broker could not listen"
			return o
		}
		port = strconv.Itoa(int(broker.Port()))
		defer func() {
			closed := make(chan struct{})
			go func() { broker.Close(); close(closed) }()
			select {
			case <-closed:
			case <-time.After(3 * time.Second):
			}
		}()
	}
	meta := sarama.NewMockMetadataResponse(rep)
	api := sarama.NewMockApiVersionsResponse(rep)
	if broker != nil {
		meta.SetBroker(broker.Addr(), broker.BrokerID())
		for p := 0; p < c.Partitions; p++ {
			meta.SetLeader(topic, int32(p), broker.BrokerID())
		}
	}
	install := func(a *Answer) {
		if broker != nil {
			broker.SetHandlerByMap(map[string]sarama.MockResponse{
				"MetadataRequest": meta, "ApiVersionsRequest": api, "ProduceRequest": produceScript(rep, c.Partitions, a)})
		}
	}
	install(nil)

	// ---- batches from the production factory ----
	cfg := transportConfig(&c, host, port)
	fac := kafkafac.NewBatchFactory(cfg)
	batches := make([]transport.Batch, len(c.Batches))
	o.Batches = make([]batchObs, len(c.Batches))
	for bi, cb := range c.Batches {
		bt := fac.NewBatch("")
		for mi, r := range cb.Rows {
			val := valueOf(&c, bi, mi)
			k, has := keyOf(c.Method, bi, r)
			ro := rowObs{B: bi, M: mi, Size: producedSize(k, has, val)}
			ok, err := bt.Add(&marshaller.MarshalledMessage{Operation: "INSERT", Table: tableOf(r), Json: val,
				TimeBasedKey: tbkOf(bi, r), WalStart: uint64(100*(bi+1) + mi), Transaction: txnOf(bi, r)})
			ro.Added = ok
			if err != nil {
				ro.AddErr = err.Error()
			}
			if ok && err != nil || !ok && err == nil {
				o.Anomalies = append(o.Anomalies, fmt.Sprintf("Add of row %d/%d returned (%v, %v)", bi, mi, ok, err))
			}
			o.Rows = append(o.Rows, ro)
		}
		o.Batches[bi].Txns, _ = readTxns(bt.GetTransactions())
		o.Batches[bi].Empty = bt.IsEmpty() // the batcher reports an empty batch itself and never hands it to a worker
		if _, err := bt.Close(); err != nil {
			o.Anomalies = append(o.Anomalies, fmt.Sprintf("Close of batch %d: %v", bi, err))
		}
		batches[bi] = bt
	}

	// ---- kafka.New ----
	w := &world{notify: make(chan struct{}, 1), returned: make([]bool, c.Workers)}
	real := shutdown.NewShutdownHandler()
	term := real.TerminateCtx
	handler := shutdown.ShutdownHandler{TerminateCtx: term, CancelFunc: func() {
		w.mu.Lock()
		if !w.harnessCut && term.Err() == nil {
			w.termByWorker = true
		}
		w.mu.Unlock()
		real.CancelFunc()
		w.ping()
	}}
	defer real.CancelFunc()
	txns := make(chan *ordered_map.OrderedMap)
	statsChan := make(chan stats.Stat, 1024)
	statsStop := make(chan struct{})
	defer close(statsStop)
	go func() {
		for {
			select {
			case <-statsChan:
			case <-statsStop:
				return
			}
		}
	}()
	ins := make([]chan transport.Batch, c.Workers)
	ro := make([]<-chan transport.Batch, c.Workers)
	for i := range ins {
		ins[i] = make(chan transport.Batch, len(batches)+1)
		ro[i] = ins[i]
	}
	type newRes struct {
		ts    []*transport.Transporter
		panic string
	}
	made := make(chan newRes, 1)
	go func() {
		defer func() {
			if r := recover(); r != nil {
				made <- newRes{panic: fmt.Sprint(r)}
			}
		}()
		made <- newRes{ts: kafkafac.New(handler, txns, statsChan, c.Workers, ro, cfg)}
	}()
	var ts []*transport.Transporter
	select {
	case r := <-made:
		if r.panic != "" {
			o.CtorPanic = r.panic
			o.BrokerErrs = rep.list()
			return o
		}
		ts = r.ts
	case <-time.After(time.Until(deadline)):
		o.Infra = "kafka.New did not return within the bound"
		real.CancelFunc()
		return o
	}
	// ---- collector: the harness is the reader of txnsWritten ----
	colStop, colDone := make(chan struct{}), make(chan struct{})
	txnsClosed := false
	go func() {
		defer close(colDone)
		for {
			select {
			case m, ok := <-txns:
				if !ok {
					txnsClosed = true
					return
				}
				r := repObs{Batch: -1}
				if broker != nil {
					r.HistLen = len(broker.History())
				}
				r.Entries, r.Odd = readTxns(m)
				if len(r.Entries) > 0 {
					r.Batch = batchOfTbk(r.Entries[0].Key)
				}
				w.mu.Lock()
				w.reports = append(w.reports, r)
				w.mu.Unlock()
				w.ping()
			case <-colStop:
				return
			}
		}
	}()

	// ---- workers ----
	done := make([]chan struct{}, c.Workers)
	for i := range ts {
		done[i] = make(chan struct{})
		go func(i int) {
			defer close(done[i])
			defer func() {
				r := recover()
				w.mu.Lock()
				w.returned[i] = true
				w.lastReturn = time.Now()
				if r != nil {
					w.escaped = append(w.escaped, fmt.Sprintf("worker %d: %v", i, r))
				}
				w.mu.Unlock()
				w.ping()
			}()
			(*ts[i]).StartTransporting()
		}(i)
	}

	// waitFor: until cond holds, the termination signal is raised, a worker has returned, or the bound
	waitFor := func(cond func() bool) string {
		for {
			w.mu.Lock()
			ok := cond()
			gone := false
			for _, r := range w.returned {
				gone = gone || r
			}
			w.mu.Unlock()
			switch {
			case ok:
				return "all-reported"
			case term.Err() != nil:
				return "terminated"
			case gone:
				return "worker-returned"
			}
			to := time.NewTimer(time.Until(deadline))
			select {
			case <-w.notify:
				to.Stop()
			case <-term.Done():
				to.Stop()
			case <-to.C:
				return "bound"
			}
		}
	}
	reported := func(b int) bool {
		for _, r := range w.reports {
			if r.Batch == b {
				return true
			}
		}
		return false
	}

	o.Stop = "all-reported"
	if c.Mode == "serial" {
		for bi := range batches {
			if o.Batches[bi].Empty {
				continue
			}
			install(c.Batches[bi].Answer)
			ins[bi%c.Workers] <- batches[bi]
			o.Batches[bi].Fed = true
			b := bi
			if o.Stop = waitFor(func() bool { return reported(b) }); o.Stop != "all-reported" {
				break
			}
		}
	} else {
		install(c.Answer)
		for bi := range batches {
			if !o.Batches[bi].Empty {
				ins[bi%c.Workers] <- batches[bi]
				o.Batches[bi].Fed = true
			}
		}
		o.Stop = waitFor(func() bool {
			if c.Kind == "unbuildable" {
				return len(w.reports) > 0
			}
			for bi := range batches {
				if o.Batches[bi].Fed && !reported(bi) {
					return false
				}
			}
			return true
		})
	}

	// ---- wind down: after the termination signal every worker must return ----
	w.mu.Lock()
	if term.Err() == nil {
		w.harnessCut = true
	}
	w.mu.Unlock()
	termAt := time.Now()
	real.CancelFunc()
	retTo := time.NewTimer(returnBound)
	for i := range done {
		select {
		case <-done[i]:
		case <-retTo.C:
		}
	}
	retTo.Stop()
	select {
	case <-colDone:
	default:
		close(colStop)
		<-colDone
	}
	w.mu.Lock()
	o.Reports = append([]repObs{}, w.reports...)
	o.TermByWorker = w.termByWorker
	copy(o.Returned, w.returned)
	o.Escaped = append([]string{}, w.escaped...)
	if !w.lastReturn.IsZero() && w.lastReturn.After(termAt) {
		o.ReturnMs = w.lastReturn.Sub(termAt).Milliseconds()
	}
	w.mu.Unlock()
	o.TxnsClosed = txnsClosed
	o.BrokerErrs = rep.list()

	// ---- what the broker received and answered ----
	if broker != nil {
		for idx, rr := range broker.History() {
			req, ok := rr.Request.(*sarama.ProduceRequest)
			if !ok {
				continue
			}
			o.Requests++
			if req.Version != produceVer {
				o.Anomalies = append(o.Anomalies, fmt.Sprintf("ProduceRequest version %d, the mock answers version %d", req.Version, produceVer))
			}
			recs, ok := recordsOf(req)
			if !ok {
				o.Anomalies = append(o.Anomalies, "ProduceRequest.records could not be read")
				continue
			}
			resp, _ := rr.Response.(*sarama.ProduceResponse)
			bad := false
			for tp, parts := range recs {
				for p, rs := range parts {
					ans := "no-answer"
					if resp != nil && resp.Blocks[tp] != nil && resp.Blocks[tp][p] != nil {
						if e := resp.Blocks[tp][p].Err; e == sarama.ErrNoError {
							ans = "ok"
						} else {
							ans = e.Error()
						}
					}
					bad = bad || ans != "ok"
					if rs.RecordBatch == nil {
						o.Anomalies = append(o.Anomalies, "ProduceRequest without a RecordBatch")
						continue
					}
					for _, rec := range rs.RecordBatch.Records {
						wm := wireMsg{Req: idx, B: -1, M: -1, Topic: tp, Part: p, HasKey: rec.Key != nil, Key: string(rec.Key), Len: len(rec.Value), Ans: ans}
						if string(rec.Value) == placeholder {
							wm.Verify = true
						} else if b, m := parseValue(rec.Value); b >= 0 && b < len(c.Batches) && m >= 0 && m < len(c.Batches[b].Rows) {
							wm.B, wm.M = b, m
							wm.Same = bytes.Equal(rec.Value, valueOf(&c, b, m))
						}
						o.Wire = append(o.Wire, wm)
					}
				}
			}
			if bad {
				o.ErrAnswers++
			}
		}
		sort.SliceStable(o.Wire, func(i, j int) bool {
			a, b := o.Wire[i], o.Wire[j]
			if a.Req != b.Req {
				return a.Req < b.Req
			}
			if a.B != b.B {
				return a.B < b.B
			}
			return a.M < b.M
		})
	}
	return o
}

// ---- monitor ----

var timingSigs = map[string]bool{
	"kafkaprod/failure-without-termination":         true,
	"kafkaprod/worker-did-not-return":               true,
	"kafkaprod/constructor-panic-on-healthy-broker": true,
}

func isTiming(v core.Violation) bool {
	for s := range timingSigs {
		if strings.HasPrefix(v.Signature, s) && strings.Contains(v.What, "[time bound]") {
			return true
		}
	}
	return strings.HasPrefix(v.Signature, "kafkaprod/unbuildable-config-worker-silent") && strings.Contains(v.What, "[time bound]")
}

func expectedTxns(c *Case, rows []rowObs, b int) []txe {
	var out []txe
	for _, r := range rows {
		if r.B != b || (!r.Added && r.AddErr != transport.ERR_MSG_TOOBIG) {
			continue // a row refused for another reason than its size is not the batch's
		}
		row := c.Batches[b].Rows[r.M]
		k := tbkOf(b, row)
		found := false
		for i := range out {
			if out[i].Key == k {
				out[i].Count++
				found = true
			}
		}
		if !found {
			out = append(out, txe{Key: k, Txn: txnOf(b, row), Count: 1})
		}
	}
	return out
}

func sameTxns(a, b []txe) bool {
	if len(a) != len(b) {
		return false
	}
	for i := range a {
		if a[i] != b[i] {
			return false
		}
	}
	return true
}

func monitor(c Case, o *Obs) []core.Violation {
	normalize(&c)
	var vs []core.Violation
	add := func(prop, sig, what string) {
		vs = append(vs, core.Violation{Property: prop, Signature: "kafkaprod/" + sig, What: what, Case: c})
	}
	if o.Infra != "" {
		return nil
	}
	for _, a := range o.Anomalies {
		add("C14", "harness-anomaly", a)
	}
	conf := fmt.Sprintf("kafka-max-message-bytes %d, method %s, %d worker(s), %d partition(s), %s", c.Limit, c.Method, c.Workers, c.Partitions, c.Mode)

	// (C15) the factory-made batch against the configured limit, by the repo's own size rule
	rowAt := map[[2]int]rowObs{}
	for _, r := range o.Rows {
		rowAt[[2]int{r.B, r.M}] = r
		switch {
		case r.Size > c.Limit && r.Added:
			add("C15", "row-over-configured-limit-accepted", fmt.Sprintf("%s: row %d/%d becomes a message of %d bytes (ByteSize(2)) > %d, yet the factory-made batch accepted it", conf, r.B, r.M, r.Size, c.Limit))
		case r.Size > c.Limit && r.AddErr != transport.ERR_MSG_TOOBIG:
			add("C15", "oversize-row-not-reported-too-big", fmt.Sprintf("%s: row %d/%d (%d bytes > %d) was refused with %q instead of %q", conf, r.B, r.M, r.Size, c.Limit, r.AddErr, transport.ERR_MSG_TOOBIG))
		case r.Size <= c.Limit && !r.Added:
			add("C15", "row-within-configured-limit-dropped", fmt.Sprintf("%s: row %d/%d becomes a message of %d bytes <= %d, yet the factory-made batch refused it: %q", conf, r.B, r.M, r.Size, c.Limit, r.AddErr))
		}
	}
	for b := range c.Batches {
		if want := expectedTxns(&c, o.Rows, b); !sameTxns(want, o.Batches[b].Txns) {
			add("C15", "dropped-row-not-counted", fmt.Sprintf("%s: batch %d: transactions after the Adds %v, expected %v (every accepted and every too-big row counted once under its time based key, in order of first appearance)", conf, b, o.Batches[b].Txns, want))
		}
	}
	if c.Kind == "unbuildable" {
		return append(vs, monitorUnbuildable(c, o, conf)...)
	}
	if o.CtorPanic != "" {
		add("C14", "constructor-panic-on-healthy-broker", fmt.Sprintf("[time bound] %s: kafka.New panicked although the configuration is valid and the broker answers: %s", conf, o.CtorPanic))
		return vs
	}

	// (C14) what was on the wire
	hp := sarama.NewHashPartitioner(topic)
	occ := map[[2]int][]wireMsg{}
	batchKey := map[int]string{}
	nVerify := 0
	for _, m := range o.Wire {
		if m.Verify {
			nVerify++
			if !c.Verify || nVerify > c.Workers || m.HasKey || m.Topic != topic {
				add("C14", "wire-unexpected-message", fmt.Sprintf("%s: placeholder message no. %d on the wire (kafka-verify-producer %v, topic %q, key %v)", conf, nVerify, c.Verify, m.Topic, m.HasKey))
			}
			continue
		}
		if m.B < 0 {
			add("C14", "wire-unexpected-message", fmt.Sprintf("%s: the broker received a message of %d bytes (key %q) that is none of the case's rows", conf, m.Len, m.Key))
			continue
		}
		id := [2]int{m.B, m.M}
		r := rowAt[id]
		if !r.Added {
			add("C14", "wire-unexpected-message", fmt.Sprintf("%s: row %d/%d was refused by Add (%q) and was produced all the same", conf, m.B, m.M, r.AddErr))
		}
		for _, prev := range occ[id] {
			if prev.Ans == "ok" {
				add("C14", "wire-duplicate-message", fmt.Sprintf("%s: row %d/%d was acknowledged in request %d and sent again in request %d", conf, m.B, m.M, prev.Req, m.Req))
				break
			}
		}
		occ[id] = append(occ[id], m)
		row := c.Batches[m.B].Rows[m.M]
		wantKey, wantHas := keyOf(c.Method, m.B, row)
		var diffs []string
		if m.Topic != topic {
			diffs = append(diffs, fmt.Sprintf("topic %q instead of %q", m.Topic, topic))
		}
		if !m.Same {
			diffs = append(diffs, fmt.Sprintf("value (%d bytes) is not the row's JSON (%d bytes)", m.Len, len(valueOf(&c, m.B, m.M))))
		}
		if c.Method == "batch" {
			if k, seen := batchKey[m.B]; seen && k != m.Key {
				diffs = append(diffs, fmt.Sprintf("key %q, another message of the batch had %q", m.Key, k))
			}
			batchKey[m.B] = m.Key
			if !m.HasKey || len(m.Key) != 36 {
				diffs = append(diffs, fmt.Sprintf("key %q is not a 36 character batch key", m.Key))
			}
		} else if m.HasKey != wantHas || m.Key != wantKey {
			diffs = append(diffs, fmt.Sprintf("key %q (present %v) instead of %q (present %v)", m.Key, m.HasKey, wantKey, wantHas))
		}
		if int(m.Part) < 0 || int(m.Part) >= c.Partitions {
			diffs = append(diffs, fmt.Sprintf("partition %d of %d", m.Part, c.Partitions))
		} else if m.HasKey {
			if p, err := hp.Partition(&sarama.ProducerMessage{Topic: topic, Key: sarama.StringEncoder(m.Key)}, int32(c.Partitions)); err == nil && p != m.Part {
				diffs = append(diffs, fmt.Sprintf("partition %d, the key hashes to %d", m.Part, p))
			}
		}
		if len(diffs) > 0 {
			add("C14", "wire-message-differs", fmt.Sprintf("%s: row %d/%d on the wire (request %d): %s", conf, m.B, m.M, m.Req, strings.Join(diffs, "; ")))
		}
	}
	if c.Method == "batch" {
		seen := map[string]int{}
		for b, k := range batchKey {
			if ob, dup := seen[k]; dup {
				add("C14", "wire-message-differs", fmt.Sprintf("%s: batches %d and %d share the batch key %q", conf, ob, b, k))
			}
			seen[k] = b
		}
	}

	// (C14) reports: only for a batch wholly acknowledged by the broker before the report
	nrep := map[int]int{}
	for _, r := range o.Reports {
		nrep[r.Batch]++
		if r.Batch < 0 || r.Batch >= len(c.Batches) || !o.Batches[r.Batch].Fed || r.Odd != "" {
			add("C14", "written-report-differs", fmt.Sprintf("%s: a report %v (%s) was read from txnsWritten that belongs to no batch handed to a worker", conf, r.Entries, r.Odd))
			continue
		}
		if nrep[r.Batch] == 2 {
			add("C14", "batch-reported-twice", fmt.Sprintf("%s: batch %d was reported on txnsWritten more than once", conf, r.Batch))
		}
		if want := expectedTxns(&c, o.Rows, r.Batch); !sameTxns(want, r.Entries) {
			add("C14", "written-report-differs", fmt.Sprintf("%s: batch %d reported as %v, its transactions are %v", conf, r.Batch, r.Entries, want))
		}
		var missing []string
		for _, row := range o.Rows {
			if row.B != r.Batch || !row.Added {
				continue
			}
			acked, state := false, "never reached the broker"
			for _, m := range occ[[2]int{row.B, row.M}] {
				if m.Req >= r.HistLen {
					continue
				}
				if m.Ans == "ok" {
					acked = true
				} else {
					state = "answered " + m.Ans
				}
			}
			if !acked {
				missing = append(missing, fmt.Sprintf("%d/%d (%s)", row.B, row.M, state))
			}
		}
		if len(missing) > 0 {
			add("C14", "written-without-broker-ack", fmt.Sprintf("%s: batch %d was reported on txnsWritten although the broker had not answered NoError for row(s) %s by then: the progress tracker would acknowledge them to PostgreSQL", conf, r.Batch, strings.Join(missing, ", ")))
		}
	}

	// (C14/C15) outcome of every batch handed to a worker
	var unwritten []int
	var unsent []string
	for b := range c.Batches {
		if !o.Batches[b].Fed || nrep[b] > 0 {
			continue
		}
		unwritten = append(unwritten, b)
		for _, row := range o.Rows {
			if row.B == b && row.Added && len(occ[[2]int{row.B, row.M}]) == 0 {
				unsent = append(unsent, fmt.Sprintf("%d/%d (%d bytes)", row.B, row.M, row.Size))
			}
		}
	}
	crashed := len(o.Escaped) > 0
	switch {
	case len(unwritten) > 0 && !o.TermByWorker && !crashed:
		tb := ""
		if o.Stop == "bound" {
			tb = "[time bound] "
		}
		add("C14", "failure-without-termination", fmt.Sprintf("%s%s: batch(es) %v handed to a worker were not reported written and no worker raised the termination signal (the wait ended by: %s; workers returned %v; %d produce requests, %d with an error answer)",
			tb, conf, unwritten, o.Stop, o.Returned, o.Requests, o.ErrAnswers))
	case len(unwritten) > 0 && o.ErrAnswers == 0 && len(unsent) > 0:
		add("C14", "batch-accepted-row-refused-by-producer", fmt.Sprintf("%s: the broker answered NoError to every one of its %d produce requests, yet batch(es) %v were not written and the worker stopped the process (termination by worker %v, escaped panic %v). Row(s) %s had been accepted by the factory-made batch and never reached the broker: the factory-made producer does not take what the factory-made batch lets through",
			conf, o.Requests, unwritten, o.TermByWorker, o.Escaped, strings.Join(unsent, ", ")))
	case len(unwritten) > 0 && o.ErrAnswers == 0:
		add("C14", "acked-batch-not-written", fmt.Sprintf("%s: the broker received and answered NoError to everything, yet batch(es) %v were not reported written (termination by worker %v, escaped panic %v)", conf, unwritten, o.TermByWorker, o.Escaped))
	case len(unwritten) == 0 && (o.TermByWorker || crashed):
		add("C14", "spurious-termination", fmt.Sprintf("%s: every batch handed over was reported written, yet a worker stopped the process (termination %v, escaped panic %v)", conf, o.TermByWorker, o.Escaped))
	}
	for i, r := range o.Returned {
		if !r {
			add("C17", "worker-did-not-return", fmt.Sprintf("[time bound] %s: StartTransporting of worker %d had not returned %d ms after the termination signal", conf, i, returnBound.Milliseconds()))
		}
	}
	return vs
}

// (C17) a configuration under which the configured producer cannot be built
func monitorUnbuildable(c Case, o *Obs, conf string) []core.Violation {
	var vs []core.Violation
	add := func(sig, what string) {
		vs = append(vs, core.Violation{Property: "C17", Signature: "kafkaprod/" + sig + "/" + c.Why, What: what, Case: c})
	}
	if o.CtorPanic != "" {
		return nil // kafka.New panicked: the process dies at start-up
	}
	if c.Why == "tls-files-missing" && len(o.Reports) > 0 {
		// NOT a C17 matter: kafka.New drops producerConfig's error and sarama builds a DEFAULT (plaintext,
		// MaxMessageBytes 1000000) producer from the nil config, which works: no stage is dead, what is
		// reported written was acknowledged by the broker.  That the operator's TLS request is silently
		// ignored is outside the 19 properties; it is counted as an observation (see Run) and described
		// in DESIGN.md.
		return nil
	}
	fed := 0
	for _, b := range o.Batches {
		if b.Fed {
			fed++
		}
	}
	if len(o.Reports) > 0 {
		how := ""
		if len(o.Wire) > 0 {
			how = fmt.Sprintf("; the broker received %d message(s) over a plaintext connection from a producer that is not the configured one", len(o.Wire))
		}
		cause := "the producer that the configuration asks for cannot be built, the error is dropped in kafka.New"
		if c.Why == "unreachable" {
			cause = "nothing listens on the bootstrap address"
		}
		add("unbuildable-config-batch-written", fmt.Sprintf("%s, %s: %s, and %d batch(es) were reported written%s", conf, c.Why, cause, len(o.Reports), how))
		return vs
	}
	if fed > 0 && !o.TermByWorker && len(o.Escaped) == 0 {
		add("unbuildable-config-worker-silent", fmt.Sprintf("[time bound] %s, %s: %d batch(es) were handed over; no worker raised the termination signal and no panic left StartTransporting (the wait ended by: %s; workers returned %v)", conf, c.Why, fed, o.Stop, o.Returned))
	}
	return vs
}

// evaluate runs a case; violations that are only a missed bound are confirmed by a second run.
func evaluate(c Case) (*Obs, []core.Violation, int) {
	o := runCase(c)
	vs := monitor(c, o)
	need, content := false, false
	for _, v := range vs {
		if isTiming(v) {
			need = true
		} else {
			content = true
		}
	}
	if !need || content {
		return o, vs, 0
	}
	again := map[string]bool{}
	for _, v := range monitor(c, runCase(c)) {
		again[v.Signature] = true
	}
	var keep []core.Violation
	for _, v := range vs {
		if !isTiming(v) || again[v.Signature] {
			keep = append(keep, v)
		}
	}
	return o, keep, 1
}

// ---- generator ----

func genSize(rng *rand.Rand, limit int, big *int) int {
	r := rng.Intn(100)
	s := 0
	switch {
	case r < 45:
		s = limit - 40 + rng.Intn(81)
	case r < 80 || limit <= 1048588 && r < 95:
		s = 80 + rng.Intn(220)
	case r < 95:
		// between the 1 MiB region and the configured limit
		switch rng.Intn(3) {
		case 0:
			s = 1048588 - 3 + rng.Intn(8)
		case 1:
			s = 1048588 + rng.Intn(limit-1048588+1)
		default:
			s = limit - rng.Intn(2000)
		}
	default:
		pts := []int{1000000, 1048576, 1048588}
		p := pts[rng.Intn(len(pts))]
		if p > limit+40 {
			p = limit
		}
		s = p - 3 + rng.Intn(7)
	}
	if s > bigRow {
		if *big >= 3 { // at most three rows above 1.1 MB per case
			return 80 + rng.Intn(220)
		}
		*big++
	}
	if s < 0 {
		s = 0
	}
	return s
}

func genAnswer(rng *rand.Rand, kind string, parts int) *Answer {
	a := &Answer{Part: -1}
	if parts > 1 && rng.Intn(3) == 0 {
		a.Part = rng.Intn(parts)
	}
	switch kind {
	case "transient":
		a.Err = retriableNames[rng.Intn(len(retriableNames))]
		a.Fail = 1
		if rng.Intn(4) == 0 {
			a.Fail = 2
		}
	case "exhaust":
		a.Err = retriableNames[rng.Intn(len(retriableNames))]
		a.Fail = -1
	default:
		a.Err = fatalNames[rng.Intn(len(fatalNames))]
		a.Fail = 1
	}
	return a
}

func genCase(rng *rand.Rand) Case {
	c := Case{Kind: "produce", Limit: limits[rng.Intn(len(limits))], Method: methods[rng.Intn(len(methods))],
		Workers: 1 + rng.Intn(3), Partitions: 1 + rng.Intn(3), BatchSize: []int{5, 100, 5000}[rng.Intn(3)],
		FlushMs: []int{1, 2, 5, 20}[rng.Intn(4)], FlushBytes: []int{1, 1000, 262144}[rng.Intn(3)], RetryMax: rng.Intn(3),
		Verify: rng.Intn(7) == 0, Mode: "serial"}
	if rng.Intn(5) < 2 {
		c.Mode = "queued"
	}
	nb := 1 + rng.Intn(4)
	big := 0
	for b := 0; b < nb; b++ {
		var bt Batch
		for m, k := 0, 1+rng.Intn(5); m < k; m++ {
			bt.Rows = append(bt.Rows, Row{Size: genSize(rng, c.Limit, &big), Txn: rng.Intn(3) / 2 * (1 + rng.Intn(2)), Tab: rng.Intn(3)})
		}
		c.Batches = append(c.Batches, bt)
	}
	kind := ""
	switch r := rng.Intn(100); {
	case r < 70:
	case r < 85:
		kind = "transient"
	case r < 97:
		kind = "fatal"
	default:
		kind = "exhaust"
	}
	if kind != "" {
		a := genAnswer(rng, kind, c.Partitions)
		if c.Mode == "serial" {
			c.Batches[rng.Intn(nb)].Answer = a
		} else {
			a.Skip = rng.Intn(nb + 1)
			c.Answer = a
		}
	}
	normalize(&c)
	return c
}

func genUnbuildable(rng *rand.Rand) Case {
	c := genCase(rng)
	c.Kind, c.Why = "unbuildable", whys[rng.Intn(len(whys))]
	c.Limit = []int{1000, 4096, 1000000}[rng.Intn(3)]
	c.RetryMax = rng.Intn(2)
	for i := range c.Batches { // rows the batch accepts: the worker gets something to send
		for j := range c.Batches[i].Rows {
			c.Batches[i].Rows[j].Size = 80 + rng.Intn(220)
		}
	}
	normalize(&c)
	return c
}

func scriptKind(c *Case) string {
	label := func(a *Answer) string {
		if a == nil {
			return ""
		}
		k := "fatal"
		for _, n := range retriableNames {
			if a.Err == n {
				k = "transient"
				if a.Fail < 0 {
					k = "retriable-for-ever"
				}
			}
		}
		if a.Part >= 0 {
			k += "-one-partition"
		}
		return k
	}
	if c.Mode == "queued" {
		if l := label(c.Answer); l != "" {
			return l
		}
		return "all-NoError"
	}
	for _, b := range c.Batches {
		if l := label(b.Answer); l != "" {
			return l
		}
	}
	return "all-NoError"
}

func loadCorpus(dir string) []Case {
	var out []Case
	files, _ := filepath.Glob(filepath.Join(dir, "KAFKAPROD", "*.json"))
	sort.Strings(files)
	for _, fn := range files {
		b, err := os.ReadFile(fn)
		if err != nil {
			continue
		}
		var c Case
		if json.Unmarshal(b, &c) == nil {
			c.Name = "corpus:" + strings.TrimSuffix(filepath.Base(fn), ".json")
			normalize(&c)
			out = append(out, c)
		}
	}
	return out
}

const rule = "corpus first, then seeded. Every case goes through the production construction path: the transportConfig map main.go builds (all 14 kafka flags with their Go types + workers/partition-method/batcher-routing-method) -> kafka.NewBatchFactory -> kafka.New (real sarama SyncProducers from the repo's producerConfig, real KafkaTransporters) -> sarama MockBroker over TCP. " +
	"kafka-max-message-bytes from {300, 1000, 4096, 1000000, 1048588, 1048589, 2000000, 4000000}; produced row sizes (36+|key|+|json|): 45% limit-40..limit+40, 35% small (80..300), for limits above 1048588 15% between 1048588 and the limit, 5% around 1000000/1048576/1048588 (at most three rows above 1.1 MB per case); 1-3 workers, 1-3 partitions, 1-4 batches of 1-5 rows, every kafka-partition-method of config.go, kafka-batch-size {5,100,5000}, flush frequency {1,2,5,20} ms, flush bytes {1,1000,262144}, kafka-flush-retry-max 0-2, kafka-verify-producer in 1 of 7. " +
	"Broker scripts: 70% every ProduceRequest NoError, 15% a retriable error (not-leader / request-timed-out / not-enough-replicas) for the first 1-2 requests (sarama's Producer.Retry: 3 x 500 ms, not configurable through the repo's flags), 12% a non-retriable error (message-too-large / topic-not-authorized) for one request, 3% a retriable error for ever; a third of the error scripts hit one partition only (partial acknowledgement of a batch). " +
	"60% serial (one batch at a time, the script belongs to a batch), 40% queued (all batches in the workers' input channels first, one script by arrival order; which request is hit depends on the interleaving — the monitor judges the observed history). Empty batches (every row too big) are not handed to a worker (the batcher reports them itself). " +
	"Plus 1 + n/20 cases (C17) whose configuration makes the configured producer unbuildable: negative flush frequency / flush bytes (sarama Config.Validate fails), nothing listening on the bootstrap address (with Metadata.Full=false sarama builds the producer without contacting anyone: the first send must fail-stop), kafka-tls with certificate files that do not exist (producerConfig returns nil + error, kafka.New drops the error, sarama.NewSyncProducer(nil config) builds a default plaintext producer); kafka-max-message-bytes 0 is left out (the batch then drops every row and no batch ever reaches a worker). kafka.New's log.Fatalf branches (wrong Go type in the map) are not exercised: they would end the harness process. " +
	"Non-trivial: at least one batch handed to a worker and an outcome reached (all written, termination by a worker, or a panic out of StartTransporting / kafka.New); distinct by case JSON. A case is dropped as infrastructure only for: broker could not listen, no free port for the unreachable address, kafka.New did not return within the bound (with Metadata.Full=false sarama contacts nobody while the producer is built, so there is no metadata fetch to wait for). " +
	"Bounds: 10 s per case for the outcome, 5 s for the workers to return; a violation that is only a missed bound is re-run once and kept only if it shows again."

func describe(c Case, o *Obs) string {
	var sb strings.Builder
	cj, _ := json.Marshal(c)
	fmt.Fprintf(&sb, "case %s\n", cj)
	if o.Infra != "" {
		fmt.Fprintf(&sb, "DROPPED (infrastructure): %s\n", o.Infra)
		return sb.String()
	}
	if o.CtorPanic != "" {
		fmt.Fprintf(&sb, "kafka.New PANICKED: %s\n", o.CtorPanic)
	}
	for _, r := range o.Rows {
		rel := fmt.Sprintf("limit%+d", r.Size-c.Limit)
		fmt.Fprintf(&sb, "row %d/%d: produced size %d (%s) Add -> %v %s\n", r.B, r.M, r.Size, rel, r.Added, r.AddErr)
	}
	for b, bo := range o.Batches {
		fmt.Fprintf(&sb, "batch %d -> worker %d: handed over %v, empty %v, transactions %v\n", b, b%c.Workers, bo.Fed, bo.Empty, bo.Txns)
	}
	for _, m := range o.Wire {
		what := fmt.Sprintf("row %d/%d", m.B, m.M)
		if m.Verify {
			what = "verify placeholder"
		}
		fmt.Fprintf(&sb, "broker history %3d: %s topic %s partition %d key %q (present %v) value %d bytes (row's JSON: %v) -> %s\n", m.Req, what, m.Topic, m.Part, m.Key, m.HasKey, m.Len, m.Same, m.Ans)
	}
	for _, r := range o.Reports {
		fmt.Fprintf(&sb, "WRITTEN report: batch %d %v %s (broker history length %d when read)\n", r.Batch, r.Entries, r.Odd, r.HistLen)
	}
	fmt.Fprintf(&sb, "%d produce requests, %d with an error answer; wait ended by %s; termination raised by a worker %v; workers returned %v (%d ms after termination); txnsWritten closed %v; %d ms\n",
		o.Requests, o.ErrAnswers, o.Stop, o.TermByWorker, o.Returned, o.ReturnMs, o.TxnsClosed, o.ElapsedMs)
	for _, s := range o.Escaped {
		fmt.Fprintf(&sb, "PANIC ESCAPED StartTransporting (caught by the harness): %s\n", s)
	}
	for _, s := range o.BrokerErrs {
		fmt.Fprintf(&sb, "mock broker error: %s\n", s)
	}
	for _, s := range o.Anomalies {
		fmt.Fprintf(&sb, "anomaly: %s\n", s)
	}
	return sb.String()
}

func sizeClass(d int, size int) string {
	switch {
	case size > 1048588 && d <= -41:
		return "above-1048588-below-limit"
	case d < -40:
		return "small"
	case d < 0:
		return "limit-40..-1"
	case d == 0:
		return "limit"
	case d <= 36:
		return "limit+1..+36"
	default:
		return "limit+37.."
	}
}

func init() {
	core.Register(core.Component{Name: "KAFKAPROD", Replay: func(cs json.RawMessage) string {
		var c Case
		if err := json.Unmarshal(cs, &c); err != nil {
			return "bad case: " + err.Error()
		}
		normalize(&c)
		old := ftrans.VerifSetShutdownDelay(0)
		defer ftrans.VerifSetShutdownDelay(old)
		o, vs, reruns := evaluate(c)
		s := describe(c, o)
		if reruns > 0 {
			s += fmt.Sprintf("(%d re-run for time-bound violations)\n", reruns)
		}
		for _, v := range vs {
			s += fmt.Sprintf("MONITOR %s [%s]: %s\n", v.Property, v.Signature, v.What)
		}
		return s
	}, Run: func(rng *rand.Rand, n int, corpusDir string, rep *core.Report) string {
		rep.Rule = rule
		old := ftrans.VerifSetShutdownDelay(0)
		defer ftrans.VerifSetShutdownDelay(old)
		cases := loadCorpus(corpusDir)
		for i := 0; i < n; i++ {
			cases = append(cases, genCase(rng))
		}
		for i := 0; i < 1+n/20; i++ { // drawn after the others
			cases = append(cases, genUnbuildable(rng))
		}
		seen := map[string]bool{}
		for _, c := range cases {
			o, vs, reruns := evaluate(c)
			rep.CaseIndex = append(rep.CaseIndex, core.RawJSON(c))
			rep.Evaluations++
			core.Bump(rep, "kind:"+c.Kind)
			if c.Kind == "unbuildable" {
				core.Bump(rep, "unbuildable:"+c.Why)
				if c.Why == "tls-files-missing" && len(o.Reports) > 0 {
					core.Bump(rep, "observed:tls-error-dropped-default-plaintext-producer-writes")
				}
			} else {
				core.Bump(rep, fmt.Sprintf("limit:%d", c.Limit))
				core.Bump(rep, "method:"+c.Method)
				core.Bump(rep, fmt.Sprintf("workers:%d", c.Workers))
				core.Bump(rep, "mode:"+c.Mode)
				core.Bump(rep, "script:"+scriptKind(&c))
			}
			if reruns > 0 {
				core.Bump(rep, "rerun-for-time-bound")
			}
			key := string(core.RawJSON(c))
			outcome := ""
			switch {
			case o.Infra != "":
				outcome = "infrastructure:" + o.Infra
			case o.CtorPanic != "":
				outcome = "kafka.New-panicked"
			default:
				fed, rows := 0, 0
				for _, b := range o.Batches {
					if b.Fed {
						fed++
					}
				}
				for _, r := range o.Rows {
					rows++
					if c.Kind == "produce" {
						core.Bump(rep, "row:"+sizeClass(r.Size-c.Limit, r.Size))
						if r.Added {
							core.Bump(rep, "add:accepted")
						} else {
							core.Bump(rep, "add:"+r.AddErr)
						}
						if r.Size > bigRow && r.Added {
							core.Bump(rep, "row-above-1.1MB-accepted")
						}
					}
				}
				switch {
				case fed == 0:
					outcome = "nothing-handed-over"
				case len(o.Escaped) > 0:
					outcome = "panic-left-StartTransporting"
				case o.TermByWorker:
					outcome = "terminated-by-a-worker"
				case o.Stop == "all-reported":
					outcome = "all-written"
				default:
					outcome = "ended-by-" + o.Stop
				}
				core.Bump(rep, fmt.Sprintf("reports:%d", len(o.Reports)))
				if o.ErrAnswers > 0 {
					core.Bump(rep, "broker-answered-an-error")
					if o.Stop == "all-reported" && !o.TermByWorker {
						core.Bump(rep, "error-answers-survived-by-retry")
					}
				}
				if c.Kind == "produce" && scriptKind(&c) != "all-NoError" && o.ErrAnswers == 0 {
					core.Bump(rep, "error-script-not-reached")
				}
				if fed > 0 && outcome != "ended-by-bound" && outcome != "ended-by-worker-returned" && !seen[key] {
					rep.Nontrivial++
				}
			}
			core.Bump(rep, "outcome:"+outcome)
			seen[key] = true
			if len(rep.Samples) < 3 && o.Infra == "" && len(o.Wire) > 0 && len(o.Wire) < 12 {
				rep.Samples = append(rep.Samples, map[string]interface{}{"case": c, "observed": o})
			}
			for _, v := range vs {
				core.Bump(rep, "monitor:"+v.Signature)
			}
			rep.Violations = append(rep.Violations, vs...)
		}
		return "(* KAFKAPROD has no model-side cases: implementation-level monitor only *)\n"
	}})
}

var _ = io.Discard
