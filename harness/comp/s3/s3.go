//go:build verif

// Package s3 drives the REAL S3 transporter (NewTransporterWithInterface + StartTransporting in a
// goroutine) with a scripted fake s3iface.S3API and a scripted TimeSource.
//
// Contract of the fake sink (PutObjectWithContext), stated here because a fake kinder than the
// real service hides bugs:
//   - it looks at the request exactly once per call: Key, Bucket, ContentEncoding, and Body;
//   - Body is the reader the transporter passes (a *bytes.Reader): Size()-Len() is the reader's
//     offset when the call starts; ReadAt(0..Size()) captures the whole underlying array WITHOUT
//     moving that offset (used only for comparison);
//   - scripted failure n: it Reads n bytes (or up to EOF) from Body, then returns an error;
//   - scripted success (or exhausted script): it Reads Body to EOF and returns success; the bytes
//     read are gunzipped with the standard library's compress/gzip (not pgzip);
//   - it ignores ctx (a cancelled context does not make it fail): the transporter's own handling
//     of cancellation is what is observed.
//
// Contract of the fake TimeSource: DateString returns the batch's scripted strings; UnixNano
// returns a counter; the first UnixNano call of a batch (the `start` reading in StartTransporting,
// after the loop's two ctx checks, before transportWithRetry's check) is the injection point for
// cancellation "check".
//
// CONSTRUCTORS.  A case with "ctor":"production" builds its worker with transporter.NewTransporter
// (the constructor the factory calls): a real aws-sdk-go session and S3 client (static dummy
// credentials, region us-east-1, MaxRetries 0 and - because an endpoint is given - path-style
// addressing, all set by that constructor), whose endpoint is an httptest server of this package
// (s3Wire).  The server reads the PUT /<bucket>/<key> request completely, rebuilds the
// PutObjectInput (Bucket, Key, Content-Encoding, Body = a *bytes.Reader over the bytes received)
// and calls the SAME fakeS3.PutObjectWithContext; a scripted failure is answered with the S3 XML
// error document InternalError and HTTP 500, a success with 200.  Observables, Gallina and monitor
// are those of the test path; "reader offset" and "whole underlying array" then describe the body as
// it arrived (a worker that handed over a reader at offset k > 0 shows as a body that is not this
// batch's object).
//
// SDK-level retries: HTTP 500 is an answer the SDK's own retryer WOULD retry; that it does not is
// the constructor's `MaxRetries: aws.Int(0)`, so one attempt of the worker = one request = one call
// of the fake, and a constructor that loses that setting shows as attempts beyond the budget.
//
// Kept on the test constructor in the generated share (a corpus case or a replay may still ask for
// them: a rewritten key is then reported by the monitor, a "check"/"upload" case ends as dropped):
//   - cancellation "check" and "upload": the real client honours the context it is given (the fake
//     ignores it by contract): after "check" no request is sent at all, every attempt fails with
//     RequestCanceled and the worker ends with "max retries exceeded" instead of uploading without
//     reporting; "upload" races the answer against the cancellation;
//   - keys the SDK rewrites: its REST URI cleaning (aws.Config.DisableRestProtocolURICleaning is left
//     unset by the constructor) applies path.Clean to /<bucket>/<key>, so an empty, "." or ".."
//     segment inside a key component changes the key (and ".." even the bucket) on the wire.  Measured
//     once per run by sdkKeyProbe and reported as a note.
//
// Infrastructure: a request the handler cannot take apart, or a client-side error that is not the
// scripted one (connection failure, ...; recognised in the error the worker logs) marks the case; a
// marked case is dropped and counted, never emitted or monitored.
package s3

import (
	"bytes"
	"compress/gzip"
	"context"
	"encoding/json"
	"errors"
	"fmt"
	"io"
	"math/rand"
	"net/http"
	"net/http/httptest"
	"os"
	"path/filepath"
	"sort"
	"strconv"
	"strings"
	"sync"
	"time"
	"unsafe"

	"verifharness/core"

	"github.com/Nextdoor/pg-bifrost.git/marshaller"
	"github.com/Nextdoor/pg-bifrost.git/shutdown"
	"github.com/Nextdoor/pg-bifrost.git/stats"
	"github.com/Nextdoor/pg-bifrost.git/transport"
	"github.com/Nextdoor/pg-bifrost.git/transport/batch"
	"github.com/Nextdoor/pg-bifrost.git/transport/transporters/s3/transporter"
	"github.com/Nextdoor/pg-bifrost.git/utils"
	"github.com/aws/aws-sdk-go/aws/request"
	awss3 "github.com/aws/aws-sdk-go/service/s3"
	"github.com/aws/aws-sdk-go/service/s3/s3iface"
	"github.com/cenkalti/backoff/v4"
	"github.com/cevaris/ordered_map"
	"github.com/sirupsen/logrus"
)

// ---------- cases ----------

type smsg struct {
	Json string `json:"json"`
	Lsn  uint64 `json:"lsn"`
}

type stime struct {
	Clock []int    `json:"clock,omitempty"` // Y M D h mi s  -> formatted like utils.RealTime
	Raw   []string `json:"raw,omitempty"`   // year month day hour full, verbatim
}

type sbatch struct {
	Msgs   []smsg `json:"msgs"`
	Time   stime  `json:"time"`
	Cancel string `json:"cancel,omitempty"` // "", "recv", "check", "upload"
	Script []int  `json:"script"`           // n >= 0: read n bytes then fail; -1: succeed
}

type scase struct {
	Mode     string   `json:"mode"`
	Ctor     string   `json:"ctor,omitempty"` // "" = NewTransporterWithInterface, "production" = NewTransporter + SDK + http
	KeySpace string   `json:"key_space"`
	MaxReuse int      `json:"buf_max_reuse"`
	Retries  uint64   `json:"max_retries"`
	Batches  []sbatch `json:"batches"`
}

const (
	ctorProduction = "production"
	bucketName     = "bucket"
)

// cleanStable: the key component keeps its spelling under path.Clean.  last: the component is
// followed by "_<lsn>.gz", so its last segment is never special.
func cleanStable(comp string, last bool) bool {
	comp = strings.Trim(comp, "/")
	if comp == "" {
		return true // omitted by key_join
	}
	segs := strings.Split(comp, "/")
	if last {
		segs = segs[:len(segs)-1]
	}
	for _, g := range segs {
		if g == "" || g == "." || g == ".." {
			return false
		}
	}
	return true
}

// wireReason says why a generated case stays on the test constructor ("" = it can go over the wire).
func wireReason(c scase) string {
	for _, b := range c.Batches {
		if b.Cancel == "check" || b.Cancel == "upload" {
			return "cancel-" + b.Cancel + ":real-client-honours-ctx"
		}
	}
	if !cleanStable(c.KeySpace, false) {
		return "key-rewritten-by-sdk-uri-cleaning"
	}
	for _, b := range c.Batches {
		t := b.Time.strings()
		for i, comp := range t {
			if i == 4 {
				comp = strings.TrimLeft(comp, "/") + "_0"
			}
			if !cleanStable(comp, i == 4) {
				return "key-rewritten-by-sdk-uri-cleaning"
			}
		}
	}
	return ""
}

// formatClock is utils.RealTime.DateString with time.Now() replaced by the given instant.
func formatClock(c []int) [5]string {
	now := time.Date(c[0], time.Month(c[1]), c[2], c[3], c[4], c[5], 0, time.UTC)
	return formatTime(now)
}

func formatTime(now time.Time) [5]string {
	norm := func(i int) string {
		if i < 10 {
			return fmt.Sprintf("0%d", i)
		}
		return strconv.Itoa(i)
	}
	y, m, d := now.Date()
	return [5]string{strconv.Itoa(y), norm(int(m)), norm(d), norm(now.Hour()), now.Format("20060102150405")}
}

func (t stime) strings() [5]string {
	if len(t.Clock) == 6 {
		return formatClock(t.Clock)
	}
	var r [5]string
	copy(r[:], t.Raw)
	return r
}

// realTimeDisagreement checks that formatTime is what the real RealTime.DateString prints (the real one
// cannot be given an instant, so it is asked for "now" between two readings of the same second) in
// several host time zones: the partition components <yyyy>/<mm>/<dd>/<hh> and the 14-digit stamp must
// describe the same local second whatever the zone is.  Returns "" or a description of the difference.
func realTimeDisagreement() string {
	saved := time.Local
	defer func() { time.Local = saved }()
	zones := []*time.Location{time.UTC, time.FixedZone("plus2", 2*3600), time.FixedZone("minus8", -8*3600),
		time.FixedZone("plus0530", 5*3600+1800), time.FixedZone("plus13", 13*3600)}
	for _, z := range zones {
		time.Local = z
		ok := false
		for i := 0; i < 50 && !ok; i++ {
			a := time.Now()
			y, m, d, h, f := utils.RealTime{}.DateString()
			b := time.Now()
			if a.Unix() != b.Unix() {
				continue
			}
			ok = true
			if want, got := formatTime(a), [5]string{y, m, d, h, f}; want != got {
				return fmt.Sprintf("host zone %s: RealTime.DateString() = %v, the key format needs %v (year, month, day, hour and stamp of one local instant)", z, got, want)
			}
		}
	}
	return ""
}

// ---------- observations ----------

type attObs struct {
	Key      string
	Off      int
	Body     []byte // whole underlying array (ReadAt), for comparison only
	Read     []byte // what the sink consumed
	Ok       bool
	Bucket   string
	Encoding string
	BodyText string // gunzip(Body)
	BodyErr  string
	ReadText string // gunzip(Read) on success
	ReadErr  string
}

type batchObs struct {
	Outcome string // written, uploaded-not-reported, retries-exhausted, panic
	Used    int64
	Buf, Gz int
	Atts    []attObs
	DSCalls int
}

type runObs struct {
	Batches    []batchObs
	Terminated bool // CancelFunc was called and txnsWritten closed
	Stats      map[string]int64
	Infra      string // production case whose HTTP plumbing failed: dropped, never reported
}

// ---------- fakes ----------

type fakeEnv struct {
	mu        sync.Mutex
	infra     string // first infrastructure problem seen by the wire handler
	cancel    context.CancelFunc
	cur       *sbatch
	atts      []attObs
	scriptPos int
	unixCalls int
	dsCalls   int
	clock     int64
}

func (e *fakeEnv) UnixNano() int64 {
	e.mu.Lock()
	defer e.mu.Unlock()
	e.unixCalls++
	if e.unixCalls == 1 && e.cur != nil && e.cur.Cancel == "check" {
		e.cancel()
	}
	e.clock += 1000000
	return e.clock
}

func (e *fakeEnv) DateString() (string, string, string, string, string) {
	e.mu.Lock()
	defer e.mu.Unlock()
	e.dsCalls++
	if e.cur == nil {
		return "", "", "", "", ""
	}
	s := e.cur.Time.strings()
	return s[0], s[1], s[2], s[3], s[4]
}

type fakeS3 struct {
	s3iface.S3API
	env *fakeEnv
}

func gunzipAll(b []byte) (string, string) {
	zr, err := gzip.NewReader(bytes.NewReader(b))
	if err != nil {
		return "", err.Error()
	}
	out, err := io.ReadAll(zr)
	if err != nil {
		return string(out), err.Error()
	}
	return string(out), ""
}

func deref(p *string) string {
	if p == nil {
		return "<nil>"
	}
	return *p
}

func (f *fakeS3) PutObjectWithContext(ctx context.Context, in *awss3.PutObjectInput, _ ...request.Option) (*awss3.PutObjectOutput, error) {
	e := f.env
	e.mu.Lock()
	defer e.mu.Unlock()
	a := attObs{Key: deref(in.Key), Bucket: deref(in.Bucket), Encoding: deref(in.ContentEncoding), Off: -1}
	if br, ok := in.Body.(*bytes.Reader); ok {
		a.Off = int(br.Size()) - br.Len()
		a.Body = make([]byte, br.Size())
		_, _ = br.ReadAt(a.Body, 0)
		a.BodyText, a.BodyErr = gunzipAll(a.Body)
	}
	if e.cur != nil && e.cur.Cancel == "upload" && len(e.atts) == 0 {
		e.cancel()
	}
	step := -1
	if e.cur != nil && e.scriptPos < len(e.cur.Script) {
		step = e.cur.Script[e.scriptPos]
	}
	e.scriptPos++
	if step >= 0 {
		buf := make([]byte, step)
		k, _ := io.ReadFull(in.Body, buf)
		a.Read = buf[:k]
		e.atts = append(e.atts, a)
		return nil, errors.New("scripted PutObject failure")
	}
	a.Read, _ = io.ReadAll(in.Body)
	a.Ok = true
	a.ReadText, a.ReadErr = gunzipAll(a.Read)
	e.atts = append(e.atts, a)
	return &awss3.PutObjectOutput{}, nil
}

// panicHook notes that shutdown() recovered a panic (level Warn, "Recovered in S3Transporter ...").
// On the wire path it also looks at the error the worker logs for a failed attempt: anything but
// the scripted failure is plumbing.
type panicHook struct {
	mu    sync.Mutex
	seen  bool
	wire  bool
	infra string
}

const scriptedFailure = "scripted PutObject failure"

func (h *panicHook) Levels() []logrus.Level {
	return []logrus.Level{logrus.WarnLevel, logrus.ErrorLevel}
}
func (h *panicHook) Fire(e *logrus.Entry) error {
	if strings.HasPrefix(e.Message, "Recovered in S3Transporter") {
		h.mu.Lock()
		h.seen = true
		h.mu.Unlock()
	}
	if h.wire && strings.HasSuffix(e.Message, "failed to be uploaded to S3") {
		// (a POSITIVE list of plumbing failures: any other error the worker reports for an attempt - also
		// one it has mangled itself - is behaviour of the code under test and stays in the case)
		if err, ok := e.Data[logrus.ErrorKey].(error); ok && !strings.Contains(err.Error(), scriptedFailure) {
			for _, plumbing := range []string{"RequestError", "SerializationError", "connection refused", "connection reset", "dial tcp", "EOF", "NoCredentialProviders", "i/o timeout"} {
				if strings.Contains(err.Error(), plumbing) {
					h.mu.Lock()
					if h.infra == "" {
						h.infra = "the worker saw an unscripted error: " + strings.SplitN(err.Error(), "\n", 2)[0]
					}
					h.mu.Unlock()
					break
				}
			}
		}
	}
	return nil
}

// ---------- the wire: just enough of S3 for PutObject ----------

var prodEnvOnce sync.Once

// prodEnv keeps the SDK's session from looking anywhere outside the process.
func prodEnv() {
	prodEnvOnce.Do(func() {
		os.Setenv("AWS_EC2_METADATA_DISABLED", "true")
		os.Setenv("AWS_SHARED_CREDENTIALS_FILE", os.DevNull)
		os.Setenv("AWS_CONFIG_FILE", os.DevNull)
		for _, k := range []string{"AWS_SDK_LOAD_CONFIG", "AWS_PROFILE", "AWS_DEFAULT_PROFILE", "AWS_CA_BUNDLE", "AWS_ROLE_ARN", "AWS_WEB_IDENTITY_TOKEN_FILE", "AWS_S3_USE_ARN_REGION"} {
			os.Unsetenv(k)
		}
	})
}

// s3Wire delegates every PUT /<bucket>/<key> to the scripted fake.
type s3Wire struct{ fk *fakeS3 }

func (h s3Wire) ServeHTTP(w http.ResponseWriter, r *http.Request) {
	e := h.fk.env
	fail := func(why string) {
		e.mu.Lock()
		if e.infra == "" {
			e.infra = why
		}
		e.mu.Unlock()
		http.Error(w, "harness: "+why, http.StatusBadRequest)
	}
	body, err := io.ReadAll(r.Body)
	if err != nil {
		fail("request body: " + err.Error())
		return
	}
	p := r.URL.Path
	if r.Method != http.MethodPut || !strings.HasPrefix(p, "/") {
		fail(fmt.Sprintf("unexpected request %s %q", r.Method, p))
		return
	}
	bucket, key := p[1:], ""
	if i := strings.IndexByte(bucket, '/'); i >= 0 {
		bucket, key = bucket[:i], bucket[i+1:]
	}
	in := &awss3.PutObjectInput{Bucket: &bucket, Key: &key, Body: bytes.NewReader(body)}
	if v := r.Header.Values("Content-Encoding"); len(v) > 0 {
		in.ContentEncoding = &v[0]
	}
	if _, ferr := h.fk.PutObjectWithContext(r.Context(), in); ferr != nil {
		doc := `<?xml version="1.0" encoding="UTF-8"?>` + "\n" + `<Error><Code>InternalError</Code><Message>` + ferr.Error() + `</Message><RequestId>harness</RequestId><HostId>harness</HostId></Error>`
		w.Header().Set("Content-Type", "application/xml")
		w.Header().Set("Content-Length", strconv.Itoa(len(doc)))
		w.WriteHeader(http.StatusInternalServerError)
		_, _ = io.WriteString(w, doc)
		return
	}
	w.Header().Set("ETag", `"harness"`)
	w.Header().Set("Content-Length", "0")
	w.WriteHeader(http.StatusOK)
}

// ---------- driver ----------

const waitLimit = 10 * time.Second

type identities struct {
	keep []unsafe.Pointer // keeps every buffer/writer seen alive so that addresses are never reused
	ids  map[unsafe.Pointer]int
}

func (m *identities) id(p unsafe.Pointer) int {
	if v, ok := m.ids[p]; ok {
		return v
	}
	v := len(m.ids)
	m.ids[p] = v
	m.keep = append(m.keep, p)
	return v
}

// runImpl sends the case's batches through one real transporter.
func runImpl(c scase) runObs {
	env := &fakeEnv{}
	sh := shutdown.NewShutdownHandler()
	env.cancel = sh.CancelFunc
	in := make(chan transport.Batch)
	txns := make(chan *ordered_map.OrderedMap)
	statsChan := make(chan stats.Stat)
	lg := logrus.New()
	lg.SetOutput(io.Discard)
	lg.SetLevel(logrus.WarnLevel)
	hook := &panicHook{}
	lg.AddHook(hook)

	old := transporter.TimeSource
	transporter.TimeSource = env
	defer func() { transporter.TimeSource = old }()

	fk := &fakeS3{env: env}
	policy := backoff.WithMaxRetries(&backoff.ZeroBackOff{}, c.Retries)
	var tp transport.Transporter
	if c.Ctor == ctorProduction {
		prodEnv()
		hook.wire = true
		srv := httptest.NewServer(s3Wire{fk})
		defer srv.Close()
		region, keyID, secret, endpoint := "us-east-1", "AKIDHARNESS", "harness-secret", srv.URL
		err := func() (err error) {
			defer func() {
				if r := recover(); r != nil { // session.Must
					err = fmt.Errorf("%v", r)
				}
			}()
			tp = transporter.NewTransporter(sh, in, txns, statsChan, *logrus.NewEntry(lg), 0,
				bucketName, c.KeySpace, policy, &region, &keyID, &secret, &endpoint, c.MaxReuse)
			return nil
		}()
		if err != nil {
			return runObs{Stats: map[string]int64{}, Infra: "the constructor failed: " + err.Error()}
		}
	} else {
		tp = transporter.NewTransporterWithInterface(sh, in, txns, statsChan, *logrus.NewEntry(lg), 0,
			bucketName, c.KeySpace, fk, policy, c.MaxReuse)
	}

	// unexported worker state, read only while the worker goroutine is parked or gone
	// (through the verif hook VerifBufferState, not by reflection on field names: a rename in the
	// transporter is then followed by the hook file like any other reference)
	bufs := &identities{ids: map[unsafe.Pointer]int{}}
	gzs := &identities{ids: map[unsafe.Pointer]int{}}
	state := func() (int64, int, int) {
		used, buf, gz := tp.(*transporter.S3Transporter).VerifBufferState()
		return int64(used), bufs.id(unsafe.Pointer(buf)), gzs.id(unsafe.Pointer(gz))
	}
	state()

	obs := runObs{Stats: map[string]int64{}}
	var smu sync.Mutex
	drained := make(chan struct{})
	stopDrain := make(chan struct{})
	go func() {
		defer close(drained)
		for {
			select {
			case s := <-statsChan:
				smu.Lock()
				obs.Stats[s.StatName] += s.Value
				smu.Unlock()
			case <-stopDrain:
				return
			}
		}
	}()

	done := make(chan struct{})
	go func() { defer close(done); tp.StartTransporting() }()

	closed := false
	waitClosed := func() {
		for !closed {
			select {
			case _, ok := <-txns:
				if !ok {
					closed = true
				}
			case <-time.After(waitLimit):
				panic("S3 harness: transporter did not terminate")
			}
		}
	}

	for i := range c.Batches {
		b := &c.Batches[i]
		if b.Cancel == "recv" {
			sh.CancelFunc()
			break
		}
		env.mu.Lock()
		env.cur, env.atts, env.scriptPos, env.unixCalls, env.dsCalls = b, nil, 0, 0, 0
		env.mu.Unlock()
		gb := batch.NewGenericBatch("", len(b.Msgs)+1)
		for j, m := range b.Msgs {
			ok, err := gb.Add(&marshaller.MarshalledMessage{Operation: "INSERT", Table: "public.t", Json: []byte(m.Json),
				TimeBasedKey: fmt.Sprintf("%d-%d", i, j/2), WalStart: m.Lsn, Transaction: fmt.Sprintf("%d", i)})
			if !ok || err != nil {
				panic("S3 harness: GenericBatch.Add refused a message")
			}
		}
		_, _ = gb.Close()
		select {
		case in <- gb:
		case <-time.After(waitLimit):
			panic("S3 harness: transporter does not receive")
		}
		reported := false
		select {
		case m, ok := <-txns:
			if !ok {
				closed = true
			} else {
				reported = true
				if m != gb.GetTransactions() {
					panic("S3 harness: written report is not this batch's transaction map")
				}
			}
		case <-time.After(waitLimit):
			panic("S3 harness: neither a written report nor termination")
		}
		if !reported {
			<-done
		}
		env.mu.Lock()
		bo := batchObs{Atts: env.atts, DSCalls: env.dsCalls}
		env.mu.Unlock()
		bo.Used, bo.Buf, bo.Gz = state()
		hook.mu.Lock()
		pan := hook.seen
		hook.mu.Unlock()
		switch {
		case reported:
			bo.Outcome = "written"
		case pan:
			bo.Outcome = "panic"
		case len(bo.Atts) > 0 && bo.Atts[len(bo.Atts)-1].Ok:
			bo.Outcome = "uploaded-not-reported"
		default:
			bo.Outcome = "retries-exhausted"
		}
		obs.Batches = append(obs.Batches, bo)
		if closed {
			break
		}
		if b.Cancel != "" {
			break // the context is cancelled: the worker is on its way out
		}
	}
	if !closed {
		if sh.TerminateCtx.Err() == nil {
			close(in)
		}
		waitClosed()
	}
	select {
	case <-done:
	case <-time.After(waitLimit):
		panic("S3 harness: StartTransporting did not return")
	}
	close(stopDrain)
	<-drained
	obs.Terminated = sh.TerminateCtx.Err() != nil && closed
	env.mu.Lock()
	obs.Infra = env.infra
	env.mu.Unlock()
	hook.mu.Lock()
	if obs.Infra == "" {
		obs.Infra = hook.infra
	}
	hook.mu.Unlock()
	return obs
}

// sdkKeyProbe measures, on the production constructor, what becomes of a key with an empty or
// ".." segment inside a component.  Returns a sentence for rep.Notes.
func sdkKeyProbe() string {
	probe := func(ks string) (bucket, key string, ok bool) {
		o := runImpl(scase{Mode: "probe", Ctor: ctorProduction, KeySpace: ks, MaxReuse: 0, Retries: 0, Batches: []sbatch{{
			Msgs: []smsg{{Json: "{}", Lsn: 7}}, Time: stime{Clock: []int{2020, 1, 2, 3, 4, 5}}, Script: []int{-1}}}})
		if o.Infra != "" || len(o.Batches) != 1 || len(o.Batches[0].Atts) != 1 {
			return "", "", false
		}
		return o.Batches[0].Atts[0].Bucket, o.Batches[0].Atts[0].Key, true
	}
	b1, k1, ok1 := probe("a//b")
	b2, k2, ok2 := probe("../x")
	if !ok1 || !ok2 {
		return "production constructor, key probe: inconclusive"
	}
	t := formatClock([]int{2020, 1, 2, 3, 4, 5})
	return fmt.Sprintf("production constructor, key probe: with key space \"a//b\" key_join gives %q and the object was PUT to bucket %q key %q; with key space \"../x\" key_join gives %q and the object was PUT to bucket %q key %q (the worker is configured with bucket %q). NewTransporter leaves aws.Config.DisableRestProtocolURICleaning unset, so the SDK applies path.Clean to /<bucket>/<key>: the key C12 speaks of (and the fake of the test constructor sees) is not always the key of the stored object. Generated cases whose key would be rewritten stay on the test constructor.",
		specKey("a//b", t, 7), b1, k1, specKey("../x", t, 7), b2, k2, bucketName)
}

// ---------- Gallina ----------

func plainOf(ms []smsg) string {
	var sb strings.Builder
	for _, m := range ms {
		sb.WriteString(m.Json)
		sb.WriteString("\n")
	}
	return sb.String()
}

func gTime(s [5]string) string {
	return fmt.Sprintf("(mkT %s %s %s %s %s)", gStr(s[0]), gStr(s[1]), gStr(s[2]), gStr(s[3]), gStr(s[4]))
}

// gStr writes printable ASCII as a plain Coq literal (a double quote is doubled) and anything
// else through core.GStr (hex): JSON records stay readable and half as long.
func gStr(s string) string {
	for i := 0; i < len(s); i++ {
		if s[i] < 0x20 || s[i] > 0x7e {
			return core.GStr(s)
		}
	}
	return "\"" + strings.ReplaceAll(s, "\"", "\"\"") + "\""
}

// gBytes writes binary data as a concatenation of hex runs and (longer) printable runs.
func gBytes(s string) string {
	printable := func(c byte) bool { return c >= 0x20 && c <= 0x7e }
	var parts []string
	i := 0
	for i < len(s) {
		j := i
		for j < len(s) && printable(s[j]) {
			j++
		}
		if j-i >= 8 { // a printable run worth a literal of its own
			parts = append(parts, gStr(s[i:j]))
			i = j
			continue
		}
		// binary run: up to the start of the next printable run of length >= 8
		k := i
		for k < len(s) {
			if printable(s[k]) {
				e := k
				for e < len(s) && printable(s[e]) {
					e++
				}
				if e-k >= 8 {
					break
				}
				k = e
			} else {
				k++
			}
		}
		parts = append(parts, core.GStr(s[i:k]))
		i = k
	}
	if len(parts) == 0 {
		return "\"\""
	}
	if len(parts) == 1 {
		return parts[0]
	}
	return "(" + strings.Join(parts, " ++ ") + ")%string"
}

// caseGallina returns the case term: local definitions (let) of the record list, time and key of
// every batch and of every distinct body, then the tuple that refers to them, so that each long
// literal is parsed once.  No ";\n" inside (core shards the file on it).
func caseGallina(c scase, o runObs) string {
	var defs strings.Builder
	bs := make([]string, len(c.Batches))
	msgName := make([]string, len(c.Batches))
	var clocks []string
	for i, b := range c.Batches {
		ms := make([]string, len(b.Msgs))
		for j, m := range b.Msgs {
			ms[j] = fmt.Sprintf("mkMsg %s %s", gStr(m.Json), core.GN(m.Lsn))
		}
		msgName[i] = fmt.Sprintf("m%d", i)
		fmt.Fprintf(&defs, "let %s : list msg := %s in ", msgName[i], core.GList(ms))
		cn := map[string]string{"": "CNone", "recv": "CBeforeRecv", "check": "CBeforeCheck", "upload": "CDuringUpload"}[b.Cancel]
		sc := make([]string, len(b.Script))
		for j, n := range b.Script {
			if n < 0 {
				sc[j] = "SOk"
			} else {
				sc[j] = "SFail " + core.GN(uint64(n))
			}
		}
		tn := fmt.Sprintf("t%d", i)
		fmt.Fprintf(&defs, "let %s : tstamp := %s in ", tn, gTime(b.Time.strings()))
		bs[i] = fmt.Sprintf("mkB %s %s %s %s", msgName[i], tn, cn, core.GList(sc))
		if len(b.Time.Clock) == 6 {
			k := b.Time.Clock
			clocks = append(clocks, core.GTuple(core.GTuple(core.GN(uint64(k[0])), core.GN(uint64(k[1])), core.GN(uint64(k[2])),
				core.GN(uint64(k[3])), core.GN(uint64(k[4])), core.GN(uint64(k[5]))), tn))
		}
	}
	var tbl, res, texts []string
	bodyName := map[string]string{}
	seen := map[string]bool{}
	for i, bo := range o.Batches {
		as := make([]string, len(bo.Atts))
		text := ""
		keyName := map[string]string{}
		for j, a := range bo.Atts {
			kn, ok := keyName[a.Key]
			if !ok {
				kn = fmt.Sprintf("k%d_%d", i, len(keyName))
				keyName[a.Key] = kn
				fmt.Fprintf(&defs, "let %s : string := %s in ", kn, gStr(a.Key))
			}
			bn, ok := bodyName[string(a.Body)]
			if !ok {
				bn = fmt.Sprintf("z%d", len(bodyName))
				bodyName[string(a.Body)] = bn
				fmt.Fprintf(&defs, "let %s : string := %s in ", bn, gBytes(string(a.Body)))
			}
			// the gzip oracle of the case: (what the model says was written, the body pgzip produced)
			if k := msgName[i] + " " + bn; !seen[k] {
				seen[k] = true
				tbl = append(tbl, core.GTuple("plain "+msgName[i], bn))
			}
			off := a.Off
			if off < 0 {
				off = 9999 // Body was not a *bytes.Reader: cannot agree with the model
			}
			rd := core.GStr(string(a.Read))
			if bytes.HasPrefix(a.Body, a.Read) { // the same bytes, written as a prefix of the body literal
				rd = fmt.Sprintf("(stake %d %s)", len(a.Read), bn)
			}
			as[j] = fmt.Sprintf("mkAtt %s %s %s %s %s", kn, core.GNat(off), bn, rd, core.GBool(a.Ok))
			if a.Ok {
				text = a.ReadText
				if a.ReadErr != "" {
					text = "<gunzip error: " + a.ReadErr + ">"
				}
			}
		}
		oc := map[string]string{"written": "Written", "uploaded-not-reported": "UploadedNotReported",
			"retries-exhausted": "RetriesExhausted", "panic": "PanicEmptyBatch"}[bo.Outcome]
		res = append(res, fmt.Sprintf("mkRes %s %s %s %s %s", oc, core.GZ(bo.Used), core.GN(uint64(bo.Buf)), core.GN(uint64(bo.Gz)), core.GList(as)))
		texts = append(texts, gBytes(text)) // literal: what compress/gzip returned for the consumed bytes
	}
	return "(" + defs.String() + core.GTuple(gStr(c.KeySpace), core.GZ(int64(c.MaxReuse)), core.GN(c.Retries), core.GList(bs),
		core.GList(tbl), core.GList(res), core.GList(texts), core.GList(clocks)) + ")"
}

// ---------- monitor: C12 stated on the implementation's trace, independent of the model ----------

func slashOnly(s string) bool { return strings.Trim(s, "/") == "" }

// specKey is the key as the property text gives it: components stripped of surrounding slashes,
// empty or slash-only components omitted, joined by "/", then ".gz".
func specKey(ks string, t [5]string, lsn uint64) string {
	var parts []string
	for _, p := range []string{ks, t[0], t[1], t[2], t[3], fmt.Sprintf("%s_%d", t[4], lsn)} {
		if slashOnly(p) {
			continue
		}
		parts = append(parts, strings.Trim(p, "/"))
	}
	return strings.Join(parts, "/") + ".gz"
}

func linesOf(text string) ([]string, bool) {
	if text == "" {
		return nil, true
	}
	if !strings.HasSuffix(text, "\n") {
		return nil, false
	}
	return strings.Split(strings.TrimSuffix(text, "\n"), "\n"), true
}

func recordsMatch(text string, ms []smsg) bool {
	if text != plainOf(ms) {
		return false
	}
	for _, m := range ms {
		if strings.Contains(m.Json, "\n") {
			return true // "one per line" is not meaningful for a record holding a raw newline
		}
	}
	ls, ok := linesOf(text)
	if !ok || len(ls) != len(ms) {
		return false
	}
	for i := range ls {
		if ls[i] != ms[i].Json {
			return false
		}
	}
	return true
}

func monitor(c scase, o runObs) []core.Violation {
	var vs []core.Violation
	add := func(sig, what string) {
		vs = append(vs, core.Violation{Property: "C12", Signature: sig, What: what, Case: c})
		if sig == "written-without-complete-object" {
			// the same history under C01: what this worker reports written is what the ledger counts and the
			// client acknowledges; a report without the records in the sink is an acknowledgement without them
			vs = append(vs, core.Violation{Property: "C01", Signature: "s3/" + sig, What: what, Case: c})
		}
	}
	type wk struct {
		full string
		lsn  uint64
	}
	keys := map[string]wk{}
	for i, bo := range o.Batches {
		b := c.Batches[i]
		okAtt := -1
		for j, a := range bo.Atts {
			if a.Off != 0 {
				add("attempt-offset-nonzero", fmt.Sprintf("batch %d attempt %d: PutObject was handed a reader at offset %d", i, j, a.Off))
			}
			if a.BodyErr != "" || !recordsMatch(a.BodyText, b.Msgs) {
				add("attempt-body-not-this-batch", fmt.Sprintf("batch %d attempt %d: the offered body does not gunzip to exactly this batch's records (%q %s)", i, j, a.BodyText, a.BodyErr))
			}
			if !bytes.HasPrefix(a.Body, a.Read) {
				add("attempt-read-not-prefix", fmt.Sprintf("batch %d attempt %d: the bytes the sink read are not a prefix of the body", i, j))
			}
			if a.Key != bo.Atts[0].Key {
				add("key-changes-between-attempts", fmt.Sprintf("batch %d attempt %d: key %q, first attempt used %q", i, j, a.Key, bo.Atts[0].Key))
			}
			if a.Encoding != "gzip" || a.Bucket != bucketName {
				add("request-fields", fmt.Sprintf("batch %d attempt %d: bucket %q encoding %q", i, j, a.Bucket, a.Encoding))
			}
			if a.Ok && okAtt < 0 && a.ReadErr == "" && recordsMatch(a.ReadText, b.Msgs) {
				okAtt = j
			}
		}
		if uint64(len(bo.Atts)) > c.Retries+1 {
			add("retry-budget", fmt.Sprintf("batch %d: %d attempts with max retries %d", i, len(bo.Atts), c.Retries))
		}
		if bo.Outcome != "written" {
			continue
		}
		if okAtt < 0 {
			add("written-without-complete-object", fmt.Sprintf("batch %d reported written but no successful PutObject consumed a body that gunzips to exactly its records in order", i))
			continue
		}
		if len(b.Msgs) == 0 || len(b.Time.Clock) != 6 {
			continue
		}
		t := b.Time.strings()
		key := bo.Atts[okAtt].Key
		if want := specKey(c.KeySpace, t, b.Msgs[0].Lsn); key != want {
			sig := "key-format/other"
			if slashOnly(c.KeySpace) && len(c.KeySpace) >= 2 {
				sig = "key-format/slash-only-key-space-not-omitted"
			}
			add(sig, fmt.Sprintf("batch %d: key space %q gives key %q, the stated format gives %q", i, c.KeySpace, key, want))
		}
		if prev, dup := keys[key]; dup && (prev.full != t[4] || prev.lsn != b.Msgs[0].Lsn) {
			add("key-collision", fmt.Sprintf("batch %d: key %q already used by a batch with upload second %s first LSN %d (this: %s, %d)", i, key, prev.full, prev.lsn, t[4], b.Msgs[0].Lsn))
		}
		keys[key] = wk{t[4], b.Msgs[0].Lsn}
	}
	if !o.Terminated {
		add("not-terminated", "the worker returned without cancelling the shutdown context / closing txnsWritten")
	}
	return vs
}

// ---------- generator ----------

var keySpaces = []string{"", "/", "//", "a", "/a/", "a/b//", "///x"}
var keySpacesExtra = []string{"////", "a//b", "prod/wal", "/x/y/", " ", "/ /", "a/", "/b", ".", "//a//b//"}

func genJSON(rng *rand.Rand, lsn uint64) string {
	vals := []string{"1", "\"x\"", "null", "\"caf\u00e9\"", "\"a b\"", "\"\\n\"", "\"/\"", "12345678901234567890", "\"\""}
	n := rng.Intn(3)
	cols := make([]string, n)
	for i := range cols {
		cols[i] = fmt.Sprintf("\"c%d\":%s", i, vals[rng.Intn(len(vals))])
	}
	return fmt.Sprintf("{\"lsn\":\"%X/%X\",\"op\":\"%s\",\"c\":{%s}}", lsn>>32, lsn&0xffffffff,
		[]string{"I", "U", "D"}[rng.Intn(3)], strings.Join(cols, ","))
}

func genCase(rng *rand.Rand) scase {
	c := scase{Mode: "valid"}
	adversarial := rng.Intn(10) == 0
	if adversarial {
		c.Mode = "adversarial"
	}
	switch r := rng.Intn(10); {
	case r < 8:
		c.KeySpace = keySpaces[rng.Intn(len(keySpaces))]
	case r < 9:
		c.KeySpace = keySpacesExtra[rng.Intn(len(keySpacesExtra))]
	default:
		n := rng.Intn(6)
		bs := make([]byte, n)
		for i := range bs {
			bs[i] = "ab/./-/"[rng.Intn(7)]
		}
		c.KeySpace = string(bs)
	}
	c.MaxReuse = []int{0, 1, 2, 5}[rng.Intn(4)]
	if rng.Intn(12) == 0 {
		c.MaxReuse = []int{-1, 3, 4}[rng.Intn(3)]
	}
	c.Retries = []uint64{0, 1, 2, 2, 3, 5}[rng.Intn(6)]
	nb := 1 + rng.Intn(3) + rng.Intn(3) // 1..5
	clock := []int{1 + rng.Intn(9999), 1 + rng.Intn(12), 1 + rng.Intn(28), rng.Intn(24), rng.Intn(60), rng.Intn(60)}
	if rng.Intn(3) > 0 {
		clock[0] = 2019 + rng.Intn(12)
	}
	lsn := uint64(rng.Intn(1 << 20))
	if rng.Intn(8) == 0 {
		lsn = ^uint64(0) - uint64(rng.Intn(40))
	}
	cancelAt := -1
	if rng.Intn(6) == 0 {
		cancelAt = rng.Intn(nb)
	}
	for i := 0; i < nb; i++ {
		var b sbatch
		nm := 1 + rng.Intn(3)
		if rng.Intn(40) == 0 {
			nm = 0
		}
		for j := 0; j < nm; j++ {
			js := genJSON(rng, lsn)
			if adversarial {
				switch rng.Intn(4) {
				case 0:
					js = ""
				case 1:
					js = "line1\nline2"
				case 2:
					js = "\x1f\x08\x00{"
				}
			}
			b.Msgs = append(b.Msgs, smsg{Json: js, Lsn: lsn})
			if rng.Intn(5) > 0 && lsn != ^uint64(0) {
				lsn += uint64(rng.Intn(300))
				if lsn < 300 {
					lsn = ^uint64(0)
				}
			}
		}
		if adversarial && rng.Intn(2) == 0 {
			raw := []string{"", "/", "//", "2026", "/09/", "x/y", "20260930120000"}
			b.Time.Raw = []string{raw[rng.Intn(len(raw))], raw[rng.Intn(len(raw))], raw[rng.Intn(len(raw))], raw[rng.Intn(len(raw))], raw[rng.Intn(len(raw))]}
		} else {
			b.Time.Clock = append([]int(nil), clock...)
		}
		// upload second advances by 0, 1 or many seconds between batches
		switch rng.Intn(4) {
		case 1:
			clock[5]++
		case 2:
			clock[5] += 1 + rng.Intn(7000)
		case 3:
			// the next upload of this worker falls into the SAME hour (or minute) of another day, month or year:
			// whatever the worker keeps from one upload to the next, each component of the key is today's
			switch rng.Intn(4) {
			case 0:
				clock[2] += 1 + rng.Intn(3)
			case 1:
				clock[1] += 1 + rng.Intn(3)
			case 2:
				clock[0]++
			default:
				clock[2]++
				clock[4] += rng.Intn(3)
			}
		}
		nt := time.Date(clock[0], time.Month(clock[1]), clock[2], clock[3], clock[4], clock[5], 0, time.UTC)
		if nt.Year() > 9999 {
			nt = time.Date(9999, 12, 31, 23, 59, 59, 0, time.UTC)
		}
		clock = []int{nt.Year(), int(nt.Month()), nt.Day(), nt.Hour(), nt.Minute(), nt.Second()}
		// failures: mostly none or few, sometimes more than the budget
		nf := 0
		switch r := rng.Intn(10); {
		case r < 4:
		case r < 8:
			nf = 1 + rng.Intn(int(c.Retries)+1)
			if nf > int(c.Retries) && rng.Intn(3) > 0 {
				nf = int(c.Retries)
			}
		default:
			nf = rng.Intn(int(c.Retries) + 3)
		}
		for k := 0; k < nf; k++ {
			b.Script = append(b.Script, []int{0, 1, 2, 9, 10, 11, 18, 25, 40, 64, 90, 200, 1000}[rng.Intn(13)])
		}
		if rng.Intn(2) == 0 {
			b.Script = append(b.Script, -1)
		}
		if i == cancelAt {
			b.Cancel = []string{"recv", "check", "check", "upload", "upload"}[rng.Intn(5)]
		}
		c.Batches = append(c.Batches, b)
	}
	return c
}

func loadCorpus(dir string) []scase {
	var out []scase
	files, _ := filepath.Glob(filepath.Join(dir, "S3", "*.json"))
	sort.Strings(files)
	for _, f := range files {
		b, err := os.ReadFile(f)
		if err != nil {
			continue
		}
		var c scase
		if err := json.Unmarshal(b, &c); err != nil {
			panic("S3 corpus " + f + ": " + err.Error())
		}
		c.Mode = "corpus:" + strings.TrimSuffix(filepath.Base(f), ".json")
		out = append(out, c)
	}
	return out
}

func validCase(c scase) string {
	if c.Ctor != "" && c.Ctor != ctorProduction {
		return fmt.Sprintf("unknown constructor %q", c.Ctor)
	}
	for i, b := range c.Batches {
		if len(b.Time.Clock) != 6 && len(b.Time.Raw) != 5 {
			return fmt.Sprintf("batch %d: time needs clock[6] or raw[5]", i)
		}
		switch b.Cancel {
		case "", "recv", "check", "upload":
		default:
			return fmt.Sprintf("batch %d: unknown cancel point %q", i, b.Cancel)
		}
	}
	return ""
}

func init() {
	core.Register(core.Component{Name: "S3", Replay: replay, Run: func(rng *rand.Rand, n int, corpusDir string, rep *core.Report) string {
		if d := realTimeDisagreement(); d != "" {
			// the production clock of the S3 key (every case below injects its own clock, which formats
			// like the real one is supposed to)
			rep.Violations = append(rep.Violations, core.Violation{Property: "C12", Signature: "key-format/real-time-source",
				What: d, Case: map[string]string{"mode": "real-time-source", "what": d}})
		}
		cases := loadCorpus(corpusDir)
		for i := 0; i < n; i++ {
			c := genCase(rng)
			if i%5 == 4 { // the production share: a function of the index, the PRNG stream is untouched
				if why := wireReason(c); why != "" {
					core.Bump(rep, "ctor-share:stays-on-test-constructor("+why+")")
				} else {
					c.Ctor = ctorProduction
				}
			}
			cases = append(cases, c)
		}
		rep.Notes = append(rep.Notes, sdkKeyProbe())
		rep.Rule = "constructors: every 5th generated case (20%) and the corpus cases that say so build their worker through transporter.NewTransporter (the production constructor: real aws-sdk-go session + S3 client with static dummy credentials, region us-east-1, and - set by the constructor itself - MaxRetries 0 and path-style addressing) instead of NewTransporterWithInterface; its endpoint is an httptest server of the harness that reads PUT /bucket/<key> completely, rebuilds the PutObjectInput and hands it to the SAME scripted fake (a scripted failure after n bytes reads n bytes of the received body and is answered with the S3 XML error InternalError, HTTP 500). SDK-level retries: HTTP 500 is retryable for the SDK's own retryer; that no second request is made is the constructor's MaxRetries 0, i.e. one worker attempt = one request = one fake call is itself under test (a constructor that loses the setting shows as attempts beyond the budget). Kept on the test constructor in the generated share: cancellation at 'check'/'upload' (the real client honours the context, the fake ignores it by contract) and key spaces / raw time strings with an empty, '.' or '..' segment inside a component (the SDK's REST URI cleaning rewrites such keys; see the key-probe note). A production case whose plumbing failed (unparsable request, unscripted client-side error such as a connection failure) is dropped and counted under ctor-share:dropped-infrastructure, never emitted or monitored. Then: corpus first, then seeded: 90% valid (JSON-like records without raw newline, clock-formatted upload times advancing by 0/1/many seconds or to the same hour of another day/month/year), 10% adversarial (empty / newline-holding / gzip-magic records, half of their batches with raw DateString strings incl. empty and slash-only); key space 80% from {\"\",/,//,a,/a/,a/b//,///x}, 10% further fixed spellings, 10% random over [ab/.-]; bufMaxReuse {0,1,2,5} (8%: -1,3,4); max retries {0,1,2,3,5}; 1-5 batches of 1-3 short records (2.5%: empty batch); per batch 0..retries+2 scripted failures reading 0..1000 bytes; 1/6 of cases cancel the context at one batch (before receive / before the worker's check / during upload). Non-trivial: at least 2 batches processed by one worker and (a retry after a partial read 0<n<len(body), or a non-written outcome); distinct by case."
		rep.Notes = append(rep.Notes, "utils.RealTime.DateString() agreed with the harness clock formatting at start-up")
		var sb strings.Builder
		sb.WriteString("From Bifrost.model Require Import Base S3.\nOpen Scope string_scope.\nDefinition cases : list s3case := [\n")
		distinct := map[string]bool{}
		timing := os.Getenv("VERIF_PRODCTOR_TIMING") != ""
		var wireTotal, wireMax time.Duration
		for i, c := range cases {
			if msg := validCase(c); msg != "" {
				panic("S3 harness: bad case " + c.Mode + ": " + msg)
			}
			t0 := time.Now()
			o := runImpl(c)
			if c.Ctor != "" {
				d := time.Since(t0)
				wireTotal += d
				if d > wireMax {
					wireMax = d
				}
			}
			if o.Infra != "" {
				// plumbing, not behaviour: the case is dropped (i is its position in the corpus+generated
				// sequence, not in the emitted list)
				core.Bump(rep, "ctor-share:dropped-infrastructure")
				rep.Notes = append(rep.Notes, fmt.Sprintf("DROPPED %s-constructor case (sequence position %d, mode %s): %s", c.Ctor, i, c.Mode, o.Infra))
				continue
			}
			if rep.Evaluations > 0 {
				sb.WriteString(";\n")
			}
			sb.WriteString(caseGallina(c, o))
			raw := core.RawJSON(c)
			rep.CaseIndex = append(rep.CaseIndex, raw)
			rep.Evaluations++
			core.Bump(rep, "mode:"+strings.SplitN(c.Mode, ":", 2)[0])
			if c.Ctor == ctorProduction {
				core.Bump(rep, "ctor:production(NewTransporter+SDK+http)")
				for _, bo := range o.Batches {
					rep.Distribution["ctor-share:requests-over-http"] += len(bo.Atts)
					for _, a := range bo.Atts {
						if !a.Ok {
							core.Bump(rep, "ctor-share:scripted-failures-answered-with-http-500")
						}
					}
				}
			} else {
				core.Bump(rep, "ctor:NewTransporterWithInterface")
			}
			core.Bump(rep, fmt.Sprintf("key_space:%q", c.KeySpace))
			core.Bump(rep, fmt.Sprintf("buf_max_reuse:%d", c.MaxReuse))
			core.Bump(rep, fmt.Sprintf("max_retries:%d", c.Retries))
			core.Bump(rep, fmt.Sprintf("batches_processed:%d", len(o.Batches)))
			partialRetry, nonWritten := false, false
			for bi, bo := range o.Batches {
				core.Bump(rep, "outcome:"+bo.Outcome)
				core.Bump(rep, fmt.Sprintf("attempts:%d", len(bo.Atts)))
				if c.Batches[bi].Cancel != "" {
					core.Bump(rep, "cancel:"+c.Batches[bi].Cancel)
				}
				if bo.Outcome != "written" {
					nonWritten = true
				}
				if bi > 0 {
					if bo.Buf != o.Batches[bi-1].Buf {
						core.Bump(rep, "buffer:recreated")
					} else {
						core.Bump(rep, "buffer:reused")
					}
				}
				for j, a := range bo.Atts {
					switch {
					case a.Ok:
						core.Bump(rep, "attempt:ok")
					case len(a.Read) == 0:
						core.Bump(rep, "attempt:fail-read-0")
					case len(a.Read) == len(a.Body):
						core.Bump(rep, "attempt:fail-read-all")
					default:
						core.Bump(rep, "attempt:fail-read-partial")
						if j+1 < len(bo.Atts) {
							partialRetry = true
						}
					}
				}
			}
			if len(o.Batches) < len(c.Batches) && c.Batches[len(o.Batches)].Cancel == "recv" {
				core.Bump(rep, "cancel:recv")
			}
			if len(o.Batches) >= 2 && (partialRetry || nonWritten) && !distinct[string(raw)] {
				rep.Nontrivial++
			}
			distinct[string(raw)] = true
			if len(rep.Samples) < 3 && len(o.Batches) >= 2 && partialRetry {
				rep.Samples = append(rep.Samples, c)
			}
			rep.Violations = append(rep.Violations, monitor(c, o)...)
		}
		if timing {
			fmt.Fprintf(os.Stderr, "S3 production cases: total %v, slowest %v\n", wireTotal, wireMax)
		}
		sb.WriteString("\n].\nDefinition M := Eval vm_compute in mismatches s3case_ok cases.\nPrint M.\n")
		return sb.String()
	}})
}

func replay(cs json.RawMessage) string {
	var c scase
	if err := json.Unmarshal(cs, &c); err != nil {
		return "bad case: " + err.Error()
	}
	if msg := validCase(c); msg != "" {
		return "bad case: " + msg
	}
	o := runImpl(c)
	var sb strings.Builder
	ctor := c.Ctor
	if ctor == "" {
		ctor = "NewTransporterWithInterface"
	}
	fmt.Fprintf(&sb, "constructor %s  key space %q  bufMaxReuse %d  max retries %d\n", ctor, c.KeySpace, c.MaxReuse, c.Retries)
	if o.Infra != "" {
		fmt.Fprintf(&sb, "INFRASTRUCTURE (the case would be dropped): %s\n", o.Infra)
	}
	for i, bo := range o.Batches {
		b := c.Batches[i]
		fmt.Fprintf(&sb, "batch %d (%d records, time %v, cancel %q): %s  bufUsedCount=%d gzBuf#%d gz#%d DateString calls=%d\n",
			i, len(b.Msgs), b.Time.strings(), b.Cancel, bo.Outcome, bo.Used, bo.Buf, bo.Gz, bo.DSCalls)
		for j, a := range bo.Atts {
			fmt.Fprintf(&sb, "  PutObject %d key=%q offset=%d body=%dB read=%dB ok=%v body gunzips to %q %s\n",
				j, a.Key, a.Off, len(a.Body), len(a.Read), a.Ok, a.BodyText, a.BodyErr)
		}
	}
	if len(o.Batches) < len(c.Batches) {
		fmt.Fprintf(&sb, "batches %d.. never entered the worker\n", len(o.Batches))
	}
	fmt.Fprintf(&sb, "terminated=%v stats: failure=%d success=%d written=%d\n", o.Terminated, o.Stats["failure"], o.Stats["success"], o.Stats["written"])
	for _, v := range monitor(c, o) {
		fmt.Fprintf(&sb, "MONITOR %s [%s]: %s\n", v.Property, v.Signature, v.What)
	}
	return sb.String()
}
