//go:build verif

// Package client drives the real replication client (client.New(...).Start) with a scripted
// connection manager / connection.  Everything the client does to its environment is logged from
// the client's own goroutine (the fakes drain the output channel before they log), so the log is
// the client's program order.
//
// Blocked cases (Case.Blocked) exercise the blocked-output loop (WriteLoop of handleXLogData): the
// client gets a 2-slot output channel and a real 20 ms progress ticker; on scripted events the fake
// ReceiveMessage fills the output channel with filler messages and keeps it full until the client
// has sent len(Event.Blocked) status updates (or, with BlockedClose, until it shuts down because
// the progress channel was closed under it).  Everything still happens on the client's goroutine.
// Because the ticker is real, ticks may ALSO be served at any loop head and in any WriteLoop of
// such a case; they are not scripted but read off the log when the Gallina case is written
// (caseGallina), so nothing that depends on timing is ever compared.
package client

import (
	"context"
	"encoding/binary"
	"encoding/json"
	"errors"
	"fmt"
	"math/rand"
	"os"
	"path/filepath"
	"runtime"
	"sort"
	"strings"
	"sync"
	"sync/atomic"
	"time"

	"verifharness/core"

	"github.com/Nextdoor/pg-bifrost.git/replication"
	rclient "github.com/Nextdoor/pg-bifrost.git/replication/client"
	"github.com/Nextdoor/pg-bifrost.git/replication/client/conn"
	"github.com/Nextdoor/pg-bifrost.git/shutdown"
	"github.com/Nextdoor/pg-bifrost.git/stats"
	"github.com/jackc/pglogrepl"
	"github.com/jackc/pgx/v5/pgconn"
	"github.com/jackc/pgx/v5/pgproto3"
)

type Event struct {
	Kind  string `json:"ev"` // xlog keepalive keepalive-bad nil timeout closed-err other-err error-response copy-other param unexpected
	Wal   uint64 `json:"wal,omitempty"`
	X     string `json:"x,omitempty"`   // begin commit change badtext short
	Txn   string `json:"txn,omitempty"` // for begin/commit
	Op    string `json:"op,omitempty"`  // for change
	Reply bool   `json:"reply,omitempty"`
	Slow  bool   `json:"slow,omitempty"`
	XLog  uint64 `json:"xlogpos,omitempty"`
	// error-response only: the recovery fails: "getconn" = the manager has no connection for it,
	// "identify" = the recovery connection is there and IDENTIFY_SYSTEM fails on it.  Unrecoverable: the
	// client must stop (C17).
	RecFail string   `json:"rec_fail,omitempty"`
	Inject  []uint64 `json:"inject,omitempty"` // progress values put on the channel inside this receive
	PClose  bool     `json:"pclose,omitempty"` // progress channel closed inside this receive
	// The connection dies silently at this message boundary: the fake connection still returns this
	// event's result but reports IsClosed() from now on, so the (fake) manager reconnects - with
	// START_REPLICATION at the LSN it is given - at the client's NEXT GetConnWithStartLsn / GetConn call.
	Dies bool `json:"dies,omitempty"`
	// Only in blocked cases and only on XLogData events that the client forwards (sanitize drops
	// them elsewhere): the output channel is full when the client wants to hand this message over
	// and stays full until the client has served len(Blocked) ticks; Blocked[i] = the progress
	// values waiting on the progress channel at tick i (batch 0 is put there inside the receive,
	// batch i+1 right after the status update of tick i was observed).
	Blocked      [][]uint64 `json:"blocked,omitempty"`
	BlockedClose bool       `json:"blocked_close,omitempty"` // the progress channel is closed together with the last batch: the last tick fails
}

type Case struct {
	Mode    string  `json:"mode"`
	PgLike  bool    `json:"pg_like"`                // the stream follows PostgreSQL's grammar (C07's domain) and has no error response
	Blocked bool    `json:"blocked_case,omitempty"` // small output channel, real 20 ms progress ticker
	First   Event   `json:"first"`
	Events  []Event `json:"events"`
}

// framing mirrors the lines of handleXLogData / recoverFromErrorResponse that decide whether an
// XLogData message reaches the WriteLoop (i.e. is forwarded): a BEGIN is dropped when the previous
// transaction has no COMMIT and something was accepted since the last (re)start.
type framing struct{ sawCommit, first bool }

func newFraming() *framing { return &framing{false, true} }

// reaches advances the framing state over e and says whether handleXLogData reaches its WriteLoop
func (f *framing) reaches(e Event) bool {
	if e.Kind == "error-response" {
		f.sawCommit, f.first = false, true
		return false
	}
	if e.Kind != "xlog" {
		return false
	}
	switch e.X {
	case "commit":
		f.sawCommit = true
		return true
	case "change":
		return true
	case "begin":
		if !f.sawCommit && !f.first {
			f.sawCommit, f.first = false, true
			return false
		}
		f.sawCommit, f.first = false, false
		return true
	}
	return false
}

// sanitize makes a case well formed: blocked ticks only in blocked cases and only on events that
// reach the WriteLoop (elsewhere the fake would fill the channel and nothing would ever empty it);
// no reply-requested keepalives in blocked cases (their fast/slow class is a wall-clock threshold
// and blocked cases really wait).
func sanitize(c *Case) {
	f := newFraming()
	c.First.Blocked, c.First.BlockedClose = nil, false
	c.First.Dies = false // the prologue's receive is not an iteration of the model
	for i := range c.Events {
		e := &c.Events[i]
		r := f.reaches(*e)
		if !c.Blocked || !r || len(e.Blocked) == 0 {
			e.Blocked, e.BlockedClose = nil, false
		}
		if len(e.Blocked) > 8 {
			e.Blocked = e.Blocked[:8]
		}
		if c.Blocked && e.Kind == "keepalive" {
			e.Reply, e.Slow = false, false
		}
	}
}

type Obs struct {
	K     string `json:"k"` // getstart getplain close identify send recv out stop
	Lsn   uint64 `json:"lsn,omitempty"`
	Fresh bool   `json:"fresh,omitempty"`
	Op    string `json:"op,omitempty"`
	Txn   string `json:"txn,omitempty"`
	Key   string `json:"key,omitempty"`
	Wal   uint64 `json:"wal,omitempty"`
	Reply bool   `json:"reply_requested,omitempty"`
	// close only: the call comes from Replicator.shutdown (seen on the call stack) and the termination signal
	// had NOT been raised when it was entered: a Close that blocks (black-holed peer, full send buffer: usually
	// the very fault that killed the client) would keep every other stage running for ever
	BeforeSignal bool `json:"in_shutdown_before_the_signal,omitempty"`
}

// blockState: the fake keeps the output channel full until the client has sent len(batches)
// status updates (closeLast: until it shuts down)
type blockState struct {
	batches   [][]uint64
	closeLast bool
	sent      int
}

// keptMsg: a forwarded message and what it said when it was handed over (the stages downstream hold the
// same pointer for as long as the change is in a queue or an open batch)
type keptMsg struct {
	m            *replication.WalMessage
	op, txn, key string
}

type world struct {
	kept     []keptMsg
	term     context.Context // the shared termination context of the case
	mu       sync.Mutex      // every fake callback holds it; the runner takes it only to snapshot a hung case
	dead     bool            // the runner gave up on this case: callbacks do nothing any more
	activity int64           // number of fake callbacks so far (atomic): the runner's liveness signal
	blk      *blockState
	filler   *replication.WalMessage
	jitter   *rand.Rand // self-test only, see runImpl
	log      []Obs
	out      chan *replication.WalMessage
	progress chan uint64
	pclosed  bool
	script   []Event
	pos      int
	cur      *fakeConn
	sh       shutdown.ShutdownHandler
	rapidT0  time.Time
	tooSlow  bool // a "fast" keepalive burst took too long on the wall clock: timing class unreliable
	lastKA   time.Time
}

func (w *world) drain() {
	for {
		select {
		case m, ok := <-w.out:
			if !ok {
				return
			}
			if m == w.filler {
				continue
			}
			w.log = append(w.log, Obs{K: "out", Op: m.Pr.Operation, Txn: m.Pr.Transaction, Key: m.TimeBasedKey, Wal: m.WalStart})
			w.kept = append(w.kept, keptMsg{m, m.Pr.Operation, m.Pr.Transaction, m.TimeBasedKey})
		default:
			return
		}
	}
}

// enter is the first thing every fake callback does (on the client's goroutine, w.mu held): log
// what the client has forwarded so far - except while the output channel is being kept full, where
// the connection request and the status update of a blocked tick must leave it full; any other
// callback in that mode (the Close of a shutdown after the WriteLoop failed) ends the mode.
func (w *world) enter(k string) {
	atomic.AddInt64(&w.activity, 1)
	if w.jitter != nil && w.jitter.Intn(4) == 0 {
		time.Sleep(time.Duration(w.jitter.Intn(int(blockedInterval) * 3 / 2)))
	}
	if w.blk != nil {
		if k == "getstart" || k == "send" {
			return
		}
		w.blk = nil
	}
	w.drain()
}

// inject puts progress values on the progress channel and optionally closes it
func (w *world) inject(vs []uint64, closeIt bool) {
	if w.pclosed {
		return
	}
	for _, v := range vs {
		w.progress <- v
	}
	if closeIt {
		close(w.progress)
		w.pclosed = true
	}
}

// safeToRetryErr mimics pgconn's errors that implement SafeToRetry() == true (pgconn.SafeToRetry looks
// for this method through the error chain)
type safeToRetryErr struct{}

func (safeToRetryErr) Error() string     { return "conn busy" }
func (safeToRetryErr) SafeToRetry() bool { return true }

type fakeMgr struct{ w *world }

func (m *fakeMgr) get(start bool, lsn uint64) (conn.Conn, error) {
	w := m.w
	w.mu.Lock()
	defer w.mu.Unlock()
	if w.dead {
		return w.cur, errors.New("case abandoned")
	}
	if start {
		w.enter("getstart")
	} else {
		w.enter("getplain")
		if w.pos > 0 && w.script[w.pos-1].Kind == "error-response" && w.script[w.pos-1].RecFail == "getconn" {
			return nil, errors.New("scripted: no connection for the recovery") // an input, not logged
		}
	}
	fresh := w.cur == nil || w.cur.closed
	if fresh {
		w.cur = &fakeConn{w: w}
	}
	if start {
		w.log = append(w.log, Obs{K: "getstart", Lsn: lsn, Fresh: fresh})
	} else {
		w.log = append(w.log, Obs{K: "getplain", Fresh: fresh})
	}
	return w.cur, nil
}
func (m *fakeMgr) GetConn(ctx context.Context) (conn.Conn, error) { return m.get(false, 0) }
func (m *fakeMgr) GetConnWithStartLsn(ctx context.Context, lsn uint64) (conn.Conn, error) {
	return m.get(true, lsn)
}
func (m *fakeMgr) Close() {
	w := m.w
	w.mu.Lock()
	defer w.mu.Unlock()
	if w.dead {
		return
	}
	w.enter("close")
	o := Obs{K: "close"}
	if w.term != nil && w.term.Err() == nil {
		pcs := make([]uintptr, 16)
		for _, pc := range pcs[:runtime.Callers(2, pcs)] {
			if f := runtime.FuncForPC(pc); f != nil && strings.HasSuffix(f.Name(), "(*Replicator).shutdown") {
				o.BeforeSignal = true
			}
		}
	}
	w.log = append(w.log, o)
	if w.cur != nil {
		w.cur.closed = true
		w.cur = nil
	}
}

type fakeConn struct {
	w      *world
	closed bool
	xlog   uint64
}

func (c *fakeConn) IsClosed() bool { return c.closed }
func (c *fakeConn) SendStandbyStatus(ctx context.Context, st pglogrepl.StandbyStatusUpdate) error {
	w := c.w
	w.mu.Lock()
	defer w.mu.Unlock()
	if w.dead {
		return errors.New("case abandoned")
	}
	w.enter("send")
	w.log = append(w.log, Obs{K: "send", Lsn: uint64(st.WALWritePosition), Reply: st.ReplyRequested})
	if b := w.blk; b != nil {
		// the status update of a blocked tick: the next batch waits for the next tick; after the
		// last scripted tick make room so that the pending hand-over succeeds
		b.sent++
		if b.sent < len(b.batches) {
			w.inject(b.batches[b.sent], b.closeLast && b.sent == len(b.batches)-1)
		} else {
			w.blk = nil
			w.drain()
		}
	}
	return nil
}
func (c *fakeConn) StartReplication(context.Context, string, pglogrepl.LSN, pglogrepl.StartReplicationOptions) error {
	return nil
}
func (c *fakeConn) Close(context.Context) error { c.closed = true; return nil }
func (c *fakeConn) CreateReplicationSlot(context.Context, string, string, pglogrepl.CreateReplicationSlotOptions) (pglogrepl.CreateReplicationSlotResult, error) {
	return pglogrepl.CreateReplicationSlotResult{}, nil
}
func (c *fakeConn) DropReplicationSlot(context.Context, string, pglogrepl.DropReplicationSlotOptions) error {
	return nil
}
func (c *fakeConn) IdentifySystem(context.Context) (pglogrepl.IdentifySystemResult, error) {
	c.w.mu.Lock()
	defer c.w.mu.Unlock()
	if c.w.dead {
		return pglogrepl.IdentifySystemResult{}, errors.New("case abandoned")
	}
	c.w.enter("identify")
	if c.w.script[c.w.pos-1].RecFail == "identify" {
		return pglogrepl.IdentifySystemResult{}, errors.New("scripted: IDENTIFY_SYSTEM failed") // an input, not logged
	}
	c.w.log = append(c.w.log, Obs{K: "identify"})
	return pglogrepl.IdentifySystemResult{XLogPos: pglogrepl.LSN(c.w.script[c.w.pos-1].XLog)}, nil
}

func keepalive(walEnd uint64, reply bool) pgproto3.BackendMessage {
	d := make([]byte, 18)
	d[0] = pglogrepl.PrimaryKeepaliveMessageByteID
	binary.BigEndian.PutUint64(d[1:9], walEnd)
	if reply {
		d[17] = 1
	}
	return &pgproto3.CopyData{Data: d}
}

func xlogData(wal uint64, payload string) pgproto3.BackendMessage {
	d := make([]byte, 25+len(payload))
	d[0] = pglogrepl.XLogDataByteID
	binary.BigEndian.PutUint64(d[1:9], wal)
	// ServerWALEnd: "the current end of WAL on the server": at or beyond the position of the data, never a
	// position the client may take for the position of this message (PostgreSQL's logical walsender happens
	// to send the two equal; the protocol does not promise it)
	binary.BigEndian.PutUint64(d[9:17], wal+[]uint64{0, 0, 17, 5000, 1 << 33}[wal%5])
	copy(d[25:], payload)
	return &pgproto3.CopyData{Data: d}
}

func (c *fakeConn) ReceiveMessage(ctx context.Context) (pgproto3.BackendMessage, error) {
	w := c.w
	w.mu.Lock()
	defer w.mu.Unlock()
	if w.dead {
		return nil, errors.New("case abandoned")
	}
	w.enter("recv")
	w.log = append(w.log, Obs{K: "recv"})
	if w.pos >= len(w.script) {
		// script exhausted (only when the last scripted event was not fatal): stop the client
		w.sh.CancelFunc()
		return nil, errors.New("script exhausted")
	}
	e := w.script[w.pos]
	w.pos++
	w.inject(e.Inject, e.PClose)
	if len(e.Blocked) > 0 {
		// (sanitize: a blocked case, and the client will want to forward this message)
		// everything forwarded so far is in the log; fill the output channel and keep it full
		for full := false; !full; {
			select {
			case w.out <- w.filler:
			default:
				full = true
			}
		}
		w.blk = &blockState{batches: e.Blocked, closeLast: e.BlockedClose}
		w.inject(e.Blocked[0], e.BlockedClose && len(e.Blocked) == 1)
	}
	if e.Dies {
		c.closed = true // this result is still delivered; the manager finds the connection closed at its next call
	}
	switch e.Kind {
	case "xlog":
		switch e.X {
		case "begin":
			return xlogData(e.Wal, "BEGIN "+e.Txn), nil
		case "commit":
			return xlogData(e.Wal, "COMMIT "+e.Txn), nil
		case "change":
			return xlogData(e.Wal, "table public.t: "+e.Op+": id[integer]:1 v[text]:'x'"), nil
		case "badtext":
			return xlogData(e.Wal, "garbage that is no test_decoding output"), nil
		default: // short: CopyData XLogData shorter than its 24 byte header
			return &pgproto3.CopyData{Data: []byte{pglogrepl.XLogDataByteID, 1, 2, 3}}, nil
		}
	case "keepalive":
		if e.Reply {
			now := time.Now()
			if e.Slow {
				time.Sleep(130 * time.Millisecond)
			} else if !w.lastKA.IsZero() && now.Sub(w.lastKA) > 10*time.Millisecond {
				w.tooSlow = true
			}
			w.lastKA = time.Now()
		}
		return keepalive(e.Wal, e.Reply), nil
	case "keepalive-bad":
		return &pgproto3.CopyData{Data: []byte{pglogrepl.PrimaryKeepaliveMessageByteID, 1, 2}}, nil
	case "nil":
		return nil, nil
	case "timeout":
		return nil, fmt.Errorf("timeout: %w", context.DeadlineExceeded)
	case "closed-err":
		c.closed = true
		if c.w.pos%3 == 1 {
			// the server ended the walsender (administrator command, failover): pgconn closes the connection
			// and returns the FATAL ErrorResponse as an error value; for the client a closed connection
			return nil, fmt.Errorf("receive: %w", &pgconn.PgError{Severity: "FATAL", Code: "57P01", Message: "terminating connection due to administrator command"})
		}
		return nil, errors.New("conn closed")
	case "other-err":
		// an error on a connection that stays open, neither a timeout nor a closure: fatal for the client.
		// Every third one is of the kind pgconn marks "safe to retry" (nothing was sent: e.g. its connection
		// lock errors) - for the client, which only READS here, that changes nothing: it cannot be retried
		if c.w.pos%3 == 0 {
			return nil, safeToRetryErr{}
		}
		return nil, errors.New("unexpected EOF")
	case "error-response":
		return &pgproto3.ErrorResponse{Severity: "ERROR", Message: "could not decode"}, nil
	case "copy-other":
		return &pgproto3.CopyData{Data: []byte{'x', 1, 2, 3}}, nil
	case "param":
		return &pgproto3.ParameterStatus{Name: "a", Value: "b"}, nil
	}
	return &pgproto3.CopyDone{}, nil
}

const (
	blockedBuffer   = 2                     // output channel capacity of a blocked case
	blockedInterval = 20 * time.Millisecond // its progress ticker period
	hangSeconds     = 20                    // no fake callback for this long = the client hangs
)

// hangs already seen in this run: after three of them (never on a client that works) the rest of the
// run does not wait the full hangSeconds for each further one
var hangsSeen int32

func hangLimit() int {
	if atomic.LoadInt32(&hangsSeen) >= 3 {
		return 2
	}
	return hangSeconds
}

// runImpl runs one (sanitized) case on the real client.  unreliable: the log depends on a wall-clock
// class that could not be enforced (or the client hung); hungBlocked: it hung while the fake was
// keeping the output channel full, i.e. it stopped sending status updates (the C18 monitor's case).
func runImpl(c Case) (log []Obs, unreliable bool, hungBlocked bool) {
	sh := shutdown.NewShutdownHandler()
	statsCh := make(chan stats.Stat, 1<<16)
	w := &world{progress: make(chan uint64, 1<<12), sh: sh}
	w.filler = &replication.WalMessage{TimeBasedKey: "FILLER"}
	w.script = append([]Event{c.First}, c.Events...)
	mgr := &fakeMgr{w}
	buffer, interval := 1<<14, time.Hour
	if c.Blocked {
		buffer, interval = blockedBuffer, blockedInterval
		if os.Getenv("VERIF_CLIENT_JITTER") != "" {
			// Self-test of the tick inference (off by default): the fakes of a blocked case stall at
			// random for up to 1.5 tick periods, as a descheduled client goroutine would, so that
			// ticks land at loop heads and in unscripted WriteLoops.  Not seeded from the case PRNG.
			w.jitter = rand.New(rand.NewSource(time.Now().UnixNano()))
		}
	}
	w.term = sh.TerminateCtx
	r := rclient.New(sh, statsCh, mgr, buffer, interval)
	w.out = r.GetOutputChan()
	w.lastKA = time.Now()
	done := make(chan struct{})
	go func() { r.Start(w.progress); close(done) }()
	// wait for Start to return; a hang is "no fake callback for hangSeconds" (not a total running
	// time: a blocked case legitimately waits for real ticks, and the machine may be loaded)
	last, idle := int64(-1), 0
	for finished := false; !finished; {
		select {
		case <-done:
			finished = true
		case <-time.After(time.Second):
			if a := atomic.LoadInt64(&w.activity); a != last {
				last, idle = a, 0
			} else if idle++; idle >= hangLimit() {
				atomic.AddInt32(&hangsSeen, 1)
				w.mu.Lock()
				w.dead = true
				hungBlocked = w.blk != nil
				log = append(append([]Obs{}, w.log...), Obs{K: "HANG"})
				w.mu.Unlock()
				sh.CancelFunc()
				return log, true, hungBlocked
			}
		}
	}
	w.drain()
	w.log = append(w.log, Obs{K: "stop"})
	for _, k := range w.kept {
		if k.m.Pr.Operation != k.op || k.m.Pr.Transaction != k.txn || k.m.TimeBasedKey != k.key {
			w.log = append(w.log, Obs{K: "rewritten", Op: k.op, Txn: k.txn, Key: k.m.Pr.Transaction + "/" + k.m.TimeBasedKey, Wal: k.m.WalStart})
		}
	}
	// (tooSlow classifies reply-requested keepalives; blocked cases have none after the prologue)
	return w.log, w.tooSlow && !c.Blocked, false
}

// ---- Gallina ----
func evGallina(e Event) string {
	switch e.Kind {
	case "xlog":
		k := "XShort"
		switch e.X {
		case "begin":
			k = "(XBegin " + core.GStr(e.Txn) + ")"
		case "commit":
			k = "(XCommit " + core.GStr(e.Txn) + ")"
		case "change":
			k = "(XChange " + core.GStr(e.Op) + ")"
		case "badtext":
			k = "XBadText"
		}
		return fmt.Sprintf("(EXLog %s %s)", core.GN(e.Wal), k)
	case "keepalive":
		return fmt.Sprintf("(EKeepalive %s %s %s)", core.GN(e.Wal), core.GBool(e.Reply), core.GBool(e.Slow))
	case "keepalive-bad":
		return "EKeepaliveBad"
	case "nil":
		return "ENil"
	case "timeout":
		return "ETimeout"
	case "closed-err":
		return "EClosedErr"
	case "other-err":
		return "EOtherErr"
	case "error-response":
		if e.RecFail != "" {
			return fmt.Sprintf("(EErrorResponseFail %s)", core.GBool(e.RecFail == "identify"))
		}
		return fmt.Sprintf("(EErrorResponse %s)", core.GN(e.XLog))
	case "copy-other":
		return "ECopyOther"
	case "param":
		return "EParam"
	}
	return "EUnexpected"
}

func callsProgressAgain(e Event) bool {
	return e.Kind == "timeout" || (e.Kind == "keepalive" && e.Reply)
}

func nlist(vs []uint64) string {
	s := make([]string, len(vs))
	for i, v := range vs {
		s[i] = core.GN(v)
	}
	return core.GList(s)
}

// blockedList renders [i_blocked]: one (values waiting at the tick, channel closed after them) per tick
func blockedList(ticks []tickT) string {
	s := make([]string, len(ticks))
	for i, t := range ticks {
		s[i] = core.GTuple(nlist(t.vs), core.GBool(t.closed))
	}
	return core.GList(s)
}

type tickT struct {
	vs     []uint64
	closed bool
}

// inferStats: what caseGallina read off the log of a blocked case
type inferStats struct {
	blockedEvents int // events scripted with Blocked that the client reached
	blockedTicks  int // status updates observed between a receive and the hand-over of its message
	extraTicks    int // of those: not scripted (the real ticker fired once more, or in an unscripted WriteLoop)
	failedLoops   int // WriteLoops that ended with handleProgress failing (progress channel closed)
	headTicks     int // loop heads with a status update although no progress value was waiting: a tick for certain
	headSends     int // loop heads with a status update (tick or newer value; not distinguished)
}

// segment analysis.  s = the log entries between receive r and receive r+1: first the rest of
// iteration r (the handling of event e), then the loop head of iteration r+1.  Status updates
// belong to the handling of e as follows, everything after is the next loop head:
//   - e reaches the WriteLoop and its message comes out: the updates before the "out" (blocked ticks);
//   - e reaches the WriteLoop and nothing comes out: all (the WriteLoop failed, the client stopped);
//   - timeout / keepalive with reply: the first one (the second handleProgress(true));
//   - anything else: none.
func analyse(e Event, reaches, prologue bool, s []Obs) (post int, forwarded bool, head int) {
	sends, beforeOut := 0, 0
	for _, o := range s {
		if o.K == "send" {
			sends++
		}
		if o.K == "out" && reaches && !forwarded {
			forwarded, beforeOut = true, sends
		}
	}
	switch {
	case prologue:
		post = 0
	case reaches && forwarded:
		post = beforeOut
	case reaches:
		post = sends
	case callsProgressAgain(e) && sends > 0:
		post = 1
	}
	return post, forwarded, sends - post
}

func caseGallina(c Case, log []Obs) (string, inferStats) {
	var st inferStats
	// seg[r] = the log between receive r and receive r+1 (receive r consumes script[r]; script[0] = First)
	var seg [][]Obs
	for _, o := range log {
		if o.K == "recv" {
			seg = append(seg, nil)
		} else if len(seg) > 0 {
			seg[len(seg)-1] = append(seg[len(seg)-1], o)
		}
	}
	// The progress channel as the client sees it: values put on it wait until the next
	// handleProgress call, which takes them all; "closed" is seen by every later call.  The harness
	// puts values on it only (a) inside a receive: Inject, PClose, and batch 0 of Blocked, and
	// (b) in a blocked event, right after the status update of tick j: batch j+1 (closing the
	// channel with the last batch if BlockedClose).  handleProgress is called at every loop head,
	// a second time for timeout / keepalive-with-reply, and once per tick served in a WriteLoop.
	var pending []uint64
	closed := false
	put := func(vs []uint64, closeIt bool) { // = world.inject
		if closed {
			return
		}
		pending = append(pending, vs...)
		closed = closeIt
	}
	take := func() ([]uint64, bool) { // = one handleProgress call
		p := pending
		pending = nil
		return p, closed
	}
	put(c.First.Inject, c.First.PClose)
	f := newFraming()
	its := make([]string, len(c.Events))
	// status updates at the loop head of iteration 1 (after the prologue's receive nothing else can send)
	headSends := 0
	if len(seg) > 0 {
		_, _, headSends = analyse(c.First, false, true, seg[0])
	}
	for i, e := range c.Events {
		r := i + 1 // receive number of this iteration
		reaches := f.reaches(e)
		p1, c1 := take()
		// ticker at the loop head.  Only blocked cases have a ticker that fires.  A status update at
		// the loop head is sent iff (a newer value was waiting || tick): with i_tick := "an update was
		// sent" the model sends in exactly the same situations, whichever of the two was the reason.
		tick := c.Blocked && headSends > 0
		if tick {
			st.headSends++
			if len(p1) == 0 {
				st.headTicks++
			}
		}
		put(e.Inject, e.PClose)
		var p2 []uint64
		c2 := false
		if callsProgressAgain(e) {
			p2, c2 = take()
		}
		post, forwarded, head := 0, true, 0
		if r < len(seg) { // else: the client had stopped before (the model has, too)
			post, forwarded, head = analyse(e, reaches, false, seg[r])
		}
		var ticks []tickT
		if reaches {
			k := len(e.Blocked)
			if k > 0 {
				put(e.Blocked[0], e.BlockedClose && k == 1)
				if r < len(seg) {
					st.blockedEvents++
				}
			}
			// one tick per status update observed before the message came out: scripted batches
			// first, extra ticks find whatever is (not) waiting
			for j := 0; j < post; j++ {
				vs, cl := take()
				ticks = append(ticks, tickT{vs, cl})
				st.blockedTicks++
				if j >= k {
					st.extraTicks++
				}
				if j+1 < k {
					put(e.Blocked[j+1], e.BlockedClose && j+1 == k-1)
				}
			}
			if !forwarded {
				// the message never came out: one more tick was served and found the channel closed
				vs, cl := take()
				ticks = append(ticks, tickT{vs, cl})
				st.failedLoops++
			}
		}
		its[i] = fmt.Sprintf("mkIter %s %s %s %s %s %s %s %s", core.GBool(tick), nlist(p1), core.GBool(c1), evGallina(e), nlist(p2), core.GBool(c2), blockedList(ticks), core.GBool(e.Dies))
		headSends = head
	}
	obs := []string{}
	for _, o := range log {
		switch o.K {
		case "getstart":
			obs = append(obs, fmt.Sprintf("CGetStart %s %s", core.GN(o.Lsn), core.GBool(o.Fresh)))
		case "getplain":
			obs = append(obs, "CGetPlain "+core.GBool(o.Fresh))
		case "close":
			obs = append(obs, "CClose")
		case "identify":
			obs = append(obs, "CIdentify")
		case "send":
			obs = append(obs, "CSend "+core.GN(o.Lsn))
		case "recv":
			obs = append(obs, "CRecv")
		case "rewritten":
			// not an output of the client: a check of the harness on messages already handed over
		case "out":
			obs = append(obs, fmt.Sprintf("COut %s %s %s %s", core.GStr(o.Op), core.GStr(o.Txn), core.GStr(o.Key), core.GN(o.Wal)))
		case "stop":
			obs = append(obs, "CStop")
		default:
			obs = append(obs, "CStop; CStop") // HANG: never matches
		}
	}
	return core.GTuple(evGallina(c.First), core.GList(its), core.GList(obs)), st
}

// ---- monitors on the implementation's log (independent of the model) ----
func monitor(c Case, log []Obs) []core.Violation {
	var vs []core.Violation
	add := func(p, sig, what string) {
		vs = append(vs, core.Violation{Property: p, Signature: sig, What: what, Case: c})
	}
	script := append([]Event{c.First}, c.Events...)
	// walk the log and the script together: the k-th "recv" consumes script[k]
	k := -1
	injected := map[uint64]bool{}
	var s0 uint64
	haveS0 := false
	var lastSend uint64
	sent := false
	var maxCommit uint64 // highest COMMIT position received since the last recovery (or recovery position)
	pendingReply := false
	lastBeginTxn := ""
	curKey := ""
	keyOfBegin := map[string]bool{}
	commitsPerKey := map[string]int{}
	expectBeginNext := false
	fatalSeen, fatalAt := "", 0
	// the blocked event being handled, if any: its scripted batches, how many status updates the
	// client has sent since the receive, how many it owes before the harness makes room (with
	// BlockedClose the last tick fails instead of sending)
	var blocked [][]uint64
	blockedSends, blockedOwed, blockedClose := 0, 0, false
	pclosed := false // the harness has closed the progress channel: nothing is put on it any more
	register := func(vs []uint64, closeIt bool) {
		if pclosed {
			return
		}
		for _, v := range vs {
			injected[v] = true
		}
		pclosed = closeIt
	}
	for i, o := range log {
		if o.K != "send" && o.K != "getstart" && o.K != "HANG" {
			// anything else ends a blocked event: the message came out (the harness made room only
			// after the owed updates), or the client shut down
			if blocked != nil && o.K == "out" && blockedSends < blockedOwed {
				add("C18", "no-status-update-while-output-blocked", fmt.Sprintf("event %d: the message came out after %d status updates; the output channel was kept full for %d ticks", k, blockedSends, blockedOwed))
			}
			blocked = nil
		}
		switch o.K {
		case "HANG":
			if blocked != nil && blockedSends < blockedOwed {
				add("C18", "no-status-update-while-output-blocked", fmt.Sprintf("event %d: the output channel is full and the client holds a message; it sent %d status updates, then none for %d s (progress interval %v); %d were owed", k, blockedSends, hangSeconds, blockedInterval, blockedOwed))
			} else {
				add("C17", "client-hangs", "the client did not stop within 20 s of a fatal event")
			}
		case "recv":
			if fatalSeen != "" {
				add("C17", "client-survives-unrecoverable-connection-error", fmt.Sprintf("log position %d: the client read from the connection again after %s (event %d), which cannot be retried; it must raise the termination signal and stop", i, fatalSeen, fatalAt))
				fatalSeen = ""
			}
			if pendingReply {
				add("C18", "reply-requested-not-answered-before-next-read", fmt.Sprintf("log position %d: the client read again without answering a keepalive that requested a reply", i))
			}
			pendingReply = false
			k++
			if k < len(script) {
				e := script[k]
				// (an error result of a connection that died at this boundary reports IsClosed(): for the
				// client that is "connection was closed, continue", exactly like closed-err)
				if (e.Kind == "other-err" && !e.Dies) || e.Kind == "unexpected" || (e.Kind == "keepalive-bad" && k > 0) || (e.Kind == "error-response" && e.RecFail != "") {
					fatalSeen, fatalAt = e.Kind, k
				}
				register(e.Inject, e.PClose)
				if len(e.Blocked) > 0 {
					// batch 0 is put on the progress channel inside this receive
					blocked, blockedSends, blockedOwed, blockedClose = e.Blocked, 0, len(e.Blocked), e.BlockedClose
					if e.BlockedClose {
						blockedOwed--
					}
					register(e.Blocked[0], e.BlockedClose && len(e.Blocked) == 1)
				}
				if k == 0 && e.Kind == "keepalive" {
					s0, haveS0 = e.Wal, true
				}
				if k == 0 && e.Kind == "keepalive-bad" {
					// an unparsable first keepalive (never sent by PostgreSQL): the error is logged and
					// the session starts at position 0
					s0, haveS0 = 0, true
				}
				if e.Kind == "keepalive" && e.Reply && k > 0 {
					pendingReply = true
				}
				if e.Kind == "xlog" && e.X == "commit" && e.Wal > maxCommit {
					maxCommit = e.Wal
				}
				if e.Kind == "error-response" && e.RecFail == "" {
					maxCommit = e.XLog
				}
				if e.Kind == "xlog" && e.X == "begin" {
					lastBeginTxn = e.Txn
				}
			}
		case "send":
			pendingReply = false
			if !o.Reply {
				add("C18", "status-without-reply-request-flag", "a standby status update was sent without ReplyRequested")
			}
			if sent && o.Lsn < lastSend {
				add("C03", "ack-decreased", fmt.Sprintf("acknowledged %d after %d", o.Lsn, lastSend))
			}
			if !(haveS0 && o.Lsn == s0) && !injected[o.Lsn] && !(k == 0 && !haveS0 && o.Lsn == 0) {
				add("C03", "ack-not-from-ledger", fmt.Sprintf("acknowledged %d, which is neither the session start position %d nor a value delivered on the progress channel", o.Lsn, s0))
			}
			lastSend, sent = o.Lsn, true
			if blocked != nil {
				// a blocked tick's update (checked above like every other one); only now does the
				// harness put the next batch on the progress channel
				blockedSends++
				if blockedSends < len(blocked) {
					register(blocked[blockedSends], blockedClose && blockedSends == len(blocked)-1)
				}
			}
		case "getstart":
			if o.Fresh && k >= 0 {
				// the event being handled may itself be the COMMIT just counted: the request is issued
				// either before the receive (loop head) or while handling; in both cases maxCommit as of
				// the events consumed so far is what the client knows
				if o.Lsn != maxCommit {
					add("C03", "restart-position-wrong", fmt.Sprintf("replication re-requested from %d, the last COMMIT received (or recovery position) is %d", o.Lsn, maxCommit))
					if c.PgLike {
						// C07's last clause: after a dropped BEGIN (or a lost connection) the stream is
						// re-requested from the last received COMMIT
						add("C07", "stream-not-re-requested-from-last-commit", fmt.Sprintf("replication re-requested from %d, the last COMMIT received is %d", o.Lsn, maxCommit))
					}
				}
			}
			if o.Fresh && k < 0 && o.Lsn != 0 {
				add("C03", "initial-start-position-not-server-chosen", fmt.Sprintf("first START_REPLICATION at %d", o.Lsn))
			}
		case "rewritten":
			add("C07", "forwarded-message-rewritten-after-hand-over", fmt.Sprintf("the %s at %d was forwarded as transaction %q; at the end of the run the same message says transaction/key %q: what a later message was stamped with was written into a message the downstream stages still hold", o.Op, o.Wal, o.Txn, o.Key))
		case "close":
			if o.BeforeSignal {
				add("C17", "connection-closed-in-shutdown-before-the-termination-signal", fmt.Sprintf("log position %d: Replicator.shutdown closes the replication connection while the shared termination signal is not yet raised: a close that blocks leaves every other stage running behind a dead reader", i))
			}
		case "out":
			if !c.PgLike {
				continue
			}
			if o.Op == "BEGIN" {
				if keyOfBegin[o.Key] {
					add("C07", "delivery-key-reused", fmt.Sprintf("two forwarded BEGINs share the key %s", o.Key))
				}
				keyOfBegin[o.Key] = true
				curKey = o.Key
				expectBeginNext = false
			}
			if expectBeginNext {
				continue
			}
			if o.Txn != lastBeginTxn {
				add("C07", "message-attributed-to-wrong-transaction", fmt.Sprintf("forwarded %s carries transaction %q, the last BEGIN received was %q", o.Op, o.Txn, lastBeginTxn))
			}
			if o.Key != curKey {
				add("C07", "message-carries-foreign-key", fmt.Sprintf("forwarded %s carries key %q, the current delivery's key is %q", o.Op, o.Key, curKey))
			}
			if !strings.HasPrefix(o.Key, o.Txn+"-") {
				add("C07", "key-not-derived-from-transaction", fmt.Sprintf("key %q for transaction %q", o.Key, o.Txn))
			}
			if o.Op == "COMMIT" {
				commitsPerKey[o.Key]++
				if commitsPerKey[o.Key] > 1 {
					add("C07", "two-commits-for-one-key", fmt.Sprintf("two COMMITs forwarded with key %s", o.Key))
				}
			}
		}
	}
	// C07: a BEGIN that arrives while the previous transaction has no COMMIT is not forwarded,
	// the connection is closed and the stream is re-requested from the last COMMIT received.
	if c.PgLike {
		vs = append(vs, beginWithoutCommitMonitor(c, log)...)
	}
	return vs
}

func beginWithoutCommitMonitor(c Case, log []Obs) []core.Violation {
	var vs []core.Violation
	script := append([]Event{c.First}, c.Events...)
	k := -1
	open := false // a BEGIN was received on this delivery and no COMMIT yet
	first := true // nothing accepted yet since start / since the last forced reconnect
	var maxCommit uint64
	for i := 0; i < len(log); i++ {
		if log[i].K != "recv" {
			continue
		}
		k++
		if k >= len(script) {
			break
		}
		e := script[k]
		if e.Kind != "xlog" {
			continue
		}
		// the log entries produced while handling this event: up to the next recv
		j := i + 1
		for j < len(log) && log[j].K != "recv" {
			j++
		}
		seg := log[i+1 : j]
		switch e.X {
		case "commit":
			open = false
			if e.Wal > maxCommit {
				maxCommit = e.Wal
			}
		case "begin":
			if open && !first {
				forwarded, closed := false, false
				for _, o := range seg {
					if o.K == "out" && o.Op == "BEGIN" {
						forwarded = true
					}
					if o.K == "close" {
						closed = true
					}
				}
				if forwarded {
					vs = append(vs, core.Violation{Property: "C07", Signature: "begin-without-commit-forwarded", What: fmt.Sprintf("BEGIN %s (event %d) was forwarded although the previous transaction has no COMMIT", e.Txn, k), Case: c})
				}
				if !closed {
					vs = append(vs, core.Violation{Property: "C07", Signature: "begin-without-commit-no-reconnect", What: fmt.Sprintf("BEGIN %s (event %d) without a preceding COMMIT did not close the connection", e.Txn, k), Case: c})
				}
				first = true
				open = true
			} else {
				open = true
				first = false
			}
		}
	}
	return vs
}

// ---- generators ----
func genPgLike(rng *rand.Rand) Case {
	c := Case{Mode: "pg-like", PgLike: true}
	s0 := uint64(1000 + rng.Intn(1000))
	if rng.Intn(12) == 0 {
		s0 = 0 // a first keepalive at 0/0
	}
	c.First = Event{Kind: "keepalive", Wal: s0, Reply: rng.Intn(2) == 0}
	wal := s0
	type txn struct {
		id      string
		begin   uint64
		changes []uint64
		commit  uint64
	}
	var txns []txn
	nt := 1 + rng.Intn(6)
	for i := 0; i < nt; i++ {
		t := txn{id: fmt.Sprintf("%d", 800+i)}
		wal += uint64(1 + rng.Intn(40))
		t.begin = wal
		if i > 0 && rng.Intn(3) == 0 {
			// a concurrent transaction: its first record was written before the previous one committed
			t.begin = txns[i-1].commit - uint64(1+rng.Intn(3))
		}
		for j := rng.Intn(5); j > 0; j-- {
			wal += uint64(1 + rng.Intn(40))
			t.changes = append(t.changes, wal)
		}
		wal += uint64(1 + rng.Intn(40))
		t.commit = wal
		txns = append(txns, t)
	}
	progress := s0
	var acked []uint64
	noise := func() {
		for rng.Intn(4) == 0 {
			var e Event
			switch rng.Intn(7) {
			case 0:
				e = Event{Kind: "keepalive", Wal: wal, Reply: true}
			case 1:
				e = Event{Kind: "keepalive", Wal: wal, Reply: false}
			case 2:
				e = Event{Kind: "timeout"}
			case 3:
				e = Event{Kind: "nil"}
			case 4:
				e = Event{Kind: "param"}
			case 5:
				e = Event{Kind: "copy-other"}
			default:
				e = Event{Kind: "xlog", X: "short"}
			}
			c.Events = append(c.Events, e)
		}
	}
	replyBudget := 4 // stay below the rapid-heartbeat threshold in ordinary cases
	inject := func(e *Event) {
		if rng.Intn(3) != 0 {
			return
		}
		for n := 1 + rng.Intn(3); n > 0; n-- {
			switch rng.Intn(6) {
			case 0:
				e.Inject = append(e.Inject, progress) // repeated
			case 1:
				if progress > 5 {
					e.Inject = append(e.Inject, progress-uint64(1+rng.Intn(5))) // decreasing
				}
			default:
				if len(acked) > 0 {
					v := acked[rng.Intn(len(acked))]
					e.Inject = append(e.Inject, v)
					if v > progress {
						progress = v
					}
				}
			}
		}
	}
	// a small PostgreSQL: each connection delivers the transactions not yet received completely,
	// from the BEGIN of the first one; the generator tracks the client's framing state to know
	// when the client itself forces a reconnect (BEGIN without a preceding COMMIT)
	next := 0
	sawCommit, first := false, true
	faults := 3
	emit := func(m Event) {
		inject(&m)
		c.Events = append(c.Events, m)
		noise()
	}
	// the same, but about one message in ten (at most 3 per case) is the last one of its connection:
	// the connection dies silently right after delivering it.  The caller then restarts the stream
	// as PostgreSQL does after a reconnect (from the BEGIN of the first transaction not yet received
	// completely).
	deaths := 3
	emitMayDie := func(m Event) (died bool) {
		if deaths > 0 && rng.Intn(10) == 0 {
			deaths--
			m.Dies = true
			inject(&m)
			c.Events = append(c.Events, m)
			return true
		}
		emit(m)
		return false
	}
	for next < len(txns) {
	conn:
		for j := next; j < len(txns); j++ {
			t := txns[j]
			// BEGIN
			if faults > 0 && rng.Intn(14) == 0 {
				faults--
				c.Events = append(c.Events, Event{Kind: "closed-err"})
				break conn
			}
			if !sawCommit && !first {
				emit(Event{Kind: "xlog", X: "begin", Txn: t.id, Wal: t.begin}) // dropped by the client, which reconnects
				sawCommit, first = false, true
				break conn
			}
			diedAtBegin := emitMayDie(Event{Kind: "xlog", X: "begin", Txn: t.id, Wal: t.begin})
			sawCommit, first = false, false
			if diedAtBegin {
				break conn
			}
			broke := false
			for _, w := range t.changes {
				if faults > 0 && rng.Intn(14) == 0 {
					faults--
					c.Events = append(c.Events, Event{Kind: "closed-err"})
					broke = true
					break
				}
				if emitMayDie(Event{Kind: "xlog", X: "change", Op: []string{"INSERT", "UPDATE", "DELETE"}[rng.Intn(3)], Wal: w}) {
					broke = true
					break
				}
			}
			if broke {
				break conn
			}
			if faults > 0 && rng.Intn(10) == 0 {
				faults--
				if rng.Intn(2) == 0 {
					c.Events = append(c.Events, Event{Kind: "closed-err"})
					break conn
				}
				continue // the COMMIT is lost: the next BEGIN arrives instead
			}
			diedAtCommit := emitMayDie(Event{Kind: "xlog", X: "commit", Txn: t.id, Wal: t.commit})
			sawCommit = true
			acked = append(acked, t.commit)
			next = j + 1
			if diedAtCommit {
				break conn
			}
		}
		if faults == 0 && next < len(txns) {
			// no fault budget left: the remaining transactions arrive cleanly (after the pending redelivery)
			continue
		}
		if next >= len(txns) {
			break
		}
		// guard against a final lost COMMIT looping for ever
		if faults == 0 {
			continue
		}
	}
	// keep reply-requested keepalives at most 5 per case (the sixth within 100 ms stops the client)
	n := 0
	if c.First.Reply {
		// the first message is consumed by the prologue, not by the keepalive handler
	}
	for j := range c.Events {
		if c.Events[j].Kind == "keepalive" && c.Events[j].Reply {
			n++
			if n > 5 {
				c.Events[j].Reply = false
			}
		}
	}
	_ = replyBudget
	c.Events = append(c.Events, Event{Kind: "other-err"})
	if rng.Intn(14) == 0 && !c.Blocked {
		// a server with a backlog for the slot streams right away: the session's first message is the first
		// BEGIN, no keepalive in front of it (drawn last)
		for j, e := range c.Events {
			if e.Kind == "xlog" {
				if e.X == "begin" && len(e.Inject) == 0 && !e.Dies {
					c.First = e
					c.Events = append(c.Events[:j:j], c.Events[j+1:]...)
					c.Mode = "pg-like-backlog-first"
				}
				break
			}
		}
	}
	return c
}

func genSoup(rng *rand.Rand) Case {
	c := Case{Mode: "soup"}
	c.First = Event{Kind: "keepalive", Wal: uint64(rng.Intn(3000)), Reply: true}
	if rng.Intn(10) == 0 {
		c.First.Wal = 0 // the session starts at 0/0: every status update before the first progress carries 0
	}
	if rng.Intn(15) == 0 {
		c.First = []Event{{Kind: "keepalive-bad"}, {Kind: "xlog", X: "begin", Txn: "1", Wal: 5}, {Kind: "timeout"}, {Kind: "nil"}, {Kind: "param"}}[rng.Intn(5)]
	}
	n := 1 + rng.Intn(25)
	wal := uint64(1000)
	replies := 0
	rapid := rng.Intn(12) == 0 // a dedicated share: enough back-to-back reply requests to trip the heuristic
	slowFirst := rng.Intn(2) == 0
	for i := 0; i < n; i++ {
		wal += uint64(rng.Intn(30))
		var e Event
		switch r := rng.Intn(20); {
		case r < 3:
			e = Event{Kind: "xlog", X: "begin", Txn: fmt.Sprintf("%d", 900+rng.Intn(3)), Wal: wal}
		case r < 6:
			e = Event{Kind: "xlog", X: "commit", Txn: fmt.Sprintf("%d", 900+rng.Intn(3)), Wal: wal - uint64(rng.Intn(20))}
		case r < 9:
			e = Event{Kind: "xlog", X: "change", Op: "INSERT", Wal: wal}
		case r < 11:
			e = Event{Kind: "timeout"}
		case r < 12:
			e = Event{Kind: "closed-err"}
		case r < 14:
			e = Event{Kind: "error-response", XLog: wal + uint64(rng.Intn(500))}
			if rng.Intn(5) == 0 {
				e.RecFail = []string{"getconn", "identify"}[rng.Intn(2)]
			}
		case r < 15:
			e = Event{Kind: "nil"}
		case r < 16:
			e = Event{Kind: "xlog", X: "short"}
		case r < 17:
			e = Event{Kind: []string{"param", "copy-other"}[rng.Intn(2)]}
		default:
			e = Event{Kind: "keepalive", Wal: wal, Reply: rng.Intn(3) != 0}
			if e.Reply {
				replies++
				if !rapid && replies > 5 {
					e.Reply = false
				}
			}
		}
		if rng.Intn(3) == 0 {
			for k := 1 + rng.Intn(3); k > 0; k-- {
				e.Inject = append(e.Inject, uint64(rng.Intn(3000)))
			}
		}
		if rng.Intn(60) == 0 {
			e.PClose = true
		}
		if rng.Intn(10) == 0 {
			e.Dies = true
		}
		c.Events = append(c.Events, e)
	}
	if rapid {
		for i := 0; i < 7; i++ {
			e := Event{Kind: "keepalive", Wal: wal, Reply: true}
			if i == 0 && slowFirst {
				e.Slow = true
			}
			c.Events = append(c.Events, e)
		}
	}
	if rng.Intn(6) == 0 {
		c.Events = append(c.Events, []Event{{Kind: "unexpected"}, {Kind: "keepalive-bad"}, {Kind: "xlog", X: "badtext", Wal: wal}}[rng.Intn(3)])
	}
	c.Events = append(c.Events, Event{Kind: "other-err"})
	return c
}

// makeBlocked turns a generated case into a blocked case: up to three of the XLogData events the
// client will forward get 1-3 blocked ticks with 0-2 progress values each (one in five: 4-9 ticks without any new progress value) (positions of COMMITs
// sent earlier in the script - what a ledger would report -, or arbitrary/stale ones); one in ten
// closes the progress channel with its last batch.
func makeBlocked(rng *rand.Rand, c *Case) {
	c.Blocked = true
	f := newFraming()
	var commits []uint64
	budget := 1 + rng.Intn(3)
	for i := range c.Events {
		e := &c.Events[i]
		reaches := f.reaches(*e)
		if reaches && budget > 0 && rng.Intn(4) == 0 {
			budget--
			nticks := 1 + rng.Intn(3)
			if rng.Intn(5) == 0 {
				nticks = 4 + rng.Intn(6) // a long blockage: the status updates must not thin out
			}
			for k := nticks; k > 0; k-- {
				batch := []uint64{}
				for n := rng.Intn(3); n > 0 && nticks < 4; n-- {
					if len(commits) > 0 && rng.Intn(4) != 0 {
						batch = append(batch, commits[rng.Intn(len(commits))])
					} else {
						batch = append(batch, uint64(rng.Intn(3000)))
					}
				}
				e.Blocked = append(e.Blocked, batch)
			}
			e.BlockedClose = rng.Intn(10) == 0
			if e.X == "commit" && rng.Intn(3) == 0 {
				// the interesting boundary: the connection dies while this COMMIT is held (PostgreSQL
				// then resumes after it, which is what the script goes on with)
				e.Dies = true
			}
		}
		if e.Kind == "xlog" && e.X == "commit" {
			commits = append(commits, e.Wal)
		}
	}
}

func loadCorpus(dir string) []Case {
	var out []Case
	files, _ := filepath.Glob(filepath.Join(dir, "CLIENT", "*.json"))
	sort.Strings(files)
	for _, f := range files {
		if b, err := os.ReadFile(f); err == nil {
			var c Case
			if json.Unmarshal(b, &c) == nil {
				c.Mode = "corpus:" + strings.TrimSuffix(filepath.Base(f), ".json")
				out = append(out, c)
			}
		}
	}
	return out
}

func init() {
	core.Register(core.Component{Name: "CLIENT", Replay: func(cs json.RawMessage) string {
		var c Case
		if err := json.Unmarshal(cs, &c); err != nil {
			return "bad case: " + err.Error()
		}
		sanitize(&c)
		log, unreliable, _ := runImpl(c)
		var sb strings.Builder
		for _, o := range log {
			j, _ := json.Marshal(o)
			sb.Write(j)
			sb.WriteString("\n")
		}
		fmt.Fprintf(&sb, "timing-unreliable=%v\n", unreliable)
		if c.Blocked {
			_, st := caseGallina(c, log)
			fmt.Fprintf(&sb, "blocked case (ticks are real: read off this log): %+v\n", st)
		}
		for _, v := range monitor(c, log) {
			fmt.Fprintf(&sb, "MONITOR %s [%s]: %s\n", v.Property, v.Signature, v.What)
		}
		return sb.String()
	}, Run: func(rng *rand.Rand, n int, corpusDir string, rep *core.Report) string {
		cases := loadCorpus(corpusDir)
		for i := 0; i < n; i++ {
			var c Case
			if rng.Intn(10) < 6 {
				c = genPgLike(rng)
			} else {
				c = genSoup(rng)
			}
			if rng.Intn(4) == 0 {
				makeBlocked(rng, &c)
			}
			cases = append(cases, c)
		}
		for i := range cases {
			sanitize(&cases[i])
		}
		rep.Rule = "about 10% of the events that leave the client running carry DIES: the fake connection delivers that result and reports closed from then on, the fake manager reconnects (START_REPLICATION at the LSN given) at the client's next connection request - next loop head, second handleProgress, or a tick of the blocked-output loop (one held COMMIT in three of the blocked cases dies); PostgreSQL-like streams restart from the first incomplete transaction after a death. 25% of the generated cases are BLOCKED cases: 2-slot output channel, real 20 ms progress ticker, no reply-requested keepalives; on up to 3 forwarded XLogData events the fake keeps the output channel full for 1-3 ticks with scripted progress values per tick (1 in 10 closes the progress channel with the last batch); ticks that the real ticker additionally delivers at loop heads / in other WriteLoops are read off the implementation's log (i_tick, i_blocked), the model must reproduce the whole log. Otherwise: corpus first, then seeded scripts for a fake connection manager/connection: 60% PostgreSQL-like streams (1-6 transactions, disconnects and lost COMMITs with redelivery, keepalives, timeouts, nil/short/other messages, progress values injected increasing/repeated/decreasing/in bursts), 40% adversarial soup incl. error responses anywhere, closed progress channel, rapid reply requests, unparsable payloads, bad first message. Non-trivial: >= 1 reconnect or recovery or >= 2 acknowledgements; distinct by event-kind sequence."
		var sb strings.Builder
		sb.WriteString("From Bifrost.model Require Import Base Client.\nDefinition cases : list ccase := [\n")
		seen := map[string]bool{}
		kept := 0
		for _, c := range cases {
			log, unreliable, hungBlocked := runImpl(c)
			if hungBlocked {
				// the client stopped sending status updates while its output was blocked: the C18
				// monitor's case (nothing to compare with the model: the case never ended)
				core.Bump(rep, "blocked:hung-while-output-blocked")
				rep.Violations = append(rep.Violations, monitor(c, log)...)
				continue
			}
			if unreliable {
				core.Bump(rep, "dropped:timing-class-unreliable")
				if c.Blocked {
					core.Bump(rep, "dropped:blocked-case-unreliable")
				}
				continue
			}
			if kept > 0 {
				sb.WriteString(";\n")
			}
			kept++
			gal, st := caseGallina(c, log)
			sb.WriteString(gal)
			if c.Blocked {
				core.Bump(rep, "blocked:cases")
				rep.Distribution["blocked:events-scripted-and-reached"] += st.blockedEvents
				rep.Distribution["blocked:ticks-observed"] += st.blockedTicks
				rep.Distribution["blocked:ticks-extra(unscripted)"] += st.extraTicks
				rep.Distribution["blocked:write-loops-failed(progress-channel-closed)"] += st.failedLoops
				rep.Distribution["blocked:loop-head-sends(tick-or-newer-value)"] += st.headSends
				rep.Distribution["blocked:loop-head-ticks(certain)"] += st.headTicks
			}
			rep.CaseIndex = append(rep.CaseIndex, core.RawJSON(c))
			rep.Evaluations++
			core.Bump(rep, "mode:"+strings.SplitN(c.Mode, ":", 2)[0])
			sig := ""
			for _, e := range c.Events {
				core.Bump(rep, "ev:"+e.Kind+e.X)
				sig += e.Kind[:2] + e.X + fmt.Sprint(len(e.Inject))
				if len(e.Blocked) > 0 {
					sig += fmt.Sprintf("b%d%v", len(e.Blocked), e.BlockedClose)
				}
				if e.Dies {
					sig += "d"
					core.Bump(rep, "dies:"+e.Kind+e.X)
					if len(e.Blocked) > 0 {
						core.Bump(rep, "dies:while-message-held-in-blocked-loop")
					}
				}
			}
			fresh, sends := 0, 0
			for _, o := range log {
				if o.K == "getstart" && o.Fresh {
					fresh++
				}
				if o.K == "send" {
					sends++
				}
			}
			rep.Distribution["obs:fresh-starts"] += fresh
			rep.Distribution["obs:acks"] += sends
			if (fresh >= 2 || sends >= 2) && !seen[sig] {
				rep.Nontrivial++
			}
			seen[sig] = true
			if len(rep.Samples) < 2 && fresh >= 2 && len(c.Events) < 16 {
				rep.Samples = append(rep.Samples, map[string]interface{}{"case": c, "log": log})
			}
			rep.Violations = append(rep.Violations, monitor(c, log)...)
		}
		sb.WriteString("\n].\nDefinition M := Eval vm_compute in mismatches ccase_ok cases.\nPrint M.\n")
		return sb.String()
	}})
}
