//go:build verif

// Package client drives the real replication client (client.New(...).Start) with a scripted
// connection manager / connection.  Everything the client does to its environment is logged from
// the client's own goroutine (the fakes drain the output channel before they log), so the log is
// the client's program order.
package client

import (
	"context"
	"encoding/binary"
	"encoding/json"
	"errors"
	"fmt"
	"math/rand"
	"os"
	"path/filepath"
	"sort"
	"strings"
	"time"

	"verifharness/core"

	"github.com/Nextdoor/pg-bifrost.git/replication"
	rclient "github.com/Nextdoor/pg-bifrost.git/replication/client"
	"github.com/Nextdoor/pg-bifrost.git/replication/client/conn"
	"github.com/Nextdoor/pg-bifrost.git/shutdown"
	"github.com/Nextdoor/pg-bifrost.git/stats"
	"github.com/jackc/pglogrepl"
	"github.com/jackc/pgx/v5/pgproto3"
)

type Event struct {
	Kind   string   `json:"ev"` // xlog keepalive keepalive-bad nil timeout closed-err other-err error-response copy-other param unexpected
	Wal    uint64   `json:"wal,omitempty"`
	X      string   `json:"x,omitempty"`   // begin commit change badtext short
	Txn    string   `json:"txn,omitempty"` // for begin/commit
	Op     string   `json:"op,omitempty"`  // for change
	Reply  bool     `json:"reply,omitempty"`
	Slow   bool     `json:"slow,omitempty"`
	XLog   uint64   `json:"xlogpos,omitempty"`
	Inject []uint64 `json:"inject,omitempty"` // progress values put on the channel inside this receive
	PClose bool     `json:"pclose,omitempty"` // progress channel closed inside this receive
}

type Case struct {
	Mode   string  `json:"mode"`
	PgLike bool    `json:"pg_like"` // the stream follows PostgreSQL's grammar (C07's domain) and has no error response
	First  Event   `json:"first"`
	Events []Event `json:"events"`
}

type Obs struct {
	K     string `json:"k"` // getstart getplain close identify send recv out stop
	Lsn   uint64 `json:"lsn,omitempty"`
	Fresh bool   `json:"fresh,omitempty"`
	Op    string `json:"op,omitempty"`
	Txn   string `json:"txn,omitempty"`
	Key   string `json:"key,omitempty"`
	Wal   uint64 `json:"wal,omitempty"`
	Reply bool   `json:"reply_requested,omitempty"`
}

type world struct {
	log      []Obs
	out      chan *replication.WalMessage
	progress chan uint64
	pclosed  bool
	script   []Event
	pos      int
	cur      *fakeConn
	sh       shutdown.ShutdownHandler
	rapidT0  time.Time
	tooSlow  bool // a "fast" keepalive burst took too long on the wall clock: timing class unreliable
	lastKA   time.Time
}

func (w *world) drain() {
	for {
		select {
		case m, ok := <-w.out:
			if !ok {
				return
			}
			w.log = append(w.log, Obs{K: "out", Op: m.Pr.Operation, Txn: m.Pr.Transaction, Key: m.TimeBasedKey, Wal: m.WalStart})
		default:
			return
		}
	}
}

type fakeMgr struct{ w *world }

func (m *fakeMgr) get(start bool, lsn uint64) (conn.Conn, error) {
	w := m.w
	w.drain()
	fresh := w.cur == nil || w.cur.closed
	if fresh {
		w.cur = &fakeConn{w: w}
	}
	if start {
		w.log = append(w.log, Obs{K: "getstart", Lsn: lsn, Fresh: fresh})
	} else {
		w.log = append(w.log, Obs{K: "getplain", Fresh: fresh})
	}
	return w.cur, nil
}
func (m *fakeMgr) GetConn(ctx context.Context) (conn.Conn, error) { return m.get(false, 0) }
func (m *fakeMgr) GetConnWithStartLsn(ctx context.Context, lsn uint64) (conn.Conn, error) {
	return m.get(true, lsn)
}
func (m *fakeMgr) Close() {
	w := m.w
	w.drain()
	w.log = append(w.log, Obs{K: "close"})
	if w.cur != nil {
		w.cur.closed = true
		w.cur = nil
	}
}

type fakeConn struct {
	w      *world
	closed bool
	xlog   uint64
}

func (c *fakeConn) IsClosed() bool { return c.closed }
func (c *fakeConn) SendStandbyStatus(ctx context.Context, st pglogrepl.StandbyStatusUpdate) error {
	c.w.drain()
	c.w.log = append(c.w.log, Obs{K: "send", Lsn: uint64(st.WALWritePosition), Reply: st.ReplyRequested})
	return nil
}
func (c *fakeConn) StartReplication(context.Context, string, pglogrepl.LSN, pglogrepl.StartReplicationOptions) error {
	return nil
}
func (c *fakeConn) Close(context.Context) error { c.closed = true; return nil }
func (c *fakeConn) CreateReplicationSlot(context.Context, string, string, pglogrepl.CreateReplicationSlotOptions) (pglogrepl.CreateReplicationSlotResult, error) {
	return pglogrepl.CreateReplicationSlotResult{}, nil
}
func (c *fakeConn) DropReplicationSlot(context.Context, string, pglogrepl.DropReplicationSlotOptions) error {
	return nil
}
func (c *fakeConn) IdentifySystem(context.Context) (pglogrepl.IdentifySystemResult, error) {
	c.w.drain()
	c.w.log = append(c.w.log, Obs{K: "identify"})
	return pglogrepl.IdentifySystemResult{XLogPos: pglogrepl.LSN(c.w.script[c.w.pos-1].XLog)}, nil
}

func keepalive(walEnd uint64, reply bool) pgproto3.BackendMessage {
	d := make([]byte, 18)
	d[0] = pglogrepl.PrimaryKeepaliveMessageByteID
	binary.BigEndian.PutUint64(d[1:9], walEnd)
	if reply {
		d[17] = 1
	}
	return &pgproto3.CopyData{Data: d}
}

func xlogData(wal uint64, payload string) pgproto3.BackendMessage {
	d := make([]byte, 25+len(payload))
	d[0] = pglogrepl.XLogDataByteID
	binary.BigEndian.PutUint64(d[1:9], wal)
	binary.BigEndian.PutUint64(d[9:17], wal)
	copy(d[25:], payload)
	return &pgproto3.CopyData{Data: d}
}

func (c *fakeConn) ReceiveMessage(ctx context.Context) (pgproto3.BackendMessage, error) {
	w := c.w
	w.drain()
	w.log = append(w.log, Obs{K: "recv"})
	if w.pos >= len(w.script) {
		// script exhausted (only when the last scripted event was not fatal): stop the client
		w.sh.CancelFunc()
		return nil, errors.New("script exhausted")
	}
	e := w.script[w.pos]
	w.pos++
	for _, v := range e.Inject {
		w.progress <- v
	}
	if e.PClose && !w.pclosed {
		close(w.progress)
		w.pclosed = true
	}
	switch e.Kind {
	case "xlog":
		switch e.X {
		case "begin":
			return xlogData(e.Wal, "BEGIN "+e.Txn), nil
		case "commit":
			return xlogData(e.Wal, "COMMIT "+e.Txn), nil
		case "change":
			return xlogData(e.Wal, "table public.t: "+e.Op+": id[integer]:1 v[text]:'x'"), nil
		case "badtext":
			return xlogData(e.Wal, "garbage that is no test_decoding output"), nil
		default: // short: CopyData XLogData shorter than its 24 byte header
			return &pgproto3.CopyData{Data: []byte{pglogrepl.XLogDataByteID, 1, 2, 3}}, nil
		}
	case "keepalive":
		if e.Reply {
			now := time.Now()
			if e.Slow {
				time.Sleep(130 * time.Millisecond)
			} else if !w.lastKA.IsZero() && now.Sub(w.lastKA) > 10*time.Millisecond {
				w.tooSlow = true
			}
			w.lastKA = time.Now()
		}
		return keepalive(e.Wal, e.Reply), nil
	case "keepalive-bad":
		return &pgproto3.CopyData{Data: []byte{pglogrepl.PrimaryKeepaliveMessageByteID, 1, 2}}, nil
	case "nil":
		return nil, nil
	case "timeout":
		return nil, fmt.Errorf("timeout: %w", context.DeadlineExceeded)
	case "closed-err":
		c.closed = true
		return nil, errors.New("conn closed")
	case "other-err":
		return nil, errors.New("unexpected EOF")
	case "error-response":
		return &pgproto3.ErrorResponse{Severity: "ERROR", Message: "could not decode"}, nil
	case "copy-other":
		return &pgproto3.CopyData{Data: []byte{'x', 1, 2, 3}}, nil
	case "param":
		return &pgproto3.ParameterStatus{Name: "a", Value: "b"}, nil
	}
	return &pgproto3.CopyDone{}, nil
}

func runImpl(c Case) (log []Obs, unreliable bool) {
	sh := shutdown.NewShutdownHandler()
	statsCh := make(chan stats.Stat, 1<<16)
	w := &world{progress: make(chan uint64, 1<<12), sh: sh}
	w.script = append([]Event{c.First}, c.Events...)
	mgr := &fakeMgr{w}
	r := rclient.New(sh, statsCh, mgr, 1<<14, time.Hour)
	w.out = r.GetOutputChan()
	w.lastKA = time.Now()
	done := make(chan struct{})
	go func() { r.Start(w.progress); close(done) }()
	select {
	case <-done:
	case <-time.After(20 * time.Second):
		w.log = append(w.log, Obs{K: "HANG"})
		sh.CancelFunc()
		return w.log, true
	}
	w.drain()
	w.log = append(w.log, Obs{K: "stop"})
	return w.log, w.tooSlow
}

// ---- Gallina ----
func evGallina(e Event) string {
	switch e.Kind {
	case "xlog":
		k := "XShort"
		switch e.X {
		case "begin":
			k = "(XBegin " + core.GStr(e.Txn) + ")"
		case "commit":
			k = "(XCommit " + core.GStr(e.Txn) + ")"
		case "change":
			k = "(XChange " + core.GStr(e.Op) + ")"
		case "badtext":
			k = "XBadText"
		}
		return fmt.Sprintf("(EXLog %s %s)", core.GN(e.Wal), k)
	case "keepalive":
		return fmt.Sprintf("(EKeepalive %s %s %s)", core.GN(e.Wal), core.GBool(e.Reply), core.GBool(e.Slow))
	case "keepalive-bad":
		return "EKeepaliveBad"
	case "nil":
		return "ENil"
	case "timeout":
		return "ETimeout"
	case "closed-err":
		return "EClosedErr"
	case "other-err":
		return "EOtherErr"
	case "error-response":
		return fmt.Sprintf("(EErrorResponse %s)", core.GN(e.XLog))
	case "copy-other":
		return "ECopyOther"
	case "param":
		return "EParam"
	}
	return "EUnexpected"
}

func callsProgressAgain(e Event) bool {
	return e.Kind == "timeout" || (e.Kind == "keepalive" && e.Reply)
}

func nlist(vs []uint64) string {
	s := make([]string, len(vs))
	for i, v := range vs {
		s[i] = core.GN(v)
	}
	return core.GList(s)
}

func caseGallina(c Case, log []Obs) string {
	// values injected inside receive k are seen by the next handleProgress call: the second one
	// of iteration k if its event has one, else the loop-head call of iteration k+1
	its := make([]string, len(c.Events))
	carry := c.First.Inject
	carryClosed := c.First.PClose
	for i, e := range c.Events {
		p1, c1 := carry, carryClosed
		var p2 []uint64
		c2 := false
		if callsProgressAgain(e) {
			p2, c2 = e.Inject, e.PClose || c1
			carry, carryClosed = nil, c2
		} else {
			carry, carryClosed = e.Inject, e.PClose || c1
		}
		its[i] = fmt.Sprintf("mkIter false %s %s %s %s %s", nlist(p1), core.GBool(c1), evGallina(e), nlist(p2), core.GBool(c2))
	}
	obs := []string{}
	for _, o := range log {
		switch o.K {
		case "getstart":
			obs = append(obs, fmt.Sprintf("CGetStart %s %s", core.GN(o.Lsn), core.GBool(o.Fresh)))
		case "getplain":
			obs = append(obs, "CGetPlain "+core.GBool(o.Fresh))
		case "close":
			obs = append(obs, "CClose")
		case "identify":
			obs = append(obs, "CIdentify")
		case "send":
			obs = append(obs, "CSend "+core.GN(o.Lsn))
		case "recv":
			obs = append(obs, "CRecv")
		case "out":
			obs = append(obs, fmt.Sprintf("COut %s %s %s %s", core.GStr(o.Op), core.GStr(o.Txn), core.GStr(o.Key), core.GN(o.Wal)))
		case "stop":
			obs = append(obs, "CStop")
		default:
			obs = append(obs, "CStop; CStop") // HANG: never matches
		}
	}
	return core.GTuple(evGallina(c.First), core.GList(its), core.GList(obs))
}

// ---- monitors on the implementation's log (independent of the model) ----
func monitor(c Case, log []Obs) []core.Violation {
	var vs []core.Violation
	add := func(p, sig, what string) {
		vs = append(vs, core.Violation{Property: p, Signature: sig, What: what, Case: c})
	}
	script := append([]Event{c.First}, c.Events...)
	// walk the log and the script together: the k-th "recv" consumes script[k]
	k := -1
	injected := map[uint64]bool{}
	var s0 uint64
	haveS0 := false
	var lastSend uint64
	sent := false
	var maxCommit uint64 // highest COMMIT position received since the last recovery (or recovery position)
	pendingReply := false
	lastBeginTxn := ""
	curKey := ""
	keyOfBegin := map[string]bool{}
	commitsPerKey := map[string]int{}
	expectBeginNext := false
	for i, o := range log {
		switch o.K {
		case "HANG":
			add("C17", "client-hangs", "the client did not stop within 20 s of a fatal event")
		case "recv":
			if pendingReply {
				add("C18", "reply-requested-not-answered-before-next-read", fmt.Sprintf("log position %d: the client read again without answering a keepalive that requested a reply", i))
			}
			pendingReply = false
			k++
			if k < len(script) {
				e := script[k]
				for _, v := range e.Inject {
					injected[v] = true
				}
				if k == 0 && e.Kind == "keepalive" {
					s0, haveS0 = e.Wal, true
				}
				if k == 0 && e.Kind == "keepalive-bad" {
					// an unparsable first keepalive (never sent by PostgreSQL): the error is logged and
					// the session starts at position 0
					s0, haveS0 = 0, true
				}
				if e.Kind == "keepalive" && e.Reply && k > 0 {
					pendingReply = true
				}
				if e.Kind == "xlog" && e.X == "commit" && e.Wal > maxCommit {
					maxCommit = e.Wal
				}
				if e.Kind == "error-response" {
					maxCommit = e.XLog
				}
				if e.Kind == "xlog" && e.X == "begin" {
					lastBeginTxn = e.Txn
				}
			}
		case "send":
			pendingReply = false
			if !o.Reply {
				add("C18", "status-without-reply-request-flag", "a standby status update was sent without ReplyRequested")
			}
			if sent && o.Lsn < lastSend {
				add("C03", "ack-decreased", fmt.Sprintf("acknowledged %d after %d", o.Lsn, lastSend))
			}
			if !(haveS0 && o.Lsn == s0) && !injected[o.Lsn] && !(k == 0 && !haveS0 && o.Lsn == 0) {
				add("C03", "ack-not-from-ledger", fmt.Sprintf("acknowledged %d, which is neither the session start position %d nor a value delivered on the progress channel", o.Lsn, s0))
			}
			lastSend, sent = o.Lsn, true
		case "getstart":
			if o.Fresh && k >= 0 {
				// the event being handled may itself be the COMMIT just counted: the request is issued
				// either before the receive (loop head) or while handling; in both cases maxCommit as of
				// the events consumed so far is what the client knows
				if o.Lsn != maxCommit {
					add("C03", "restart-position-wrong", fmt.Sprintf("replication re-requested from %d, the last COMMIT received (or recovery position) is %d", o.Lsn, maxCommit))
				}
			}
			if o.Fresh && k < 0 && o.Lsn != 0 {
				add("C03", "initial-start-position-not-server-chosen", fmt.Sprintf("first START_REPLICATION at %d", o.Lsn))
			}
		case "out":
			if !c.PgLike {
				continue
			}
			if o.Op == "BEGIN" {
				if keyOfBegin[o.Key] {
					add("C07", "delivery-key-reused", fmt.Sprintf("two forwarded BEGINs share the key %s", o.Key))
				}
				keyOfBegin[o.Key] = true
				curKey = o.Key
				expectBeginNext = false
			}
			if expectBeginNext {
				continue
			}
			if o.Txn != lastBeginTxn {
				add("C07", "message-attributed-to-wrong-transaction", fmt.Sprintf("forwarded %s carries transaction %q, the last BEGIN received was %q", o.Op, o.Txn, lastBeginTxn))
			}
			if o.Key != curKey {
				add("C07", "message-carries-foreign-key", fmt.Sprintf("forwarded %s carries key %q, the current delivery's key is %q", o.Op, o.Key, curKey))
			}
			if !strings.HasPrefix(o.Key, o.Txn+"-") {
				add("C07", "key-not-derived-from-transaction", fmt.Sprintf("key %q for transaction %q", o.Key, o.Txn))
			}
			if o.Op == "COMMIT" {
				commitsPerKey[o.Key]++
				if commitsPerKey[o.Key] > 1 {
					add("C07", "two-commits-for-one-key", fmt.Sprintf("two COMMITs forwarded with key %s", o.Key))
				}
			}
		}
	}
	// C07: a BEGIN that arrives while the previous transaction has no COMMIT is not forwarded,
	// the connection is closed and the stream is re-requested from the last COMMIT received.
	if c.PgLike {
		vs = append(vs, beginWithoutCommitMonitor(c, log)...)
	}
	return vs
}

func beginWithoutCommitMonitor(c Case, log []Obs) []core.Violation {
	var vs []core.Violation
	script := append([]Event{c.First}, c.Events...)
	k := -1
	open := false  // a BEGIN was received on this delivery and no COMMIT yet
	first := true  // nothing accepted yet since start / since the last forced reconnect
	var maxCommit uint64
	for i := 0; i < len(log); i++ {
		if log[i].K != "recv" {
			continue
		}
		k++
		if k >= len(script) {
			break
		}
		e := script[k]
		if e.Kind != "xlog" {
			continue
		}
		// the log entries produced while handling this event: up to the next recv
		j := i + 1
		for j < len(log) && log[j].K != "recv" {
			j++
		}
		seg := log[i+1 : j]
		switch e.X {
		case "commit":
			open = false
			if e.Wal > maxCommit {
				maxCommit = e.Wal
			}
		case "begin":
			if open && !first {
				forwarded, closed := false, false
				for _, o := range seg {
					if o.K == "out" && o.Op == "BEGIN" {
						forwarded = true
					}
					if o.K == "close" {
						closed = true
					}
				}
				if forwarded {
					vs = append(vs, core.Violation{Property: "C07", Signature: "begin-without-commit-forwarded", What: fmt.Sprintf("BEGIN %s (event %d) was forwarded although the previous transaction has no COMMIT", e.Txn, k), Case: c})
				}
				if !closed {
					vs = append(vs, core.Violation{Property: "C07", Signature: "begin-without-commit-no-reconnect", What: fmt.Sprintf("BEGIN %s (event %d) without a preceding COMMIT did not close the connection", e.Txn, k), Case: c})
				}
				first = true
				open = true
			} else {
				open = true
				first = false
			}
		}
	}
	return vs
}

// ---- generators ----
func genPgLike(rng *rand.Rand) Case {
	c := Case{Mode: "pg-like", PgLike: true}
	s0 := uint64(1000 + rng.Intn(1000))
	c.First = Event{Kind: "keepalive", Wal: s0, Reply: rng.Intn(2) == 0}
	wal := s0
	type txn struct {
		id      string
		begin   uint64
		changes []uint64
		commit  uint64
	}
	var txns []txn
	nt := 1 + rng.Intn(6)
	for i := 0; i < nt; i++ {
		t := txn{id: fmt.Sprintf("%d", 800+i)}
		wal += uint64(1 + rng.Intn(40))
		t.begin = wal
		if i > 0 && rng.Intn(3) == 0 {
			// a concurrent transaction: its first record was written before the previous one committed
			t.begin = txns[i-1].commit - uint64(1+rng.Intn(3))
		}
		for j := rng.Intn(5); j > 0; j-- {
			wal += uint64(1 + rng.Intn(40))
			t.changes = append(t.changes, wal)
		}
		wal += uint64(1 + rng.Intn(40))
		t.commit = wal
		txns = append(txns, t)
	}
	progress := s0
	var acked []uint64
	noise := func() {
		for rng.Intn(4) == 0 {
			var e Event
			switch rng.Intn(7) {
			case 0:
				e = Event{Kind: "keepalive", Wal: wal, Reply: true}
			case 1:
				e = Event{Kind: "keepalive", Wal: wal, Reply: false}
			case 2:
				e = Event{Kind: "timeout"}
			case 3:
				e = Event{Kind: "nil"}
			case 4:
				e = Event{Kind: "param"}
			case 5:
				e = Event{Kind: "copy-other"}
			default:
				e = Event{Kind: "xlog", X: "short"}
			}
			c.Events = append(c.Events, e)
		}
	}
	replyBudget := 4 // stay below the rapid-heartbeat threshold in ordinary cases
	inject := func(e *Event) {
		if rng.Intn(3) != 0 {
			return
		}
		for n := 1 + rng.Intn(3); n > 0; n-- {
			switch rng.Intn(6) {
			case 0:
				e.Inject = append(e.Inject, progress) // repeated
			case 1:
				if progress > 5 {
					e.Inject = append(e.Inject, progress-uint64(1+rng.Intn(5))) // decreasing
				}
			default:
				if len(acked) > 0 {
					v := acked[rng.Intn(len(acked))]
					e.Inject = append(e.Inject, v)
					if v > progress {
						progress = v
					}
				}
			}
		}
	}
	// a small PostgreSQL: each connection delivers the transactions not yet received completely,
	// from the BEGIN of the first one; the generator tracks the client's framing state to know
	// when the client itself forces a reconnect (BEGIN without a preceding COMMIT)
	next := 0
	sawCommit, first := false, true
	faults := 3
	emit := func(m Event) {
		inject(&m)
		c.Events = append(c.Events, m)
		noise()
	}
	for next < len(txns) {
	conn:
		for j := next; j < len(txns); j++ {
			t := txns[j]
			// BEGIN
			if faults > 0 && rng.Intn(14) == 0 {
				faults--
				c.Events = append(c.Events, Event{Kind: "closed-err"})
				break conn
			}
			if !sawCommit && !first {
				emit(Event{Kind: "xlog", X: "begin", Txn: t.id, Wal: t.begin}) // dropped by the client, which reconnects
				sawCommit, first = false, true
				break conn
			}
			emit(Event{Kind: "xlog", X: "begin", Txn: t.id, Wal: t.begin})
			sawCommit, first = false, false
			broke := false
			for _, w := range t.changes {
				if faults > 0 && rng.Intn(14) == 0 {
					faults--
					c.Events = append(c.Events, Event{Kind: "closed-err"})
					broke = true
					break
				}
				emit(Event{Kind: "xlog", X: "change", Op: []string{"INSERT", "UPDATE", "DELETE"}[rng.Intn(3)], Wal: w})
			}
			if broke {
				break conn
			}
			if faults > 0 && rng.Intn(10) == 0 {
				faults--
				if rng.Intn(2) == 0 {
					c.Events = append(c.Events, Event{Kind: "closed-err"})
					break conn
				}
				continue // the COMMIT is lost: the next BEGIN arrives instead
			}
			emit(Event{Kind: "xlog", X: "commit", Txn: t.id, Wal: t.commit})
			sawCommit = true
			acked = append(acked, t.commit)
			next = j + 1
		}
		if faults == 0 && next < len(txns) {
			// no fault budget left: the remaining transactions arrive cleanly (after the pending redelivery)
			continue
		}
		if next >= len(txns) {
			break
		}
		// guard against a final lost COMMIT looping for ever
		if faults == 0 {
			continue
		}
	}
	// keep reply-requested keepalives at most 5 per case (the sixth within 100 ms stops the client)
	n := 0
	if c.First.Reply {
		// the first message is consumed by the prologue, not by the keepalive handler
	}
	for j := range c.Events {
		if c.Events[j].Kind == "keepalive" && c.Events[j].Reply {
			n++
			if n > 5 {
				c.Events[j].Reply = false
			}
		}
	}
	_ = replyBudget
	c.Events = append(c.Events, Event{Kind: "other-err"})
	return c
}

func genSoup(rng *rand.Rand) Case {
	c := Case{Mode: "soup"}
	c.First = Event{Kind: "keepalive", Wal: uint64(rng.Intn(3000)), Reply: true}
	if rng.Intn(15) == 0 {
		c.First = []Event{{Kind: "keepalive-bad"}, {Kind: "xlog", X: "begin", Txn: "1", Wal: 5}, {Kind: "timeout"}, {Kind: "nil"}, {Kind: "param"}}[rng.Intn(5)]
	}
	n := 1 + rng.Intn(25)
	wal := uint64(1000)
	replies := 0
	rapid := rng.Intn(12) == 0 // a dedicated share: enough back-to-back reply requests to trip the heuristic
	slowFirst := rng.Intn(2) == 0
	for i := 0; i < n; i++ {
		wal += uint64(rng.Intn(30))
		var e Event
		switch r := rng.Intn(20); {
		case r < 3:
			e = Event{Kind: "xlog", X: "begin", Txn: fmt.Sprintf("%d", 900+rng.Intn(3)), Wal: wal}
		case r < 6:
			e = Event{Kind: "xlog", X: "commit", Txn: fmt.Sprintf("%d", 900+rng.Intn(3)), Wal: wal - uint64(rng.Intn(20))}
		case r < 9:
			e = Event{Kind: "xlog", X: "change", Op: "INSERT", Wal: wal}
		case r < 11:
			e = Event{Kind: "timeout"}
		case r < 12:
			e = Event{Kind: "closed-err"}
		case r < 14:
			e = Event{Kind: "error-response", XLog: wal + uint64(rng.Intn(500))}
		case r < 15:
			e = Event{Kind: "nil"}
		case r < 16:
			e = Event{Kind: "xlog", X: "short"}
		case r < 17:
			e = Event{Kind: []string{"param", "copy-other"}[rng.Intn(2)]}
		default:
			e = Event{Kind: "keepalive", Wal: wal, Reply: rng.Intn(3) != 0}
			if e.Reply {
				replies++
				if !rapid && replies > 5 {
					e.Reply = false
				}
			}
		}
		if rng.Intn(3) == 0 {
			for k := 1 + rng.Intn(3); k > 0; k-- {
				e.Inject = append(e.Inject, uint64(rng.Intn(3000)))
			}
		}
		if rng.Intn(60) == 0 {
			e.PClose = true
		}
		c.Events = append(c.Events, e)
	}
	if rapid {
		for i := 0; i < 7; i++ {
			e := Event{Kind: "keepalive", Wal: wal, Reply: true}
			if i == 0 && slowFirst {
				e.Slow = true
			}
			c.Events = append(c.Events, e)
		}
	}
	if rng.Intn(6) == 0 {
		c.Events = append(c.Events, []Event{{Kind: "unexpected"}, {Kind: "keepalive-bad"}, {Kind: "xlog", X: "badtext", Wal: wal}}[rng.Intn(3)])
	}
	c.Events = append(c.Events, Event{Kind: "other-err"})
	return c
}

func loadCorpus(dir string) []Case {
	var out []Case
	files, _ := filepath.Glob(filepath.Join(dir, "CLIENT", "*.json"))
	sort.Strings(files)
	for _, f := range files {
		if b, err := os.ReadFile(f); err == nil {
			var c Case
			if json.Unmarshal(b, &c) == nil {
				c.Mode = "corpus:" + strings.TrimSuffix(filepath.Base(f), ".json")
				out = append(out, c)
			}
		}
	}
	return out
}

func init() {
	core.Register(core.Component{Name: "CLIENT", Replay: func(cs json.RawMessage) string {
		var c Case
		if err := json.Unmarshal(cs, &c); err != nil {
			return "bad case: " + err.Error()
		}
		log, unreliable := runImpl(c)
		var sb strings.Builder
		for _, o := range log {
			j, _ := json.Marshal(o)
			sb.Write(j)
			sb.WriteString("\n")
		}
		fmt.Fprintf(&sb, "timing-unreliable=%v\n", unreliable)
		for _, v := range monitor(c, log) {
			fmt.Fprintf(&sb, "MONITOR %s [%s]: %s\n", v.Property, v.Signature, v.What)
		}
		return sb.String()
	}, Run: func(rng *rand.Rand, n int, corpusDir string, rep *core.Report) string {
		cases := loadCorpus(corpusDir)
		for i := 0; i < n; i++ {
			if rng.Intn(10) < 6 {
				cases = append(cases, genPgLike(rng))
			} else {
				cases = append(cases, genSoup(rng))
			}
		}
		rep.Rule = "corpus first, then seeded scripts for a fake connection manager/connection: 60% PostgreSQL-like streams (1-6 transactions, disconnects and lost COMMITs with redelivery, keepalives, timeouts, nil/short/other messages, progress values injected increasing/repeated/decreasing/in bursts), 40% adversarial soup incl. error responses anywhere, closed progress channel, rapid reply requests, unparsable payloads, bad first message. Non-trivial: >= 1 reconnect or recovery or >= 2 acknowledgements; distinct by event-kind sequence."
		var sb strings.Builder
		sb.WriteString("From Bifrost.model Require Import Base Client.\nDefinition cases : list ccase := [\n")
		seen := map[string]bool{}
		kept := 0
		for _, c := range cases {
			log, unreliable := runImpl(c)
			if unreliable {
				core.Bump(rep, "dropped:timing-class-unreliable")
				continue
			}
			if kept > 0 {
				sb.WriteString(";\n")
			}
			kept++
			sb.WriteString(caseGallina(c, log))
			rep.CaseIndex = append(rep.CaseIndex, core.RawJSON(c))
			rep.Evaluations++
			core.Bump(rep, "mode:"+strings.SplitN(c.Mode, ":", 2)[0])
			sig := ""
			for _, e := range c.Events {
				core.Bump(rep, "ev:"+e.Kind+e.X)
				sig += e.Kind[:2] + e.X + fmt.Sprint(len(e.Inject))
			}
			fresh, sends := 0, 0
			for _, o := range log {
				if o.K == "getstart" && o.Fresh {
					fresh++
				}
				if o.K == "send" {
					sends++
				}
			}
			rep.Distribution["obs:fresh-starts"] += fresh
			rep.Distribution["obs:acks"] += sends
			if (fresh >= 2 || sends >= 2) && !seen[sig] {
				rep.Nontrivial++
			}
			seen[sig] = true
			if len(rep.Samples) < 2 && fresh >= 2 && len(c.Events) < 16 {
				rep.Samples = append(rep.Samples, map[string]interface{}{"case": c, "log": log})
			}
			rep.Violations = append(rep.Violations, monitor(c, log)...)
		}
		sb.WriteString("\n].\nDefinition M := Eval vm_compute in mismatches ccase_ok cases.\nPrint M.\n")
		return sb.String()
	}})
}
