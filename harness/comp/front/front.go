//go:build verif

// Package front: component FRONT — the three stateless front stages of pg-bifrost composed the way
// app/runner.go composes them:
//
//	client output chan --> filter.New(...).Start() --> partitioner.New(...).Start() --> marshaller.New(...).Start()
//
// What is real: filter.New / partitioner.New / marshaller.New with the argument shapes runner.go
// passes (one shared shutdown.ShutdownHandler, one shared stats channel, each stage reading the
// previous stage's unbuffered OutputChan), the three Start loops in their own goroutines started
// in runner.go's order, partitioner.GetPartitionMethod on the method name, the test_decoding
// decoder (replication.XLogDataToWalMessage) for the "decoded" share of the cases, goccy/go-json.
// What is fake: the two ends.  A feeder goroutine plays the replication client (it stamps
// Pr.Transaction and TimeBasedKey on every message as client.go does and writes to a channel of
// the client's capacity); the harness reads the marshaller's OutputChan where the batcher would.
// The stats channel is drained by a goroutine (the aggregator's role).
//
// End of a run is a rendezvous, never silence: after the case's messages the feeder sends one
// extra COMMIT marker with a reserved WAL position (markers pass every filter).  All channels
// between the stages are unbuffered and the stages are sequential, so when that marker leaves the
// marshaller everything before it has left too.  Then the input is closed and the output is read
// until the marshaller closes it.  If the marshaller's output is closed BEFORE the marker came
// out, a stage stopped (a recovered panic cancels the shared context): observed "stopped".  In
// that situation the one or two messages in flight between the stages may legitimately be
// dropped (every stage selects between its send and the cancellation); the model accepts exactly
// that (Front.v, max_lost) and the monitor asks only for an initial segment.
// Every wait is bounded by a generous timeout; a timeout drops the case as infrastructure.
//
// Cases run strictly one after the other (the marshaller keeps package-level buffers).
package front

import (
	"encoding/json"
	"fmt"
	"hash/crc32"
	"math/rand"
	"os"
	"path/filepath"
	"regexp"
	"sort"
	"strconv"
	"strings"
	"time"

	"verifharness/core"

	"github.com/Nextdoor/pg-bifrost.git/filter"
	"github.com/Nextdoor/pg-bifrost.git/marshaller"
	"github.com/Nextdoor/pg-bifrost.git/parselogical"
	"github.com/Nextdoor/pg-bifrost.git/partitioner"
	"github.com/Nextdoor/pg-bifrost.git/replication"
	"github.com/Nextdoor/pg-bifrost.git/shutdown"
	"github.com/Nextdoor/pg-bifrost.git/stats"
	"github.com/jackc/pglogrepl"
)

// ---- case ----

type fwal struct {
	Op  string `json:"op"`
	Rel string `json:"rel"`
	Txn string `json:"txn"` // Pr.Transaction as the client stamps it
	Key string `json:"key"` // TimeBasedKey
	Wal uint64 `json:"wal"` // WalStart; pairwise distinct within a case (it identifies the message at the output)
}

type frcase struct {
	Mode string `json:"mode"`
	// Decoded: every message is printed as test_decoding text and decoded by the real parser, as in
	// production; the relations of such a case are names as PostgreSQL prints them.
	Decoded   bool     `json:"decoded,omitempty"`
	Whitelist bool     `json:"whitelist"`
	Regex     bool     `json:"regex"`
	Tablelist []string `json:"tablelist"`
	Method    string   `json:"method"` // name as given to --partition-method
	Buckets   int      `json:"buckets"`
	NoOld     bool     `json:"no_old,omitempty"` // noMarshalOldValue
	Msgs      []fwal   `json:"msgs"`
}

type frout struct {
	ID      int // index of the input message with this WalStart; -1 = no such input message
	Op      string
	Table   string
	JsonLen int
	HasJson bool
	Key     string
	Txn     string
	Wal     uint64
	PKey    string
}

type frobs struct {
	Out           []frout
	Stopped       bool   // the marshaller's output was closed before the end marker came out
	AfterSentinel int    // messages that came out after the end marker (must be 0)
	FilterHeld    int    // messages the filter was still trying to hand to a partitioner that had already returned
	Infra         string // non-empty: the case could not be run (timeout, decoder refused a message, ...)
}

const sentinelWal = ^uint64(0) - 7
const waitLimit = 30 * time.Second

func isMarker(op string) bool { return op == "BEGIN" || op == "COMMIT" }

// toWal builds the *replication.WalMessage the client would put on its output channel.
func toWal(c frcase, i int, m fwal) (*replication.WalMessage, error) {
	if c.Decoded {
		var text string
		switch m.Op {
		case "BEGIN", "COMMIT":
			text = m.Op + " " + m.Txn
		case "TRUNCATE":
			text = "table " + m.Rel + ": TRUNCATE: (no-flags)"
		case "UPDATE":
			text = fmt.Sprintf("table %s: UPDATE: old-key: id[integer]:%d new-tuple: id[integer]:%d note[text]:'x: y %d'", m.Rel, i, i+1, i)
		case "DELETE":
			text = fmt.Sprintf("table %s: DELETE: id[integer]:%d", m.Rel, i)
		default:
			text = fmt.Sprintf("table %s: %s: id[integer]:%d note[text]:'it''s %d' big[character varying]:null", m.Rel, m.Op, i, i)
		}
		wm, err := replication.XLogDataToWalMessage(pglogrepl.XLogData{WALStart: pglogrepl.LSN(m.Wal), ServerWALEnd: pglogrepl.LSN(m.Wal), WALData: []byte(text)})
		if err != nil {
			return nil, fmt.Errorf("message %d %q: %v", i, text, err)
		}
		if wm.Pr.Operation != m.Op || (!isMarker(m.Op) && wm.Pr.Relation != m.Rel) {
			return nil, fmt.Errorf("message %d %q decoded as (%q, %q)", i, text, wm.Pr.Operation, wm.Pr.Relation)
		}
		// client.go: wal.Pr.Transaction = c.transaction; wal.TimeBasedKey = c.timeBasedKey
		wm.Pr.Transaction = m.Txn
		wm.TimeBasedKey = m.Key
		return wm, nil
	}
	pr := &parselogical.ParseResult{Operation: m.Op, Relation: m.Rel, Transaction: m.Txn,
		Columns: map[string]parselogical.ColumnValue{}, OldColumns: map[string]parselogical.ColumnValue{}}
	if !isMarker(m.Op) && m.Op != "TRUNCATE" {
		pr.Columns["id"] = parselogical.ColumnValue{Value: strconv.Itoa(i), Type: "integer"}
		pr.Columns["note"] = parselogical.ColumnValue{Value: strings.Repeat("n", i%7), Type: "text", Quoted: true}
		if m.Op == "UPDATE" {
			pr.OldColumns["id"] = parselogical.ColumnValue{Value: strconv.Itoa(i + 1), Type: "integer"}
		}
	}
	return &replication.WalMessage{WalStart: m.Wal, ServerWalEnd: m.Wal, TimeBasedKey: m.Key, Pr: pr}, nil
}

func validCase(c frcase) string {
	seen := map[uint64]bool{}
	for i, m := range c.Msgs {
		if m.Wal == sentinelWal {
			return fmt.Sprintf("message %d uses the reserved WAL position", i)
		}
		if seen[m.Wal] {
			return fmt.Sprintf("message %d repeats WAL position %d (positions identify messages at the output)", i, m.Wal)
		}
		seen[m.Wal] = true
	}
	if c.Buckets < 0 {
		return "negative bucket count"
	}
	return ""
}

// runFrontImpl drives the three real stages wired as in runner.go.
func runFrontImpl(c frcase) (o frobs) {
	if why := validCase(c); why != "" {
		o.Infra = "invalid case: " + why
		return
	}
	wms := make([]*replication.WalMessage, len(c.Msgs))
	ids := map[uint64]int{}
	for i, m := range c.Msgs {
		wm, err := toWal(c, i, m)
		if err != nil {
			o.Infra = "decoder refused: " + err.Error()
			return
		}
		wms[i] = wm
		ids[m.Wal] = i
	}

	sh := shutdown.NewShutdownHandler()
	defer sh.CancelFunc()
	in := make(chan *replication.WalMessage, 4) // client.New: make(chan *replication.WalMessage, clientBufferSize)
	statsChan := make(chan stats.Stat, 20)      // runner.go: make(chan stats.Stat, clientBufferSize*5)
	statsDone := make(chan struct{})
	go func() {
		for range statsChan {
		}
		close(statsDone)
	}()

	// runner.go New: filter <- client chan; partitioner <- filter.OutputChan; marshaller <- partitioner.OutputChan
	filterInstance := filter.New(sh, in, statsChan, c.Whitelist, c.Regex, c.Tablelist)
	partitionerInstance := partitioner.New(sh, filterInstance.OutputChan, statsChan, partitioner.GetPartitionMethod(c.Method), c.Buckets)
	marshallerInstance := marshaller.New(sh, partitionerInstance.OutputChan, statsChan, c.NoOld)

	// runner.go Start: downstream first
	marshallerDone, partitionerDone, filterDone := make(chan struct{}), make(chan struct{}), make(chan struct{})
	go func() { defer close(marshallerDone); marshallerInstance.Start() }()
	go func() { defer close(partitionerDone); partitionerInstance.Start() }()
	go func() { defer close(filterDone); filterInstance.Start() }()

	useSentinel := len(c.Msgs) > 0
	feederDone := make(chan struct{})
	go func() {
		defer close(feederDone)
		send := func(wm *replication.WalMessage) bool {
			select {
			case in <- wm:
				return true
			case <-sh.TerminateCtx.Done():
				return false
			}
		}
		for _, wm := range wms {
			if !send(wm) {
				return
			}
		}
		if useSentinel {
			send(&replication.WalMessage{WalStart: sentinelWal, ServerWalEnd: sentinelWal, TimeBasedKey: "end-of-case",
				Pr: &parselogical.ParseResult{Operation: "COMMIT", Transaction: "0"}})
		}
	}()

	record := func(mm *marshaller.MarshalledMessage) {
		id, ok := ids[mm.WalStart]
		if !ok {
			id = -1
		}
		o.Out = append(o.Out, frout{ID: id, Op: mm.Operation, Table: mm.Table, JsonLen: len(mm.Json), HasJson: mm.Json != nil,
			Key: mm.TimeBasedKey, Txn: mm.Transaction, Wal: mm.WalStart, PKey: mm.PartitionKey})
	}

	deadline := time.After(waitLimit)
	closed, sentinelSeen := false, false
	if !useSentinel {
		<-feederDone
		close(in)
	}
	for !closed && !sentinelSeen {
		select {
		case mm, ok := <-marshallerInstance.OutputChan:
			switch {
			case !ok:
				closed = true
			case mm == nil:
				o.Infra = "nil message at the marshaller's output"
				closed = true
			case mm.WalStart == sentinelWal:
				sentinelSeen = true
			default:
				record(mm)
			}
		case <-deadline:
			o.Infra = "timeout waiting for the marshaller's output"
			sh.CancelFunc()
			closed = true
		}
	}
	if sentinelSeen {
		// everything before the end marker is out; end of input as in a shutdown: close and drain
		<-feederDone
		close(in)
		for drained := false; !drained; {
			select {
			case mm, ok := <-marshallerInstance.OutputChan:
				if !ok {
					drained = true
				} else if mm != nil {
					o.AfterSentinel++
				}
			case <-deadline:
				o.Infra = "timeout waiting for the marshaller to close its output"
				sh.CancelFunc()
				drained = true
			}
		}
	} else if useSentinel {
		o.Stopped = o.Infra == ""
	}
	select {
	case <-feederDone:
	case <-time.After(waitLimit):
		o.Infra = "timeout waiting for the feeder"
	}
	for _, st := range []struct {
		name string
		done chan struct{}
	}{{"marshaller", marshallerDone}, {"partitioner", partitionerDone}} {
		select {
		case <-st.done:
		case <-time.After(waitLimit):
			o.Infra = "timeout waiting for the " + st.name + " to return"
		}
	}
	if o.Infra == "" {
		// filter.Start sends BEGIN/COMMIT (and everything in pass-through mode) with a bare
		// `f.OutputChan <- msg`, not a select with the cancellation: when the partitioner has
		// stopped, the filter can sit in that send for ever.  The partitioner has returned, nobody
		// else reads this channel any more: take what the filter is holding (it is lost to the
		// pipeline anyway) until the filter closes the channel in its shutdown().
		for closedF := false; !closedF; {
			select {
			case wm, ok := <-filterInstance.OutputChan:
				if !ok {
					closedF = true
				} else if wm != nil {
					o.FilterHeld++
				}
			case <-time.After(waitLimit):
				o.Infra = "timeout waiting for the filter to close its output"
				closedF = true
			}
		}
	}
	if o.Infra == "" {
		select {
		case <-filterDone:
		case <-time.After(waitLimit):
			o.Infra = "timeout waiting for the filter to return"
		}
	}
	if o.Infra == "" {
		close(statsChan)
		<-statsDone
	}
	return
}

// matrix computes, with Go's regexp, which tablelist items do not compile and which
// (item, relation) pairs match (copied from comp/filter).
func matrix(items []string, rels []string) (bad []string, pairs [][2]string) {
	seenItem := map[string]bool{}
	for _, it := range items {
		if seenItem[it] {
			continue
		}
		seenItem[it] = true
		re, err := regexp.Compile(it)
		if err != nil {
			bad = append(bad, it)
			continue
		}
		seenRel := map[string]bool{}
		for _, r := range rels {
			if !seenRel[r] && re.MatchString(r) {
				pairs = append(pairs, [2]string{it, r})
			}
			seenRel[r] = true
		}
	}
	return
}

// ---- Gallina ----

func frontCaseGallina(c frcase, o frobs) string {
	var bad []string
	var pairs [][2]string
	if c.Regex {
		rels := make([]string, len(c.Msgs))
		for i, m := range c.Msgs {
			rels[i] = m.Rel
		}
		bad, pairs = matrix(c.Tablelist, rels)
	}
	gp := make([]string, len(pairs))
	for i, p := range pairs {
		gp[i] = core.GTuple(core.GStr(p[0]), core.GStr(p[1]))
	}
	ws := make([]string, len(c.Msgs))
	for i, m := range c.Msgs {
		ws[i] = fmt.Sprintf("mkWal %s %s %s %s %s %s", core.GN(uint64(i)), core.GStr(m.Op), core.GStr(m.Rel),
			core.GStr(m.Txn), core.GStr(m.Key), core.GN(m.Wal))
	}
	var jl, obs []string
	for _, r := range o.Out {
		id := uint64(4294967295) // no input message has this WAL position
		if r.ID >= 0 {
			id = uint64(r.ID)
			jl = append(jl, core.GTuple(core.GN(id), core.GN(uint64(r.JsonLen))))
		}
		obs = append(obs, core.GTuple(core.GN(id), core.GStr(r.Op), core.GStr(r.Table), core.GN(uint64(r.JsonLen)),
			core.GStr(r.Key), core.GStr(r.Txn), core.GN(r.Wal), core.GStr(r.PKey)))
	}
	cfg := core.GTuple(core.GBool(c.Whitelist), core.GBool(c.Regex), core.GStrList(c.Tablelist))
	return core.GTuple(cfg, core.GStrList(bad), core.GList(gp), core.GStr(c.Method), core.GN(uint64(c.Buckets)),
		core.GList(ws), core.GList(jl), core.GList(obs), core.GBool(o.Stopped))
}

// ---- monitor: stated directly on the implementation's output, independent of the Coq model ----
//
// In the domain (every regexp of a regexp list compiles; bucket count >= 1 when the method is
// transaction-bucket) the stages must not stop and the output must be EXACTLY: every BEGIN/COMMIT
// and every change whose relation the configured list permits, once each, in input order, with
// operation / table / transaction / delivery key / WAL position unchanged, a JSON document on every
// change and none on a marker, and the partition key the method prescribes (Go's own crc32).
// Outside the domain a stage may stop; what came out must still be an initial segment of that.

func permittedGo(whitelist, regex bool, list []string, rel string) bool {
	hit := false
	for _, it := range list {
		if regex {
			if re, err := regexp.Compile(it); err == nil && re.MatchString(rel) {
				hit = true
			}
		} else if it == rel {
			hit = true
		}
	}
	return hit == whitelist
}

func wantKey(method string, buckets int, m fwal) (string, bool) {
	switch method {
	case "tablename":
		return m.Rel, true
	case "transaction":
		return m.Txn, true
	case "transaction-bucket":
		if buckets < 1 {
			return "", false
		}
		return strconv.Itoa(int(crc32.ChecksumIEEE([]byte(m.Txn))) % buckets), true
	}
	return "", true // "none" and every unknown name
}

func inDomain(c frcase) bool {
	if c.Regex {
		for _, it := range c.Tablelist {
			if _, err := regexp.Compile(it); err != nil {
				return false
			}
		}
	}
	return !(c.Method == "transaction-bucket" && c.Buckets < 1)
}

func frontMonitor(c frcase, o frobs) []core.Violation {
	var vs []core.Violation
	bad := func(sig, what string) {
		prop := "C04"
		switch sig {
		case "partition-key":
			prop = "C06"
		case "filtered-change-forwarded", "forwarded-change-missing":
			prop = "C08"
		}
		vs = append(vs, core.Violation{Property: prop, Signature: "front/" + sig, What: what, Case: c})
		if prop == "C08" {
			// a forwarded change that should have been removed / a removed one that should have been forwarded
			// is also C04's "every change that passes the filter reaches the sink, no other does"
			vs = append(vs, core.Violation{Property: "C04", Signature: "front/" + sig, What: what, Case: c})
		}
	}
	passthrough := !c.Whitelist && len(c.Tablelist) == 0
	var want []int
	for i, m := range c.Msgs {
		if passthrough || isMarker(m.Op) || permittedGo(c.Whitelist, c.Regex, c.Tablelist, m.Rel) {
			want = append(want, i)
		}
	}
	wantSet := map[int]bool{}
	for _, i := range want {
		wantSet[i] = true
	}
	seen := map[int]bool{}
	last := -1
	var got []int
	for k, r := range o.Out {
		if r.ID < 0 {
			bad("invented", fmt.Sprintf("output %d (op %q table %q WAL position %d) is not an input message", k, r.Op, r.Table, r.Wal))
			continue
		}
		got = append(got, r.ID)
		m := c.Msgs[r.ID]
		if seen[r.ID] {
			bad("duplicated", fmt.Sprintf("input message %d came out twice", r.ID))
		}
		seen[r.ID] = true
		if r.ID < last {
			bad("reordered", fmt.Sprintf("input message %d came out after message %d", r.ID, last))
		}
		last = r.ID
		if !wantSet[r.ID] {
			bad("filtered-change-forwarded", fmt.Sprintf("message %d (%s on %q) is removed by the configured list but left the marshaller", r.ID, m.Op, m.Rel))
		}
		if r.Op != m.Op || r.Table != m.Rel || r.Txn != m.Txn || r.Key != m.Key {
			bad("field-changed", fmt.Sprintf("message %d: (op, table, txn, key) = (%q, %q, %q, %q) became (%q, %q, %q, %q)", r.ID, m.Op, m.Rel, m.Txn, m.Key, r.Op, r.Table, r.Txn, r.Key))
		}
		if isMarker(m.Op) && r.HasJson {
			bad("marker-with-json", fmt.Sprintf("message %d (%s) carries a JSON document", r.ID, m.Op))
		}
		if !isMarker(m.Op) && r.JsonLen == 0 {
			bad("change-without-json", fmt.Sprintf("message %d (%s on %q) carries no JSON document", r.ID, m.Op, m.Rel))
		}
		if wk, ok := wantKey(c.Method, c.Buckets, m); ok && r.PKey != wk {
			bad("partition-key", fmt.Sprintf("message %d: method %q (%d buckets) gave key %q, the method prescribes %q", r.ID, c.Method, c.Buckets, r.PKey, wk))
		}
	}
	if o.AfterSentinel > 0 {
		bad("invented", fmt.Sprintf("%d messages came out after the end marker", o.AfterSentinel))
	}
	if len(vs) > 0 {
		return vs // the sequence comparison below would only repeat what is already reported
	}
	// initial segment of the expected stream ...
	for i := range got {
		if i >= len(want) || got[i] != want[i] {
			bad("forwarded-change-missing", fmt.Sprintf("messages %v came out; the configured list forwards %v", got, want))
			return vs
		}
	}
	// ... and all of it when no stage may stop
	if inDomain(c) {
		if o.Stopped {
			bad("stopped-in-domain", fmt.Sprintf("a stage stopped although every regexp compiles and the bucket count is %d; %d of %d expected messages came out", c.Buckets, len(got), len(want)))
		} else if len(got) != len(want) {
			bad("forwarded-change-missing", fmt.Sprintf("messages %v came out; the configured list forwards %v", got, want))
		}
	} else if !o.Stopped && len(got) != len(want) {
		bad("forwarded-change-missing", fmt.Sprintf("no stage stopped, messages %v came out; the configured list forwards %v", got, want))
	}
	return vs
}

// ---- generator ----

// relations exactly as test_decoding prints them
var printedPlain = []string{"public.a", "public.b", "public.ab", "public.customers", "s2.a", "s2.orders",
	"public.a_very_long_table_name_that_goes_on_and_on_and_on_0123456789"}
var printedQuoted = []string{`public."A"`, `public."Quoted.Name"`, `"My Schema"."t,1"`, `"a""b".c`, `public."audit: log"`,
	`public."x: INSERT: y"`, `public."tab[1]"`, `public."o'hara"`, `public."table"`}

// relations only a hand-built ParseResult can carry
var rawExtra = []string{"", "public.\xc3\xa9t\xc3\xa9", "public.a, public.b", "PUBLIC.A"}

var rxBad = []string{`[`, `(`, `a{2,1}`, `*a`, `(?P<n`}

var methods = []string{"none", "tablename", "transaction", "transaction-bucket"}

func pick(rng *rand.Rand, pool []string) string { return pool[rng.Intn(len(pool))] }

func genFrontCase(rng *rand.Rand) frcase {
	c := frcase{Decoded: rng.Intn(10) < 7, NoOld: rng.Intn(4) == 0}
	// 3-5 relations, one of them quoted
	nrel := 3 + rng.Intn(3)
	rels := []string{pick(rng, printedQuoted)}
	for len(rels) < nrel {
		r := pick(rng, printedPlain)
		if rng.Intn(5) == 0 {
			r = pick(rng, printedQuoted)
		}
		if !c.Decoded && rng.Intn(6) == 0 {
			r = pick(rng, rawExtra)
		}
		dup := false
		for _, x := range rels {
			dup = dup || x == r
		}
		if !dup {
			rels = append(rels, r)
		}
	}
	rng.Shuffle(len(rels), func(i, j int) { rels[i], rels[j] = rels[j], rels[i] })

	// filter kind
	kind := []string{"whitelist", "blacklist", "whitelist-regex", "blacklist-regex", "none"}[rng.Intn(5)]
	c.Whitelist = strings.HasPrefix(kind, "whitelist")
	c.Regex = strings.HasSuffix(kind, "-regex")
	if kind != "none" {
		for n := 1 + rng.Intn(3); n > 0; n-- {
			it := pick(rng, rels)
			switch {
			case c.Regex:
				it = []string{"^" + regexp.QuoteMeta(it) + "$", regexp.QuoteMeta(it), `^public\.`, `^"`, `a`, `^s2\.`, `(?i)quoted|table`}[rng.Intn(7)]
			case rng.Intn(8) == 0:
				it = []string{"a", "public", strings.ToUpper(it), it + " "}[rng.Intn(4)] // near misses
			}
			c.Tablelist = append(c.Tablelist, it)
		}
	} else if rng.Intn(4) == 0 {
		c.Regex = true // regex flag with an empty list: still pass-through
	}

	// partition method x bucket count
	c.Method = methods[rng.Intn(4)]
	c.Buckets = 1 + rng.Intn(4)
	if rng.Intn(25) == 0 {
		c.Buckets = []int{5, 17, 50, 256}[rng.Intn(4)]
	}
	if rng.Intn(40) == 0 {
		c.Method = []string{"", "Transaction", "bucket"}[rng.Intn(3)] // unknown name -> none
	}

	// ~10%: a stage must stop
	stop := ""
	switch rng.Intn(20) {
	case 0:
		stop = "zero-buckets"
		c.Method, c.Buckets = "transaction-bucket", 0
	case 1:
		stop = "nil-regexp"
		c.Regex = true
		if len(c.Tablelist) == 0 {
			c.Whitelist = rng.Intn(2) == 0
		}
		at := rng.Intn(len(c.Tablelist) + 1)
		c.Tablelist = append(c.Tablelist[:at], append([]string{pick(rng, rxBad)}, c.Tablelist[at:]...)...)
		kind = map[bool]string{true: "whitelist-regex", false: "blacklist-regex"}[c.Whitelist]
	}

	// 1-6 transactions with BEGIN/COMMIT, 0-4 changes each
	xid := 500 + rng.Intn(100000)
	lsn := uint64(0x1000000 + rng.Intn(1<<30))
	stamp := int64(1696000000000000000) + rng.Int63n(1<<40)
	next := func() uint64 { lsn += uint64(8 + rng.Intn(300)); return lsn }
	ntx := 1 + rng.Intn(6)
	for t := 0; t < ntx; t++ {
		txn := strconv.Itoa(xid)
		stamp += 1 + rng.Int63n(1<<20)
		key := txn + "-" + strconv.FormatInt(stamp, 10)
		c.Msgs = append(c.Msgs, fwal{Op: "BEGIN", Txn: txn, Key: key, Wal: next()})
		for k := rng.Intn(5); k > 0; k-- {
			rel := pick(rng, rels)
			op := []string{"INSERT", "UPDATE", "DELETE"}[rng.Intn(3)]
			if strings.Contains(rel, ", ") || (rng.Intn(15) == 0) {
				op = "TRUNCATE"
			}
			c.Msgs = append(c.Msgs, fwal{Op: op, Rel: rel, Txn: txn, Key: key, Wal: next()})
		}
		switch rng.Intn(12) {
		case 0: // the COMMIT is lost (connection flap) and the transaction is delivered again under a new key
			stamp += 1 + rng.Int63n(1<<20)
			key2 := txn + "-" + strconv.FormatInt(stamp, 10)
			c.Msgs = append(c.Msgs, fwal{Op: "BEGIN", Txn: txn, Key: key2, Wal: next()})
			c.Msgs = append(c.Msgs, fwal{Op: "INSERT", Rel: pick(rng, rels), Txn: txn, Key: key2, Wal: next()})
			c.Msgs = append(c.Msgs, fwal{Op: "COMMIT", Txn: txn, Key: key2, Wal: next()})
		default:
			c.Msgs = append(c.Msgs, fwal{Op: "COMMIT", Txn: txn, Key: key, Wal: next()})
		}
		xid += 1 + rng.Intn(3)
	}
	c.Mode = kind + "/" + c.Method
	if c.Decoded {
		c.Mode += "/decoded"
	}
	if stop != "" {
		c.Mode += "/stop:" + stop
	}
	return c
}

func loadCorpus(dir, comp string, into func(name string, b []byte)) {
	files, _ := filepath.Glob(filepath.Join(dir, comp, "*.json"))
	sort.Strings(files)
	for _, f := range files {
		if b, err := os.ReadFile(f); err == nil {
			// a corpus file is a bare case or a replay file {"component":..,"case":{..}}
			var wrap struct {
				Case json.RawMessage `json:"case"`
			}
			if json.Unmarshal(b, &wrap) == nil && len(wrap.Case) > 0 {
				b = wrap.Case
			}
			into(strings.TrimSuffix(filepath.Base(f), ".json"), b)
		}
	}
}

func methodName(s string) string {
	for _, m := range methods {
		if m == s {
			return s
		}
	}
	return "unknown(->none)"
}

func init() {
	core.Register(core.Component{Name: "FRONT", Replay: replayFront, Run: func(rng *rand.Rand, n int, corpusDir string, rep *core.Report) string {
		var cases []frcase
		loadCorpus(corpusDir, "FRONT", func(name string, b []byte) {
			var c frcase
			if json.Unmarshal(b, &c) == nil {
				c.Mode = "corpus:" + name
				cases = append(cases, c)
			}
		})
		for i := 0; i < n; i++ {
			cases = append(cases, genFrontCase(rng))
		}
		rep.Rule = "corpus first, then seeded: filter kind uniform over whitelist / blacklist / whitelist-regex / blacklist-regex / none (1-3 items taken from the case's own relations: exact names, near misses, anchored and unanchored regexps) x partition method uniform over none / tablename / transaction / transaction-bucket x bucket count 1-4 (4%: 5-256; 2.5%: unknown method name); streams of 1-6 transactions with BEGIN/COMMIT, 0-4 changes each (INSERT/UPDATE/DELETE/TRUNCATE) over 3-5 relations of which at least one is a quoted identifier, 8% of the transactions redelivered under a new delivery key after a lost COMMIT; 70% of the cases go through the real test_decoding decoder, 30% are hand-built ParseResults (also empty, non-ASCII and multi-table relations). ~10% adversarial: a stage must stop (5% a regexp that does not compile -> nil *Regexp in the filter, 5% transaction-bucket with 0 buckets -> division by zero in the partitioner). Non-trivial: not pass-through, at least one change forwarded and one removed (or a stage stopped), and a partition method other than none; distinct by (configuration, stream)."
		var sb strings.Builder
		sb.WriteString("From Bifrost.model Require Import Base Filter Partition Front.\nOpen Scope string_scope.\nDefinition cases : list frcase := [\n")
		seen := map[string]bool{}
		first := true
		for _, c := range cases {
			o := runFrontImpl(c)
			if o.Infra != "" {
				// dropped as infrastructure: neither a case of the correspondence nor a violation
				core.Bump(rep, "dropped-infrastructure")
				rep.Notes = append(rep.Notes, fmt.Sprintf("case dropped (%s): %s", c.Mode, o.Infra))
				continue
			}
			if !first {
				sb.WriteString(";\n")
			}
			first = false
			sb.WriteString(frontCaseGallina(c, o))
			rep.CaseIndex = append(rep.CaseIndex, core.RawJSON(c))
			rep.Evaluations++
			kind := map[bool]string{true: "whitelist", false: "blacklist"}[c.Whitelist] + map[bool]string{true: "-regex", false: ""}[c.Regex]
			passthrough := !c.Whitelist && len(c.Tablelist) == 0
			if passthrough {
				kind = "none"
			}
			core.Bump(rep, "filter:"+kind)
			core.Bump(rep, "method:"+methodName(c.Method))
			if c.Buckets <= 4 {
				core.Bump(rep, fmt.Sprintf("buckets:%d", c.Buckets))
			} else {
				core.Bump(rep, "buckets:>4")
			}
			if c.Decoded {
				core.Bump(rep, "input:decoded-by-real-parser")
			} else {
				core.Bump(rep, "input:hand-built")
			}
			changes, fwdChanges := 0, 0
			for _, m := range c.Msgs {
				if !isMarker(m.Op) {
					changes++
				}
			}
			for _, r := range o.Out {
				if r.ID >= 0 && !isMarker(c.Msgs[r.ID].Op) {
					fwdChanges++
				}
			}
			switch {
			case o.Stopped && c.Method == "transaction-bucket" && c.Buckets == 0:
				core.Bump(rep, "branch:stopped-partitioner-zero-buckets")
			case o.Stopped:
				core.Bump(rep, "branch:stopped-filter-nil-regexp")
			case passthrough:
				core.Bump(rep, "branch:passthrough")
			case fwdChanges == 0:
				core.Bump(rep, "branch:all-changes-removed")
			case fwdChanges == changes:
				core.Bump(rep, "branch:all-changes-forwarded")
			default:
				core.Bump(rep, "branch:some-removed-some-forwarded")
			}
			if o.FilterHeld > 0 {
				core.Bump(rep, "observed:filter-blocked-in-bare-send-after-partitioner-stopped")
			}
			key := fmt.Sprint(c.Whitelist, c.Regex, c.Tablelist, c.Method, c.Buckets, c.Msgs)
			if !seen[key] && methodName(c.Method) != "none" && methodName(c.Method) != "unknown(->none)" &&
				(o.Stopped || (!passthrough && fwdChanges > 0 && fwdChanges < changes)) {
				rep.Nontrivial++
			}
			seen[key] = true
			if len(rep.Samples) < 3 && fwdChanges > 0 && fwdChanges < changes {
				rep.Samples = append(rep.Samples, map[string]interface{}{"case": c, "out": o.Out, "stopped": o.Stopped})
			}
			rep.Violations = append(rep.Violations, frontMonitor(c, o)...)
		}
		sb.WriteString("\n].\nDefinition M := Eval vm_compute in mismatches frcase_ok cases.\nPrint M.\n")
		return sb.String()
	}})
}

func replayFront(cs json.RawMessage) string {
	var c frcase
	if err := json.Unmarshal(cs, &c); err != nil {
		return "bad case: " + err.Error()
	}
	o := runFrontImpl(c)
	var sb strings.Builder
	fmt.Fprintf(&sb, "filter.New(whitelist=%v, regex=%v, tablelist=%q) -> partitioner.New(method=%q, buckets=%d) -> marshaller.New(noMarshalOldValue=%v); decoded=%v\n",
		c.Whitelist, c.Regex, c.Tablelist, c.Method, c.Buckets, c.NoOld, c.Decoded)
	if o.Infra != "" {
		fmt.Fprintf(&sb, "NOT RUN (infrastructure): %s\n", o.Infra)
		return sb.String()
	}
	outAt := map[int]frout{}
	for _, r := range o.Out {
		if r.ID >= 0 {
			outAt[r.ID] = r
		}
	}
	for i, m := range c.Msgs {
		if r, ok := outAt[i]; ok {
			fmt.Fprintf(&sb, "  %2d %-8s %-36q txn=%s wal=%d -> out: key=%q json=%d bytes\n", i, m.Op, m.Rel, m.Txn, m.Wal, r.PKey, r.JsonLen)
		} else {
			fmt.Fprintf(&sb, "  %2d %-8s %-36q txn=%s wal=%d -> (did not come out)\n", i, m.Op, m.Rel, m.Txn, m.Wal)
		}
	}
	fmt.Fprintf(&sb, "a stage stopped=%v, messages after the end marker=%d\n", o.Stopped, o.AfterSentinel)
	if o.FilterHeld > 0 {
		fmt.Fprintf(&sb, "the filter was blocked in a bare send of %d message(s) after the partitioner had returned (taken by the harness)\n", o.FilterHeld)
	}
	for _, v := range frontMonitor(c, o) {
		fmt.Fprintf(&sb, "MONITOR %s [%s]: %s\n", v.Property, v.Signature, v.What)
	}
	return sb.String()
}
