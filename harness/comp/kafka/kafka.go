//go:build verif

// Package kafka: component KAFKA (property C14).  One component, two kinds of case (tagged union):
//
//	kind "add": a real KafkaBatch driven through a sequence of Add calls (BATCH-F of DESIGN.md);
//	kind "run": the real KafkaTransporter (NewTransporter + StartTransporting) fed with real
//	            KafkaBatches, a scripted fake sarama.SyncProducer and cancellations injected at
//	            chosen points of the loop.
//
// Contract of the fake producer (kinder than a broker in nothing that matters here): SendMessages
// returns exactly what the script says — nil, sarama.ProducerErrors for the scripted subset of the
// messages it was handed (possibly empty), or a plain error — and records the messages it was
// handed.  It never blocks.  Close is counted.  The transaction methods are no-ops.
//
// Cancellation points: "recv" = TerminateCtx cancelled while the worker waits for the batch;
// "send" = cancelled between the worker's second select and the select of sendBatchToKafka (injected
// from the first TimeSource.UnixNano() call of the iteration, which sits exactly there);
// "during" = cancelled from inside SendMessages.
//
// Hook used: transporter.VerifSetShutdownDelay (sets the 3 s sleep of shutdown() to 0).
package kafka

import (
	"encoding/json"
	"errors"
	"fmt"
	"io"
	"math/rand"
	"os"
	"path/filepath"
	"sort"
	"strings"
	"time"

	"verifharness/core"

	"github.com/Nextdoor/pg-bifrost.git/marshaller"
	"github.com/Nextdoor/pg-bifrost.git/shutdown"
	"github.com/Nextdoor/pg-bifrost.git/stats"
	"github.com/Nextdoor/pg-bifrost.git/transport"
	gbatch "github.com/Nextdoor/pg-bifrost.git/transport/batch"
	"github.com/Nextdoor/pg-bifrost.git/transport/progress"
	kbatch "github.com/Nextdoor/pg-bifrost.git/transport/transporters/kafka/batch"
	"github.com/Nextdoor/pg-bifrost.git/transport/transporters/kafka/transporter"
	kutils "github.com/Nextdoor/pg-bifrost.git/transport/transporters/kafka/utils"
	"github.com/Shopify/sarama"
	"github.com/cevaris/ordered_map"
	"github.com/sirupsen/logrus"
)

// ---------------------------------------------------------------- case format

type kmsg struct {
	Op    string `json:"op"`
	Json  string `json:"json"`
	Tbk   string `json:"tbk"`
	Txn   string `json:"txn"`
	Table string `json:"table"`
}

type kcfg struct {
	Topic    string `json:"topic"`
	MaxBatch int    `json:"max_batch"`
	MaxBytes int    `json:"max_bytes"`
	Method   string `json:"method"` // key of utils.NameToPartitionMethod
}

type kstep struct {
	Other    bool   `json:"other,omitempty"` // a transport.Batch that is not a *KafkaBatch
	Cfg      kcfg   `json:"cfg"`
	Msgs     []kmsg `json:"msgs"`
	Cancel   string `json:"cancel,omitempty"` // "", recv, send, during
	Result   string `json:"result"`           // ok, failed, other
	Rejected []int  `json:"rejected,omitempty"`
}

type kcase struct {
	Kind  string  `json:"kind"` // add | run
	Mode  string  `json:"mode,omitempty"`
	Cfg   *kcfg   `json:"cfg,omitempty"`
	Msgs  []kmsg  `json:"msgs,omitempty"`
	Steps []kstep `json:"steps,omitempty"`
}

// ---------------------------------------------------------------- observations

type pm struct {
	topic  string
	hasKey bool
	key    string
	value  string
	size   int // sarama's own ByteSize(2)
}

type txe struct {
	key, txn, wkey string
	count          int
}

type addObs struct {
	res         string // ok, full, toobig, or err:<text>
	full, empty bool
	bytes       int64
	num         int
}

type addResult struct {
	obs      []addObs
	produced []pm
	txns     []txe
	uuid     string
}

type stepObs struct {
	sent       *[]pm
	written    *[]txe
	calls      int // SendMessages calls made for this batch
	unaccepted int // messages handed over in calls that the producer did not fully accept
}

type runResult struct {
	obs                 []stepObs
	stats               [][2]interface{} // name, value
	stopped, terminated bool
	closes              int
	chanClosed          bool
	uuids               []string
	payloads            [][]pm  // what each real batch holds (read from the batch, not from the producer)
	batchTxns           [][]txe // GetTransactions of each real batch before it is handed over
	sendCalls           int
	afterCloseOK        bool // alive runs: closing inputChan led to a clean shutdown
	infra               string
}

const dummyUUID = "00000000-0000-0000-0000-000000000000"

func method(name string) kutils.KafkaPartitionMethod {
	m, ok := kutils.NameToPartitionMethod[name]
	if !ok {
		panic("harness: unknown kafka partition method " + name)
	}
	return m
}

func projectMsgs(ms []*sarama.ProducerMessage) []pm {
	out := make([]pm, 0, len(ms))
	for _, m := range ms {
		p := pm{topic: m.Topic, size: m.ByteSize(2)}
		if m.Key != nil {
			k, _ := m.Key.Encode()
			p.hasKey, p.key = true, string(k)
		}
		if m.Value != nil {
			v, _ := m.Value.Encode()
			p.value = string(v)
		}
		out = append(out, p)
	}
	return out
}

func projectTxns(om *ordered_map.OrderedMap) []txe {
	out := []txe{}
	if om == nil {
		return out
	}
	it := om.IterFunc()
	for kv, ok := it(); ok; kv, ok = it() {
		w := kv.Value.(*progress.Written)
		out = append(out, txe{key: kv.Key.(string), txn: w.Transaction, wkey: w.TimeBasedKey, count: w.Count})
	}
	return out
}

func toMarshalled(m kmsg) *marshaller.MarshalledMessage {
	return &marshaller.MarshalledMessage{Operation: m.Op, Table: m.Table, Json: []byte(m.Json),
		TimeBasedKey: m.Tbk, Transaction: m.Txn, PartitionKey: "pk"}
}

func classify(ok bool, err error) string {
	switch {
	case ok && err == nil:
		return "ok"
	case !ok && err != nil && err.Error() == "batch is full":
		return "full"
	case !ok && err != nil && err.Error() == transport.ERR_MSG_TOOBIG:
		return "toobig"
	}
	return fmt.Sprintf("err:%v/%v", ok, err)
}

func uuidOf(method string, produced []pm) string {
	if method != "batch" {
		return ""
	}
	if len(produced) > 0 && produced[0].hasKey {
		return produced[0].key
	}
	return dummyUUID // not observable; only its length (36) matters to the size rule
}

// buildBatch drives a real KafkaBatch through Add.
func buildBatch(cfg kcfg, msgs []kmsg) (transport.Batch, addResult) {
	b := kbatch.NewKafkaBatch(cfg.Topic, "pk", cfg.MaxBatch, cfg.MaxBytes, method(cfg.Method))
	var r addResult
	for _, m := range msgs {
		ok, err := b.Add(toMarshalled(m))
		r.obs = append(r.obs, addObs{res: classify(ok, err), full: b.IsFull(), empty: b.IsEmpty(),
			bytes: b.GetPayloadByteSize(), num: b.NumMessages()})
	}
	r.produced = projectMsgs(b.GetPayload().([]*sarama.ProducerMessage))
	r.txns = projectTxns(b.GetTransactions())
	r.uuid = uuidOf(cfg.Method, r.produced)
	return b, r
}

// ---------------------------------------------------------------- fakes

type fakeProducer struct {
	result   string
	rejected []int // indices into the BATCH's payload (a broker rejects messages, not positions of a call)
	during   func()
	calls    [][]pm
	closes   int
	seen     int  // messages of the current batch handed over so far (all calls)
	unacc    int  // ... of which the broker did not accept
	ncalls   int  // SendMessages calls for the current batch
}

func (f *fakeProducer) SendMessages(msgs []*sarama.ProducerMessage) error {
	f.calls = append(f.calls, projectMsgs(msgs))
	if f.during != nil {
		f.during()
	}
	base := f.seen
	f.seen += len(msgs)
	f.ncalls++
	switch f.result {
	case "ok":
		return nil
	case "failed":
		// the first call for a batch answers exactly as scripted (also for indices outside the batch and
		// for an empty error list); a worker that hands one batch over in SEVERAL calls gets, for each
		// later call, the rejections that fall into that call - or success if none does
		pe := sarama.ProducerErrors{}
		for _, i := range f.rejected {
			var m *sarama.ProducerMessage
			if i >= base && i < base+len(msgs) {
				m = msgs[i-base]
			} else if base > 0 {
				continue
			}
			// the broker's reasons vary; for the worker every one of them means "not accepted"
			var cause error = fmt.Errorf("scripted rejection of message %d", i)
			switch i % 5 {
			case 1:
				cause = sarama.ErrMessageSizeTooLarge
			case 2:
				cause = fmt.Errorf("kafka: %w", sarama.ErrMessageSizeTooLarge)
			case 3:
				cause = sarama.ErrNotEnoughReplicas
			case 4:
				cause = sarama.ErrRequestTimedOut
			}
			pe = append(pe, &sarama.ProducerError{Msg: m, Err: cause})
		}
		if base > 0 && len(pe) == 0 {
			return nil
		}
		f.unacc += len(msgs)
		return pe
	}
	f.unacc += len(msgs)
	return errors.New("scripted non-ProducerErrors error")
}
func (f *fakeProducer) SendMessage(msg *sarama.ProducerMessage) (int32, int64, error) {
	return 0, 0, f.SendMessages([]*sarama.ProducerMessage{msg})
}
func (f *fakeProducer) Close() error                            { f.closes++; return nil }
func (f *fakeProducer) TxnStatus() sarama.ProducerTxnStatusFlag { return 0 }
func (f *fakeProducer) IsTransactional() bool                   { return false }
func (f *fakeProducer) BeginTxn() error                         { return nil }
func (f *fakeProducer) CommitTxn() error                        { return nil }
func (f *fakeProducer) AbortTxn() error                         { return nil }
func (f *fakeProducer) AddOffsetsToTxn(map[string][]*sarama.PartitionOffsetMetadata, string) error {
	return nil
}
func (f *fakeProducer) AddMessageToTxn(*sarama.ConsumerMessage, string, *string) error { return nil }

var _ sarama.SyncProducer = (*fakeProducer)(nil)

// fakeTime: constant clock; the first UnixNano() after arming runs the armed action once.
type fakeTime struct{ armed func() }

func (t *fakeTime) UnixNano() int64 {
	if t.armed != nil {
		f := t.armed
		t.armed = nil
		f()
	}
	return 0
}
func (t *fakeTime) DateString() (string, string, string, string, string) {
	return "2026", "01", "01", "00", "20260101000000"
}

const infraTimeout = 10 * time.Second
const quietTimeout = 500 * time.Millisecond

// runTransport drives the real transporter through the script.
func runTransport(steps []kstep) (r runResult) {
	old := transporter.VerifSetShutdownDelay(0)
	oldTS := transporter.TimeSource
	ft := &fakeTime{}
	transporter.TimeSource = ft
	defer func() {
		transporter.VerifSetShutdownDelay(old)
		transporter.TimeSource = oldTS
	}()

	sh := shutdown.NewShutdownHandler()
	in := make(chan transport.Batch)
	statsChan := make(chan stats.Stat, 64+8*len(steps))
	txnsWritten := make(chan *ordered_map.OrderedMap)
	lg := logrus.New()
	lg.SetOutput(io.Discard)
	prod := &fakeProducer{}
	tp := transporter.NewTransporter(sh, in, statsChan, txnsWritten, *logrus.NewEntry(lg), prod, "unused-topic")
	done := make(chan struct{})
	go func() {
		defer close(done)
		tp.StartTransporting()
	}()

	waitClosed := func() bool { // txnsWritten closed within the quiet period
		select {
		case _, ok := <-txnsWritten:
			return !ok
		case <-time.After(quietTimeout):
			return false
		}
	}

	for _, st := range steps {
		var b transport.Batch
		if st.Other {
			b = gbatch.NewGenericBatch("pk", 1)
			r.uuids = append(r.uuids, "")
			r.payloads = append(r.payloads, nil)
			r.batchTxns = append(r.batchTxns, nil)
		} else {
			var ar addResult
			b, ar = buildBatch(st.Cfg, st.Msgs)
			r.uuids = append(r.uuids, ar.uuid)
			r.payloads = append(r.payloads, ar.produced)
			r.batchTxns = append(r.batchTxns, ar.txns)
		}
		prod.result, prod.rejected, prod.during, ft.armed = st.Result, st.Rejected, nil, nil
		prod.seen, prod.unacc, prod.ncalls = 0, 0, 0
		switch st.Cancel {
		case "recv":
			sh.CancelFunc()
		case "send":
			ft.armed = sh.CancelFunc
		case "during":
			prod.during = sh.CancelFunc
		}
		before := len(prod.calls)
		var o stepObs
		consumed := false
		select {
		case in <- b:
			consumed = true
		case _, ok := <-txnsWritten:
			if ok {
				r.infra = "a written report arrived while no batch was outstanding"
				return
			}
			r.stopped = true
		case <-time.After(infraTimeout):
			r.infra = "worker neither took the batch nor stopped"
			return
		}
		if consumed {
			select {
			case w, ok := <-txnsWritten:
				if ok {
					t := projectTxns(w)
					o.written = &t
				} else {
					r.stopped = true
				}
			case <-time.After(quietTimeout):
				// neither a report nor a stop: recorded as such (the monitor calls it a hole if
				// the worker then takes the next batch); never happens on the code as it stands
			}
		}
		if len(prod.calls) > before {
			s := prod.calls[len(prod.calls)-1]
			o.sent = &s
		}
		o.calls, o.unaccepted = prod.ncalls, prod.unacc
		r.obs = append(r.obs, o)
		if !r.stopped && sh.TerminateCtx.Err() != nil {
			// the context is cancelled and the worker is on its way to the loop head
			r.stopped = waitClosed()
		}
		if r.stopped {
			break
		}
	}
	if !r.stopped {
		// script exhausted: a worker that decided to stop on its own would do so now
		select {
		case <-done:
			r.stopped = true
		case <-time.After(3 * time.Millisecond):
		}
	}
	if r.stopped {
		select {
		case <-done:
		case <-time.After(infraTimeout):
			r.infra = "txnsWritten closed but StartTransporting did not return"
			return
		}
	}
	r.terminated = sh.TerminateCtx.Err() != nil
	r.closes = prod.closes
	if r.stopped {
		select {
		case _, ok := <-txnsWritten:
			r.chanClosed = !ok
		default:
		}
	}
	r.sendCalls = len(prod.calls)
	if !r.stopped {
		close(in)
		select {
		case <-done:
			closed := false
			select {
			case _, ok := <-txnsWritten:
				closed = !ok
			default:
			}
			r.afterCloseOK = closed && prod.closes == 1 && sh.TerminateCtx.Err() != nil && len(prod.calls) == r.sendCalls
		case <-time.After(infraTimeout):
			r.infra = "worker did not stop after inputChan was closed"
			return
		}
	}
	for {
		select {
		case s := <-statsChan:
			v := s.Value
			if s.StatName == "duration" {
				v = 0 // timing is not compared
			}
			r.stats = append(r.stats, [2]interface{}{s.StatName, v})
			continue
		default:
		}
		break
	}
	return
}

// ---------------------------------------------------------------- Gallina

var methodCtor = map[string]string{"transaction": "KTxn", "batch": "KBatch", "random": "KRandom",
	"transaction-constant": "KTxnConst", "tablename": "KTableName"}

func gCfg(c kcfg, uuid string) string {
	return fmt.Sprintf("(mkKCfg %s %s %s %s %s)", core.GStr(c.Topic), core.GZ(int64(c.MaxBatch)), core.GZ(int64(c.MaxBytes)), methodCtor[c.Method], core.GStr(uuid))
}

func gMsgs(ms []kmsg) string {
	out := make([]string, len(ms))
	for i, m := range ms {
		out[i] = fmt.Sprintf("mkKMsg %s %s %s %s %s", core.GStr(m.Op), core.GStr(m.Json), core.GStr(m.Tbk), core.GStr(m.Txn), core.GStr(m.Table))
	}
	return core.GList(out)
}

func gPms(ps []pm) string {
	out := make([]string, len(ps))
	for i, p := range ps {
		k := "None"
		if p.hasKey {
			k = "(Some " + core.GStr(p.key) + ")"
		}
		out[i] = fmt.Sprintf("mkPMsg %s %s %s", core.GStr(p.topic), k, core.GStr(p.value))
	}
	return core.GList(out)
}

func gTxns(ts []txe) string {
	out := make([]string, len(ts))
	for i, t := range ts {
		out[i] = core.GTuple(core.GStr(t.key), core.GTuple(core.GStr(t.txn), core.GZ(int64(t.count))))
	}
	return core.GList(out)
}

var resCtor = map[string]string{"ok": "AOk", "full": "AFull", "toobig": "ATooBig"}

func gAddCase(c kcase, r addResult) string {
	obs := make([]string, len(r.obs))
	for i, o := range r.obs {
		ctor, ok := resCtor[o.res]
		if !ok {
			panic("harness: KafkaBatch.Add returned an unclassified result " + o.res)
		}
		obs[i] = core.GTuple(ctor, core.GBool(o.full), core.GBool(o.empty), core.GZ(o.bytes), core.GZ(int64(o.num)))
	}
	return fmt.Sprintf("KFAdd %s %s %s %s %s", gCfg(*c.Cfg, r.uuid), gMsgs(c.Msgs), core.GList(obs), gPms(r.produced), gTxns(r.txns))
}

func gRunCase(c kcase, r runResult) string {
	steps := make([]string, len(c.Steps))
	for i, s := range c.Steps {
		b := "TNotKafka"
		if !s.Other {
			uuid := ""
			if i < len(r.uuids) {
				uuid = r.uuids[i]
			} else if s.Cfg.Method == "batch" {
				uuid = dummyUUID // batch never built: the worker had stopped
			}
			b = fmt.Sprintf("(TKafka %s %s)", gCfg(s.Cfg, uuid), gMsgs(s.Msgs))
		}
		cp := map[string]string{"": "CNone", "recv": "CBeforeRecv", "send": "CBeforeSend", "during": "CDuringSend"}[s.Cancel]
		pr := "POther"
		switch s.Result {
		case "ok":
			pr = "PAllOk"
		case "failed":
			rj := make([]string, len(s.Rejected))
			for j, x := range s.Rejected {
				rj[j] = core.GNat(x)
			}
			pr = "(PFailed " + core.GList(rj) + ")"
		}
		steps[i] = fmt.Sprintf("mkStep %s %s %s", b, cp, pr)
	}
	obs := make([]string, len(r.obs))
	for i, o := range r.obs {
		s, w := "None", "None"
		if o.sent != nil {
			s = "(Some " + gPms(*o.sent) + ")"
		}
		if o.written != nil {
			w = "(Some " + gTxns(*o.written) + ")"
		}
		obs[i] = fmt.Sprintf("mkObs %s %s", s, w)
	}
	st := make([]string, len(r.stats))
	for i, s := range r.stats {
		st[i] = core.GTuple(core.GStr(s[0].(string)), core.GZ(s[1].(int64)))
	}
	return fmt.Sprintf("KFRun %s %s %s %s %s %s %s", core.GList(steps), core.GList(obs), core.GList(st),
		core.GBool(r.stopped), core.GBool(r.terminated), core.GN(uint64(r.closes)), core.GBool(r.chanClosed))
}

// ---------------------------------------------------------------- monitor (C14 on the implementation's trace)

func isControl(m kmsg) bool { return m.Op == "BEGIN" || m.Op == "COMMIT" }

// expected key: the property's text, written out once more in Go (not the Coq model)
func wantKey(cfg kcfg, m kmsg, uuid string) (bool, string) {
	switch cfg.Method {
	case "transaction":
		return true, m.Tbk
	case "transaction-constant":
		return true, m.Txn
	case "batch":
		return true, uuid
	case "tablename":
		return true, m.Table
	}
	return false, ""
}

func monitorAdd(cfg kcfg, msgs []kmsg, r addResult, cs interface{}) []core.Violation {
	var vs []core.Violation
	bad := func(sig, what string) {
		vs = append(vs, core.Violation{Property: "C14", Signature: "add/" + sig, What: what, Case: cs})
	}
	// the Kafka clauses of C15: message byte limit, batch record count, dropped-but-counted
	bad15 := func(sig, what string) {
		vs = append(vs, core.Violation{Property: "C15", Signature: "kafka/" + sig, What: what, Case: cs})
	}
	next := 0
	counted := map[string]int{}
	for i, m := range msgs {
		o := r.obs[i]
		if isControl(m) {
			if o.res != "ok" {
				bad("control-not-ignored", fmt.Sprintf("Add %d (%s) returned %s", i, m.Op, o.res))
			}
			continue
		}
		hasKey, key := wantKey(cfg, m, r.uuid)
		size := 36 + len(m.Json)
		if hasKey {
			size += len(key)
		}
		switch o.res {
		case "ok":
			if size > cfg.MaxBytes {
				bad("size-rule", fmt.Sprintf("Add %d accepted a message of %d bytes above the limit %d", i, size, cfg.MaxBytes))
				bad15("message-above-byte-limit", fmt.Sprintf("Add %d put a message of %d bytes (36 + key + value) into the batch, kafka-max-message-bytes is %d", i, size, cfg.MaxBytes))
			}
			counted[m.Tbk]++
			if next >= len(r.produced) {
				bad("produced-missing", fmt.Sprintf("Add %d returned ok but the payload holds only %d messages", i, len(r.produced)))
				continue
			}
			p := r.produced[next]
			next++
			if p.value != m.Json {
				bad("value-mismatch", fmt.Sprintf("produced message %d carries value %q, record json is %q", next-1, p.value, m.Json))
			}
			if p.hasKey != hasKey || p.key != key {
				bad("key-mismatch", fmt.Sprintf("produced message %d carries key (%v,%q), method %s dictates (%v,%q)", next-1, p.hasKey, p.key, cfg.Method, hasKey, key))
			}
			if p.topic != cfg.Topic {
				bad("topic-mismatch", fmt.Sprintf("produced message %d has topic %q, configured %q", next-1, p.topic, cfg.Topic))
			}
			if p.size != size {
				bad("bytesize-fact", fmt.Sprintf("sarama ByteSize(2)=%d but 36+|key|+|json|=%d", p.size, size))
			}
		case "toobig":
			if size <= cfg.MaxBytes {
				bad("size-rule", fmt.Sprintf("Add %d dropped a message of %d bytes within the limit %d", i, size, cfg.MaxBytes))
				bad15("dropped-within-byte-limit", fmt.Sprintf("Add %d dropped a message of %d bytes as too big, kafka-max-message-bytes is %d", i, size, cfg.MaxBytes))
			}
			counted[m.Tbk]++
		case "full":
			if cfg.MaxBatch >= 0 && next != cfg.MaxBatch {
				bad("full-early", fmt.Sprintf("Add %d returned full with %d of %d messages", i, next, cfg.MaxBatch))
			}
		default:
			bad("unclassified", fmt.Sprintf("Add %d returned %s", i, o.res))
		}
		if o.num != next {
			bad("num-messages", fmt.Sprintf("after Add %d NumMessages=%d, accepted so far %d", i, o.num, next))
		}
	}
	if next != len(r.produced) {
		bad("produced-extra", fmt.Sprintf("payload holds %d messages, %d Adds were accepted", len(r.produced), next))
	}
	if cfg.MaxBatch >= 0 && len(r.produced) > cfg.MaxBatch {
		bad("over-batch-size", fmt.Sprintf("payload holds %d messages, max batch size %d", len(r.produced), cfg.MaxBatch))
		bad15("batch-above-record-count", fmt.Sprintf("payload holds %d messages, kafka-batch-size is %d", len(r.produced), cfg.MaxBatch))
	}
	for i, p := range r.produced {
		if p.size > cfg.MaxBytes {
			bad15("message-above-byte-limit", fmt.Sprintf("payload message %d measures %d bytes by sarama's ByteSize(2), kafka-max-message-bytes is %d", i, p.size, cfg.MaxBytes))
		}
	}
	got := map[string]int{}
	for _, t := range r.txns {
		if _, dup := got[t.key]; dup {
			bad("count-conservation", fmt.Sprintf("delivery key %q listed twice in transactions", t.key))
		}
		got[t.key] = t.count
		if t.wkey != t.key {
			bad("count-conservation", fmt.Sprintf("transactions entry under %q names key %q", t.key, t.wkey))
		}
	}
	keys := map[string]bool{}
	for k := range got {
		keys[k] = true
	}
	for k := range counted {
		keys[k] = true
	}
	sorted := []string{}
	for k := range keys {
		sorted = append(sorted, k)
	}
	sort.Strings(sorted)
	for _, k := range sorted {
		if got[k] != counted[k] {
			bad("count-conservation", fmt.Sprintf("delivery key %q: transactions count %d, Adds that returned ok or too-big %d", k, got[k], counted[k]))
			bad15("dropped-record-not-counted", fmt.Sprintf("delivery key %q: transactions count %d, records accepted or dropped as too big %d", k, got[k], counted[k]))
		}
	}
	if cfg.Method == "batch" && len(r.produced) > 0 && len(r.uuid) != 36 {
		bad("batch-key-not-uuid", fmt.Sprintf("batch key %q is not a 36 character uuid", r.uuid))
	}
	return vs
}

func pmsEqual(a, b []pm) bool {
	if len(a) != len(b) {
		return false
	}
	for i := range a {
		if a[i].topic != b[i].topic || a[i].hasKey != b[i].hasKey || a[i].key != b[i].key || a[i].value != b[i].value {
			return false
		}
	}
	return true
}

func txnsEqual(a, b []txe) bool {
	if len(a) != len(b) {
		return false
	}
	for i := range a {
		if a[i] != b[i] {
			return false
		}
	}
	return true
}

func monitorRun(steps []kstep, r runResult, cs interface{}) []core.Violation {
	var vs []core.Violation
	bad := func(sig, what string) {
		vs = append(vs, core.Violation{Property: "C14", Signature: "run/" + sig, What: what, Case: cs})
		if sig == "written-without-full-success" {
			// the same history under C01 (see the S3 component)
			vs = append(vs, core.Violation{Property: "C01", Signature: "kafka/" + sig, What: what, Case: cs})
		}
	}
	sends := 0
	uuidSeen := map[string]int{}
	for i, o := range r.obs {
		st := steps[i]
		last := i == len(r.obs)-1
		cancelledBefore := st.Cancel == "recv" || st.Cancel == "send"
		accepted := !st.Other && st.Result == "ok"
		if o.sent != nil {
			sends += o.calls
			if o.calls == 0 {
				sends++
			}
			if cancelledBefore {
				bad("sent-after-cancel", fmt.Sprintf("batch %d was handed to the producer although shutdown was requested before the send", i))
			}
			if !st.Other && o.calls <= 1 && !pmsEqual(*o.sent, r.payloads[i]) {
				bad("sent-mismatch", fmt.Sprintf("batch %d: the producer received %d messages that differ from the batch's payload (%d)", i, len(*o.sent), len(r.payloads[i])))
			}
		}
		if o.calls > 1 {
			// the model (and the code as it stands) hands a batch over in ONE call; several calls are not a
			// violation by themselves, the outcome rules below decide
			if o.written != nil && o.unaccepted > 0 {
				bad("written-without-full-success", fmt.Sprintf("batch %d (%d messages) reported written although %d of its messages were in producer calls that failed (%d calls; scripted rejections %v)", i, len(r.payloads[i]), o.unaccepted, o.calls, st.Rejected))
			}
		}
		if o.written != nil {
			if !accepted || cancelledBefore || o.sent == nil {
				bad("written-without-full-success", fmt.Sprintf("batch %d reported written: producer result %q rejected=%v cancel=%q sent=%v", i, st.Result, st.Rejected, st.Cancel, o.sent != nil))
			} else if !txnsEqual(*o.written, r.batchTxns[i]) {
				bad("written-mismatch", fmt.Sprintf("batch %d: reported transactions %v differ from the batch's %v", i, *o.written, r.batchTxns[i]))
			}
			if !last && st.Cancel != "" {
				bad("continued-after-cancel", fmt.Sprintf("worker took batch %d after cancellation during batch %d", i+1, i))
			}
		} else {
			if accepted && !cancelledBefore {
				bad("success-not-written", fmt.Sprintf("batch %d: the producer accepted every message and no cancellation preceded the send, but nothing was reported written", i))
			}
			// any non-written outcome must be the end of the worker
			if !last {
				bad("continued-with-hole", fmt.Sprintf("batch %d was not reported written but the worker went on to batch %d", i, i+1))
			}
			if !(r.stopped && r.terminated && r.closes == 1 && r.chanClosed) {
				sig := "failure-not-fail-stop"
				if cancelledBefore {
					sig = "cancel-not-stopped"
				}
				bad(sig, fmt.Sprintf("batch %d not written (result %q cancel %q) but stopped=%v terminated=%v producer.Close=%d txnsWritten closed=%v", i, st.Result, st.Cancel, r.stopped, r.terminated, r.closes, r.chanClosed))
			}
		}
		if !st.Other && st.Cfg.Method == "batch" && len(r.payloads[i]) > 0 {
			if j, dup := uuidSeen[r.uuids[i]]; dup {
				bad("batch-key-reused", fmt.Sprintf("batches %d and %d share the batch partition key %q", j, i, r.uuids[i]))
			}
			uuidSeen[r.uuids[i]] = i
		}
	}
	if sends != r.sendCalls {
		bad("extra-send", fmt.Sprintf("SendMessages was called %d times, %d calls belong to offered batches", r.sendCalls, sends))
	}
	if !r.stopped {
		if r.terminated || r.closes != 0 {
			bad("terminated-while-alive", fmt.Sprintf("worker alive after %d written batches but terminated=%v producer.Close=%d", len(r.obs), r.terminated, r.closes))
		}
		if !r.afterCloseOK {
			bad("input-close-not-clean", "closing inputChan did not lead to exactly one producer.Close, cancellation and a closed txnsWritten")
		}
	}
	return vs
}

// ---------------------------------------------------------------- generators

var methods = []string{"transaction", "batch", "random", "transaction-constant", "tablename"}
var tables = []string{"public.users", "public.t", "s.orders_2026", "t", ""}
var ops = []string{"INSERT", "INSERT", "UPDATE", "DELETE"}

const asciiSet = "abcdefghijklmnopqrstuvwxyz0123456789{}:,\" []_-"

// genJSON returns a valid UTF-8 string of exactly n bytes.
func genJSON(rng *rand.Rand, n int) string {
	var sb strings.Builder
	for sb.Len() < n {
		rem := n - sb.Len()
		switch x := rng.Intn(24); {
		case x == 0 && rem >= 3:
			sb.WriteString("€")
		case x == 1 && rem >= 2:
			sb.WriteString("é")
		default:
			sb.WriteByte(asciiSet[rng.Intn(len(asciiSet))])
		}
	}
	return sb.String()
}

func genCfg(rng *rand.Rand, adversarial bool) kcfg {
	c := kcfg{Topic: []string{"bifrost", "t-1", ""}[rng.Intn(3)], Method: methods[rng.Intn(len(methods))]}
	c.MaxBatch = []int{1, 2, 3, 3, 4, 5, 8}[rng.Intn(7)]
	// limits just above what the key alone needs keep the literals (and the coqc time) small
	c.MaxBytes = 36 + 16 + rng.Intn(40)
	if c.Method == "batch" {
		c.MaxBytes = 36 + 36 + rng.Intn(30)
	}
	if adversarial {
		switch rng.Intn(4) {
		case 0:
			c.MaxBatch = []int{0, -1, -3}[rng.Intn(3)]
		case 1:
			c.MaxBytes = []int{0, -7, 35, 36, 37, 1 << 20}[rng.Intn(6)]
		case 2:
			c.MaxBatch = 0
			c.MaxBytes = 36
		default:
			c.MaxBatch = 1 << 30
		}
	}
	return c
}

func genMsgs(rng *rand.Rand, cfg kcfg, n int, adversarial bool, nearLimit bool) []kmsg {
	ntx := 1 + rng.Intn(3)
	base := 700 + rng.Intn(50)
	out := make([]kmsg, 0, n)
	redeliver := rng.Intn(4) == 0
	for i := 0; i < n; i++ {
		t := base + rng.Intn(ntx)
		m := kmsg{Op: ops[rng.Intn(len(ops))], Txn: fmt.Sprint(t), Tbk: fmt.Sprintf("%d-%d", t, 1700000000+t), Table: tables[rng.Intn(len(tables))]}
		if redeliver && i >= n/2 {
			// the second half of the batch is a REDELIVERY: same transaction ids, new delivery keys
			m.Tbk = fmt.Sprintf("%d-%d", t, 1800000000+t)
		}
		if rng.Intn(7) == 0 {
			m.Op = []string{"BEGIN", "COMMIT"}[rng.Intn(2)]
		}
		if adversarial {
			switch rng.Intn(6) {
			case 0:
				m.Tbk = "" // empty delivery key
			case 1:
				m.Tbk = "shared" // same delivery key under different transaction ids
			case 2:
				m.Op = []string{"begin", "COMMIT ", "", "TRUNCATE"}[rng.Intn(4)]
			}
		}
		keyLen := 0
		if has, k := wantKey(cfg, m, dummyUUID); has {
			keyLen = len(k)
		}
		// half of the messages sit exactly at limit-1 / limit / limit+1
		target := cfg.MaxBytes + rng.Intn(3) - 1
		if !nearLimit || rng.Intn(2) == 0 || cfg.MaxBytes > 4096 {
			target = 36 + keyLen + rng.Intn(24)
		}
		jl := target - 36 - keyLen
		if jl < 0 {
			jl = 0
		}
		m.Json = genJSON(rng, jl)
		out = append(out, m)
	}
	return out
}

func genAddCase(rng *rand.Rand, adversarial bool) kcase {
	cfg := genCfg(rng, adversarial)
	mode := "add"
	if adversarial {
		mode = "add-adversarial"
	}
	return kcase{Kind: "add", Mode: mode, Cfg: &cfg, Msgs: genMsgs(rng, cfg, 1+rng.Intn(10), adversarial, true)}
}

func genRunCase(rng *rand.Rand, adversarial bool) kcase {
	mode := "run"
	if adversarial {
		mode = "run-adversarial"
	}
	c := kcase{Kind: "run", Mode: mode}
	n := 1 + rng.Intn(5)
	for i := 0; i < n; i++ {
		cfg := genCfg(rng, adversarial && rng.Intn(3) == 0)
		s := kstep{Cfg: cfg, Msgs: genMsgs(rng, cfg, rng.Intn(5), false, rng.Intn(4) == 0), Result: "ok"}
		big := !adversarial && rng.Intn(12) == 0
		if big {
			// a large batch (kafka-batch-size defaults to 5000): hundreds of small messages, and below a
			// rejection anywhere in it
			cfg.MaxBatch, cfg.MaxBytes = 5000, 1<<20
			s = kstep{Cfg: cfg, Msgs: genMsgs(rng, cfg, 400+rng.Intn(900), false, false), Result: "ok"}
		}
		pBad := 8
		if adversarial {
			pBad = 3
		}
		if rng.Intn(pBad) == 0 || (big && rng.Intn(2) == 0) {
			switch rng.Intn(5) {
			case 0:
				s.Result = "other"
			case 1:
				s.Other = true
				s.Msgs = nil
				s.Cfg = kcfg{Method: "random"}
			default:
				s.Result = "failed"
				k := 1 + rng.Intn(3)
				if rng.Intn(8) == 0 {
					k = 0 // an empty ProducerErrors is still a non-nil error
				}
				for j := 0; j < k; j++ {
					if big {
						s.Rejected = append(s.Rejected, rng.Intn(len(s.Msgs)+1))
					} else {
						s.Rejected = append(s.Rejected, rng.Intn(5))
					}
				}
				sort.Ints(s.Rejected)
			}
		}
		if rng.Intn(pBad+2) == 0 {
			s.Cancel = []string{"recv", "send", "during"}[rng.Intn(3)]
		}
		c.Steps = append(c.Steps, s)
	}
	return c
}

func loadCorpus(dir string) []kcase {
	var out []kcase
	files, _ := filepath.Glob(filepath.Join(dir, "KAFKA", "*.json"))
	sort.Strings(files)
	for _, f := range files {
		b, err := os.ReadFile(f)
		if err != nil {
			continue
		}
		var c kcase
		if err := json.Unmarshal(b, &c); err != nil {
			panic(fmt.Sprintf("harness: corpus file %s: %v", f, err))
		}
		c.Mode = "corpus:" + strings.TrimSuffix(filepath.Base(f), ".json")
		out = append(out, c)
	}
	return out
}

// ---------------------------------------------------------------- component

func validate(c kcase) error {
	switch c.Kind {
	case "add":
		if c.Cfg == nil {
			return errors.New("add case without cfg")
		}
		if _, ok := methodCtor[c.Cfg.Method]; !ok {
			return fmt.Errorf("unknown method %q", c.Cfg.Method)
		}
	case "run":
		for _, s := range c.Steps {
			if _, ok := methodCtor[s.Cfg.Method]; !ok && !s.Other {
				return fmt.Errorf("unknown method %q", s.Cfg.Method)
			}
			if s.Result != "ok" && s.Result != "failed" && s.Result != "other" {
				return fmt.Errorf("unknown result %q", s.Result)
			}
			if s.Cancel != "" && s.Cancel != "recv" && s.Cancel != "send" && s.Cancel != "during" {
				return fmt.Errorf("unknown cancel point %q", s.Cancel)
			}
		}
	default:
		return fmt.Errorf("unknown kind %q", c.Kind)
	}
	return nil
}

// evalCase runs one case on the real code; returns the Gallina term, violations, and tags.
func evalCase(c kcase) (g string, vs []core.Violation, tags []string, nontrivial bool) {
	if err := validate(c); err != nil {
		panic("harness: bad KAFKA case: " + err.Error())
	}
	if c.Kind == "add" {
		_, r := buildBatch(*c.Cfg, c.Msgs)
		g = gAddCase(c, r)
		vs = monitorAdd(*c.Cfg, c.Msgs, r, c)
		kinds := map[string]bool{}
		tags = append(tags, "method:"+c.Cfg.Method)
		for i, o := range r.obs {
			kinds[o.res] = true
			tags = append(tags, "add:"+o.res)
			m := c.Msgs[i]
			if !isControl(m) && (o.res == "ok" || o.res == "toobig") {
				kl := 0
				if has, k := wantKey(*c.Cfg, m, r.uuid); has {
					kl = len(k)
				}
				switch d := 36 + kl + len(m.Json) - c.Cfg.MaxBytes; {
				case d == -1:
					tags = append(tags, "size:limit-1")
				case d == 0:
					tags = append(tags, "size:limit")
				case d == 1:
					tags = append(tags, "size:limit+1")
				}
			}
			if isControl(m) {
				tags = append(tags, "add:control")
			}
		}
		multi := false
		for _, t := range r.txns {
			if t.count > 1 {
				multi = true
			}
		}
		nontrivial = len(c.Msgs) >= 3 && (len(kinds) >= 2 || multi)
		return
	}
	r := runTransport(c.Steps)
	if r.infra != "" {
		panic("harness: KAFKA transporter run failed (infrastructure): " + r.infra)
	}
	g = gRunCase(c, r)
	vs = monitorRun(c.Steps, r, c)
	for i := range r.obs {
		s := c.Steps[i]
		switch {
		case s.Other:
			tags = append(tags, "step:not-kafka-batch")
		case s.Cancel == "recv" || s.Cancel == "send":
			tags = append(tags, "step:cancel-"+s.Cancel)
		default:
			t := "step:" + s.Result
			if s.Result == "failed" && len(s.Rejected) == 0 {
				t += "-empty-set"
			}
			if s.Cancel != "" {
				t += "+cancel-" + s.Cancel
			}
			tags = append(tags, t)
		}
		if r.obs[i].sent != nil && len(*r.obs[i].sent) == 0 {
			tags = append(tags, "step:empty-payload-sent")
		}
	}
	tags = append(tags, fmt.Sprintf("run:offered-%d-of-%d", len(r.obs), len(c.Steps)))
	if r.stopped {
		tags = append(tags, "run:stopped")
	} else {
		tags = append(tags, "run:alive-at-end")
	}
	nontrivial = len(r.obs) >= 2 || r.stopped
	return
}

func init() {
	core.Register(core.Component{Name: "KAFKA", Replay: replay, Run: func(rng *rand.Rand, n int, corpusDir string, rep *core.Report) string {
		cases := loadCorpus(corpusDir)
		for i := 0; i < n; i++ {
			switch r := rng.Intn(20); {
			case r < 9:
				cases = append(cases, genAddCase(rng, false))
			case r < 11:
				cases = append(cases, genAddCase(rng, true))
			case r < 18:
				cases = append(cases, genRunCase(rng, false))
			default:
				cases = append(cases, genRunCase(rng, true))
			}
		}
		rep.Rule = "corpus first, then seeded: 45% Add sequences on a real KafkaBatch (1-10 messages, all five methods, max batch 1-8, half of the messages sized at limit-1/limit/limit+1, 1/7 BEGIN/COMMIT), 10% adversarial Add sequences (max batch 0/negative/huge, max bytes <= 37 or huge, empty or shared delivery keys, odd operation names), 35% transporter scripts (1-5 real batches; per batch 1/8 producer failure [ProducerErrors subset, empty set, plain error, non-Kafka batch] and 1/10 cancellation at recv/send/during), 10% adversarial transporter scripts (1/3 failure, 1/5 cancellation, adversarial configs). Non-trivial: Add case with >= 3 Adds and (>= 2 distinct results or a delivery key counted more than once); transporter case with >= 2 batches offered or a stop; distinct by case text."
		var sb strings.Builder
		sb.WriteString("From Bifrost.model Require Import Base Kafka.\nOpen Scope string_scope.\nDefinition cases : list kfcase := [\n")
		seen := map[string]bool{}
		for i, c := range cases {
			g, vs, tags, nt := evalCase(c)
			if i > 0 {
				sb.WriteString(";\n")
			}
			sb.WriteString(g)
			raw := core.RawJSON(c)
			rep.CaseIndex = append(rep.CaseIndex, raw)
			rep.Evaluations++
			core.Bump(rep, "mode:"+strings.SplitN(c.Mode, ":", 2)[0])
			for _, t := range tags {
				core.Bump(rep, t)
			}
			c2 := c
			c2.Mode = ""
			key := string(core.RawJSON(c2))
			if nt && !seen[key] {
				rep.Nontrivial++
			}
			seen[key] = true
			if len(rep.Samples) < 3 && nt && ((c.Kind == "add") != (len(rep.Samples) == 1)) {
				rep.Samples = append(rep.Samples, c)
			}
			rep.Violations = append(rep.Violations, vs...)
		}
		sb.WriteString("\n].\nDefinition M := Eval vm_compute in mismatches kfcase_ok cases.\nPrint M.\n")
		return sb.String()
	}})
}

// ---------------------------------------------------------------- replay

func fmtPms(ps []pm) string {
	out := []string{}
	for _, p := range ps {
		k := "nil"
		if p.hasKey {
			k = fmt.Sprintf("%q", p.key)
		}
		out = append(out, fmt.Sprintf("{topic %q key %s value %q size %d}", p.topic, k, p.value, p.size))
	}
	return "[" + strings.Join(out, " ") + "]"
}

func replay(cs json.RawMessage) string {
	var c kcase
	if err := json.Unmarshal(cs, &c); err != nil {
		return "bad case: " + err.Error()
	}
	if err := validate(c); err != nil {
		return "bad case: " + err.Error()
	}
	var sb strings.Builder
	var vs []core.Violation
	if c.Kind == "add" {
		_, r := buildBatch(*c.Cfg, c.Msgs)
		fmt.Fprintf(&sb, "KafkaBatch %+v\n", *c.Cfg)
		for i, o := range r.obs {
			fmt.Fprintf(&sb, "Add %d %+v -> %s  full=%v empty=%v bytes=%d num=%d\n", i, c.Msgs[i], o.res, o.full, o.empty, o.bytes, o.num)
		}
		fmt.Fprintf(&sb, "payload %s\ntransactions %+v\n", fmtPms(r.produced), r.txns)
		vs = monitorAdd(*c.Cfg, c.Msgs, r, c)
	} else {
		r := runTransport(c.Steps)
		if r.infra != "" {
			fmt.Fprintf(&sb, "INFRASTRUCTURE: %s\n", r.infra)
			return sb.String()
		}
		for i, o := range r.obs {
			s := c.Steps[i]
			fmt.Fprintf(&sb, "batch %d (not-kafka=%v result=%s rejected=%v cancel=%q): ", i, s.Other, s.Result, s.Rejected, s.Cancel)
			if o.sent != nil {
				fmt.Fprintf(&sb, "SendMessages%s ", fmtPms(*o.sent))
			} else {
				sb.WriteString("no SendMessages ")
			}
			if o.written != nil {
				fmt.Fprintf(&sb, "written %+v\n", *o.written)
			} else {
				sb.WriteString("nothing written\n")
			}
		}
		fmt.Fprintf(&sb, "offered %d of %d batches; stopped=%v terminated=%v producer.Close=%d txnsWritten closed=%v stats=%v\n",
			len(r.obs), len(c.Steps), r.stopped, r.terminated, r.closes, r.chanClosed, r.stats)
		vs = monitorRun(c.Steps, r, c)
	}
	for _, v := range vs {
		fmt.Fprintf(&sb, "MONITOR %s [%s]: %s\n", v.Property, v.Signature, v.What)
	}
	return sb.String()
}
