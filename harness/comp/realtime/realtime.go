//go:build verif

// Package realtime holds the two wall-clock components.  They TEST the runtime residue that no
// executable model exhibits (timer delivery, select fairness between a ticker and a busy input):
//
//	BATCHERRT (C16): a continuously fed real batch is still flushed within max age / idle age
//	                 plus a tick, and memory pressure is relieved at the next tick;
//	CLIENTRT  (C18): standby status updates keep flowing while data streams steadily, while the
//	                 connection is idle, and while the output channel is blocked.
//
// Bounds are generous (hundreds of milliseconds of slack) and a case is reported only if it fails
// three times in a row, so that scheduler hiccups cannot raise an alarm.  No Coq-side cases.
package realtime

import (
	"context"
	"encoding/binary"
	"encoding/json"
	"fmt"
	"github.com/Nextdoor/pg-bifrost.git/app/config"
	"github.com/Nextdoor/pg-bifrost.git/partitioner"
	"github.com/Nextdoor/pg-bifrost.git/transport/transporters/kafka"
	"github.com/Nextdoor/pg-bifrost.git/transport/transporters/kinesis"
	"github.com/Shopify/sarama"
	awskinesis "github.com/aws/aws-sdk-go/service/kinesis"
	"math/rand"
	"strconv"
	"strings"
	"sync"
	"time"

	"verifharness/core"

	"github.com/Nextdoor/pg-bifrost.git/marshaller"
	"github.com/Nextdoor/pg-bifrost.git/replication"
	rclient "github.com/Nextdoor/pg-bifrost.git/replication/client"
	"github.com/Nextdoor/pg-bifrost.git/replication/client/conn"
	"github.com/Nextdoor/pg-bifrost.git/shutdown"
	"github.com/Nextdoor/pg-bifrost.git/stats"
	"github.com/Nextdoor/pg-bifrost.git/transport"
	gbatch "github.com/Nextdoor/pg-bifrost.git/transport/batch"
	rbatcher "github.com/Nextdoor/pg-bifrost.git/transport/batcher"
	"github.com/Nextdoor/pg-bifrost.git/transport/progress"
	"github.com/cevaris/ordered_map"
	"github.com/jackc/pglogrepl"
	"github.com/jackc/pgx/v5/pgproto3"
)

// ======================= BATCHERRT =======================

type BCase struct {
	Kind      string `json:"kind"` // trickle-one-key | trickle-many-keys | idle-key-beside-busy-key | memory-pressure | backlog
	TickMs    int    `json:"tick_ms"`
	IdleAgeMs int    `json:"idle_age_ms"`
	MaxAgeMs  int    `json:"max_age_ms"`
	GapMs     int    `json:"gap_ms"`      // time between records
	DurMs     int    `json:"duration_ms"` // length of the trickle
	Keys      int    `json:"keys"`
	MemLimit  int64  `json:"mem_limit,omitempty"`
	RecBytes  int    `json:"rec_bytes,omitempty"`
	// Flavour: which batch type the batcher fills - "" / "generic" (S3, RabbitMQ, stdout), "kafka", "kinesis"
	// (the real factories): the age rules read the BATCH's own create/modify times
	Flavour string `json:"flavour,omitempty"`
}

type bResult struct {
	WorstMs     float64 `json:"worst_wait_ms"`
	BoundMs     float64 `json:"bound_ms"`
	Records     int     `json:"records"`
	Undelivered int     `json:"undelivered_at_end"`
	What        string  `json:"what,omitempty"`
}

const slackMs = 250

// backlogN: records waiting on the input when a backlog case starts (consumed in about a second)
const backlogN = 400000

func runBatcher(c BCase) bResult {
	sh := shutdown.NewShutdownHandler()
	in := make(chan *marshaller.MarshalledMessage)
	if c.Kind == "backlog" {
		// a backlog that does not depend on how fast a feeder is: the input is a buffered channel that already
		// holds backlogN records when the batcher starts; until they are consumed a record is always waiting
		in = make(chan *marshaller.MarshalledMessage, backlogN)
		for i := 0; i < backlogN; i++ {
			rec := []byte(fmt.Sprintf("%020d", i+1))
			in <- &marshaller.MarshalledMessage{Operation: "INSERT", Table: "public.t", Json: rec, TimeBasedKey: "7-1", WalStart: uint64(i + 1), Transaction: "7", PartitionKey: fmt.Sprintf("k%d", i%c.Keys)}
		}
	}
	seenCh := make(chan []*progress.Seen, 1024)
	writtenCh := make(chan *ordered_map.OrderedMap, 1024)
	statsCh := make(chan stats.Stat, 1<<16)
	go func() {
		for range statsCh {
		}
	}()
	mem := int64(1) << 40
	if c.MemLimit > 0 {
		mem = c.MemLimit
	}
	var fac transport.BatchFactory = gbatch.NewGenericBatchFactory(1 << 20)
	switch c.Flavour {
	case "kafka":
		fac = kafka.NewBatchFactory(map[string]interface{}{kafka.ConfVarKafkaTopic: "t", kafka.ConfVarKafkaMaxMessageBytes: 1 << 30,
			kafka.ConfVarKafkaBatchSize: 1 << 20, kafka.ConfVarKafkaPartitionMethod: "random"})
	case "kinesis":
		fac = kinesis.NewBatchFactory(map[string]interface{}{config.VAR_NAME_PARTITION_METHOD: partitioner.PART_METHOD_TABLENAME})
	}
	b := rbatcher.NewBatcher(sh, in, seenCh, writtenCh, statsCh, c.TickMs, fac, 2, c.IdleAgeMs, c.MaxAgeMs, 64, mem, rbatcher.BATCH_ROUTING_ROUND_ROBIN)
	started := time.Now()
	go b.StartBatching()
	var mu sync.Mutex
	fedAt := map[uint64]time.Time{}
	gotAt := map[uint64]time.Time{}
	var wg sync.WaitGroup
	for _, ch := range b.GetOutputChans() {
		wg.Add(1)
		go func(ch chan transport.Batch) {
			defer wg.Done()
			for bt := range ch {
				now := time.Now()
				mu.Lock()
				// every record carries its number in the first 20 bytes of its JSON
				note := func(j []byte) {
					if len(j) >= 20 {
						if n, err := strconv.ParseUint(string(j[:20]), 10, 64); err == nil {
							gotAt[n] = now
						}
					}
				}
				switch p := bt.GetPayload().(type) {
				case []*marshaller.MarshalledMessage:
					for _, m := range p {
						note(m.Json)
					}
				case []*sarama.ProducerMessage:
					for _, m := range p {
						if v, ok := m.Value.(sarama.ByteEncoder); ok {
							note([]byte(v))
						}
					}
				case []*awskinesis.PutRecordsRequestEntry:
					for _, r := range p {
						note(r.Data)
					}
				}
				mu.Unlock()
			}
		}(ch)
	}
	go func() {
		for {
			select {
			case <-seenCh:
			case <-writtenCh:
			case <-sh.TerminateCtx.Done():
				return
			}
		}
	}()
	id := uint64(1)
	feed := func(key string) {
		n := c.RecBytes
		if n < 20 {
			n = 20
		}
		rec := make([]byte, n)
		for i := range rec {
			rec[i] = 'x'
		}
		mu.Lock()
		my := id
		id++
		fedAt[my] = time.Now()
		mu.Unlock()
		copy(rec, fmt.Sprintf("%020d", my))
		m := &marshaller.MarshalledMessage{Operation: "INSERT", Table: "public.t", Json: rec, TimeBasedKey: "7-1", WalStart: my, Transaction: "7", PartitionKey: key}
		select {
		case in <- m:
		case <-time.After(2 * time.Second): // the batcher stopped taking input: the bound check will say so
		}
	}
	start := time.Now()
	if c.Kind == "idle-key-beside-busy-key" {
		feed("quiet")
	}
	if c.Kind == "backlog" {
		// judged on the FIRST hand-over: the batches opened by the first records are max-age due long before
		// the backlog is consumed; a tick must come by and flush them although input never pauses
		bound := float64(c.MaxAgeMs + 2*c.TickMs + slackMs)
		deadline := started.Add(time.Duration(bound*4) * time.Millisecond)
		// keep the backlog alive for 2.5 x the bound however fast the batcher consumes: four refillers top the
		// channel up whenever it is less than half full
		stopRefill := make(chan struct{})
		var rw sync.WaitGroup
		for f := 0; f < 4; f++ {
			rw.Add(1)
			go func(f int) {
				defer rw.Done()
				n := backlogN + f
				for time.Since(started) < time.Duration(bound*2.5)*time.Millisecond {
					select {
					case <-stopRefill:
						return
					default:
					}
					if len(in) > cap(in)/2 {
						time.Sleep(200 * time.Microsecond)
						continue
					}
					for k := 0; k < 2000; k++ {
						n += 4
						m := &marshaller.MarshalledMessage{Operation: "INSERT", Table: "public.t", Json: []byte(fmt.Sprintf("%020d", n)), TimeBasedKey: "7-1", WalStart: uint64(n), Transaction: "7", PartitionKey: fmt.Sprintf("k%d", n%c.Keys)}
						select {
						case in <- m:
						default:
						}
					}
				}
			}(f)
		}
		defer func() { close(stopRefill); rw.Wait() }()
		first, leftAtFirst := -1.0, 0
		for time.Now().Before(deadline) {
			mu.Lock()
			n := len(gotAt)
			if n > 0 {
				for _, g := range gotAt {
					if ms := float64(g.Sub(started)) / 1e6; first < 0 || ms < first {
						first = ms
					}
				}
			}
			left := len(in)
			mu.Unlock()
			if n > 0 || left == 0 {
				leftAtFirst = left
				break
			}
			time.Sleep(time.Millisecond)
		}
		sh.CancelFunc()
		wg.Wait()
		close(statsCh)
		res := bResult{BoundMs: bound, Records: backlogN, WorstMs: first, Undelivered: leftAtFirst}
		if first < 0 || first > bound {
			late := "none within 4 x the bound"
			if first >= 0 {
				late = fmt.Sprintf("after %.0f ms", first)
			}
			res.What = fmt.Sprintf("backlog: with %d records waiting on the batcher's input from the start, the first batch reached a worker %s (tick %d ms, idle age %d ms, max age %d ms, bound incl. %d ms slack: %.0f ms): ticks are not served while input is waiting", backlogN, late, c.TickMs, c.IdleAgeMs, c.MaxAgeMs, slackMs, bound)
		}
		return res
	}
	for c.Kind != "backlog" && time.Since(start) < time.Duration(c.DurMs)*time.Millisecond {
		mu.Lock()
		cur := id
		mu.Unlock()
		k := "busy"
		if c.Keys > 1 {
			k = fmt.Sprintf("k%d", int(cur)%c.Keys)
		}
		feed(k)
		time.Sleep(time.Duration(c.GapMs) * time.Millisecond)
	}
	// bound on how long a record may wait for its batch to be handed over WHILE input keeps coming
	bound := float64(c.MaxAgeMs + 2*c.TickMs + slackMs)
	end := time.Now()
	tail := time.Duration(c.MaxAgeMs+3*c.TickMs+slackMs) * time.Millisecond // let the tail flush
	if c.Kind == "memory-pressure" {
		tail = time.Duration(3*c.TickMs) * time.Millisecond
	}
	time.Sleep(tail)
	sh.CancelFunc()
	wg.Wait()
	close(statsCh)
	res := bResult{BoundMs: bound, Records: len(fedAt)}
	mu.Lock()
	defer mu.Unlock()
	if c.Kind == "memory-pressure" {
		// ages are huge: only memory pressure can flush.  Three ticks after the input stopped the
		// batches still open must hold less than the soft limit.
		open := 0
		for i := range fedAt {
			if _, ok := gotAt[i]; !ok {
				open++
			}
		}
		res.Undelivered = open
		res.BoundMs = float64(c.MemLimit)
		res.WorstMs = float64(open * c.RecBytes)
		if int64(open*c.RecBytes) >= c.MemLimit {
			res.What = fmt.Sprintf("memory-pressure: %d bytes are still held in open batches three ticks after the input stopped, soft limit %d (only memory pressure can flush in this case)", open*c.RecBytes, c.MemLimit)
		}
		return res
	}
	for i, f := range fedAt {
		g, ok := gotAt[i]
		wait := end.Sub(f) // not delivered while the trickle ran: it waited at least until the end
		if ok {
			wait = g.Sub(f)
		} else {
			res.Undelivered++
		}
		if ms := float64(wait) / 1e6; ms > res.WorstMs {
			res.WorstMs = ms
		}
	}
	if res.Undelivered > 0 {
		// the input has been silent for max age + 3 ticks (+ slack), the workers take whatever is offered:
		// every batch became due (max age bounds the wait whatever the idle age is) and a tick came by
		res.What = fmt.Sprintf("%s: %d of %d records had not been handed to a worker %d ms after the input went silent (tick %d ms, idle age %d ms, max age %d ms): an open batch is only looked at while input keeps arriving", c.Kind, res.Undelivered, res.Records, c.MaxAgeMs+3*c.TickMs+slackMs, c.TickMs, c.IdleAgeMs, c.MaxAgeMs)
	} else if res.WorstMs > bound {
		res.What = fmt.Sprintf("%s: a record waited %.0f ms for its batch to reach a worker while input kept arriving every %d ms (tick %d ms, idle age %d ms, max age %d ms, bound incl. %d ms slack: %.0f ms)", c.Kind, res.WorstMs, c.GapMs, c.TickMs, c.IdleAgeMs, c.MaxAgeMs, slackMs, bound)
	}
	return res
}

// ======================= CLIENTRT =======================

type CCase struct {
	Kind       string `json:"kind"` // steady-data | idle | blocked-output | mixed
	ProgressMs int    `json:"progress_ms"`
	RecvMs     int    `json:"receive_timeout_ms"` // how long an idle receive blocks before timing out
	GapMs      int    `json:"gap_ms"`
	DurMs      int    `json:"duration_ms"`
}

type cResult struct {
	Sends      int     `json:"status_updates"`
	WorstGapMs float64 `json:"worst_gap_ms"`
	BoundMs    float64 `json:"bound_ms"`
	What       string  `json:"what,omitempty"`
}

type rtWorld struct {
	mu     sync.Mutex
	sends  []time.Time
	c      CCase
	start  time.Time
	lsn    uint64
	n      int
	closed bool
}

type rtMgr struct{ w *rtWorld }
type rtConn struct{ w *rtWorld }

func (m *rtMgr) GetConn(context.Context) (conn.Conn, error) { return &rtConn{m.w}, nil }
func (m *rtMgr) GetConnWithStartLsn(context.Context, uint64) (conn.Conn, error) {
	return &rtConn{m.w}, nil
}
func (m *rtMgr) Close()          {}
func (c *rtConn) IsClosed() bool { return false }
func (c *rtConn) SendStandbyStatus(context.Context, pglogrepl.StandbyStatusUpdate) error {
	c.w.mu.Lock()
	c.w.sends = append(c.w.sends, time.Now())
	c.w.mu.Unlock()
	return nil
}
func (c *rtConn) StartReplication(context.Context, string, pglogrepl.LSN, pglogrepl.StartReplicationOptions) error {
	return nil
}
func (c *rtConn) Close(context.Context) error { return nil }
func (c *rtConn) CreateReplicationSlot(context.Context, string, string, pglogrepl.CreateReplicationSlotOptions) (pglogrepl.CreateReplicationSlotResult, error) {
	return pglogrepl.CreateReplicationSlotResult{}, nil
}
func (c *rtConn) DropReplicationSlot(context.Context, string, pglogrepl.DropReplicationSlotOptions) error {
	return nil
}
func (c *rtConn) IdentifySystem(context.Context) (pglogrepl.IdentifySystemResult, error) {
	return pglogrepl.IdentifySystemResult{}, nil
}

func rtXlog(wal uint64, payload string) pgproto3.BackendMessage {
	d := make([]byte, 25+len(payload))
	d[0] = pglogrepl.XLogDataByteID
	binary.BigEndian.PutUint64(d[1:9], wal)
	binary.BigEndian.PutUint64(d[9:17], wal)
	copy(d[25:], payload)
	return &pgproto3.CopyData{Data: d}
}

func (c *rtConn) ReceiveMessage(ctx context.Context) (pgproto3.BackendMessage, error) {
	w := c.w
	w.n++
	if w.n == 1 {
		d := make([]byte, 18)
		d[0] = pglogrepl.PrimaryKeepaliveMessageByteID
		binary.BigEndian.PutUint64(d[1:9], 1000)
		return &pgproto3.CopyData{Data: d}, nil
	}
	el := time.Since(w.start)
	phaseIdle := w.c.Kind == "idle" || (w.c.Kind == "mixed" && (el/(150*time.Millisecond))%2 == 1)
	if phaseIdle {
		select {
		case <-time.After(time.Duration(w.c.RecvMs) * time.Millisecond):
		case <-ctx.Done():
		}
		return nil, fmt.Errorf("timeout: %w", context.DeadlineExceeded)
	}
	// nil messages (pglogrepl hands back (nil, nil) for messages it swallows) and keepalives that do not
	// ask for a reply: the client reads on; only its progress ticker makes it speak
	rtKeepalive := func() pgproto3.BackendMessage {
		d := make([]byte, 18)
		d[0] = pglogrepl.PrimaryKeepaliveMessageByteID
		binary.BigEndian.PutUint64(d[1:9], 1000)
		return &pgproto3.CopyData{Data: d}
	}
	switch w.c.Kind {
	case "nil-messages":
		time.Sleep(time.Duration(w.c.GapMs) * time.Millisecond)
		return nil, nil
	case "keepalives-no-reply":
		time.Sleep(time.Duration(w.c.GapMs) * time.Millisecond)
		return rtKeepalive(), nil
	case "keepalive-then-nil":
		// every slow read (a keepalive) is followed at once by a nil message, so a tick that fired during
		// the slow read is found at the head of the nil iteration
		if w.n%2 == 0 {
			time.Sleep(time.Duration(w.c.GapMs+w.c.ProgressMs) * time.Millisecond)
			return rtKeepalive(), nil
		}
		return nil, nil
	}
	time.Sleep(time.Duration(w.c.GapMs) * time.Millisecond)
	w.lsn++
	if w.lsn == 1 {
		return rtXlog(1001, "BEGIN 7"), nil // one long transaction: BEGIN, then changes for the whole run
	}
	return rtXlog(1000+w.lsn, "table public.t: INSERT: id[integer]:1"), nil
}

func runClient(c CCase) cResult {
	sh := shutdown.NewShutdownHandler()
	statsCh := make(chan stats.Stat, 1<<16)
	go func() {
		for range statsCh {
		}
	}()
	w := &rtWorld{c: c, start: time.Now()}
	r := rclient.New(sh, statsCh, &rtMgr{w}, 2, time.Duration(c.ProgressMs)*time.Millisecond)
	out := r.GetOutputChan()
	progressCh := make(chan uint64)
	done := make(chan struct{})
	go func() { r.Start(progressCh); close(done) }()
	stopDrain := make(chan struct{})
	go func() {
		var m *replication.WalMessage
		for {
			select {
			case m = <-out:
				_ = m
				if c.Kind == "blocked-output" || c.Kind == "blocked-output-long" {
					// downstream takes a message only now and then: the client mostly sits in its
					// blocked-output loop (long: ONE blockage of 1.4 s, dozens of progress intervals: the status
					// updates must not thin out the longer it lasts)
					pause := 120 * time.Millisecond
					if c.Kind == "blocked-output-long" {
						pause = 1400 * time.Millisecond
					}
					select {
					case <-time.After(pause):
					case <-stopDrain:
						return
					}
				}
			case <-stopDrain:
				return
			}
		}
	}()
	time.Sleep(time.Duration(c.DurMs) * time.Millisecond)
	end := time.Now()
	sh.CancelFunc()
	close(stopDrain)
	select {
	case <-done:
	case <-time.After(2 * time.Second):
	}
	close(statsCh)
	w.mu.Lock()
	defer w.mu.Unlock()
	res := cResult{Sends: len(w.sends), BoundMs: float64(c.ProgressMs + c.RecvMs + slackMs)}
	prev := w.start
	for _, s := range w.sends {
		if s.After(end) {
			break
		}
		if g := float64(s.Sub(prev)) / 1e6; g > res.WorstGapMs {
			res.WorstGapMs = g
		}
		prev = s
	}
	if g := float64(end.Sub(prev)) / 1e6; g > res.WorstGapMs {
		res.WorstGapMs = g
	}
	if res.WorstGapMs > res.BoundMs {
		res.What = fmt.Sprintf("%s: PostgreSQL heard nothing from the client for %.0f ms (progress interval %d ms, receive timeout %d ms, bound incl. %d ms slack: %.0f ms; %d status updates in %d ms)", c.Kind, res.WorstGapMs, c.ProgressMs, c.RecvMs, slackMs, res.BoundMs, res.Sends, c.DurMs)
	}
	return res
}

// a case counts as failing only if it fails three times in a row
func thrice(f func() string) string {
	var last string
	for i := 0; i < 3; i++ {
		last = f()
		if last == "" {
			return ""
		}
	}
	return last
}

func init() {
	core.Register(core.Component{Name: "BATCHERRT", Replay: func(cs json.RawMessage) string {
		var c BCase
		if err := json.Unmarshal(cs, &c); err != nil {
			return "bad case: " + err.Error()
		}
		r := runBatcher(c)
		j, _ := json.Marshal(r)
		return string(j) + "\n"
	}, Run: func(rng *rand.Rand, n int, corpusDir string, rep *core.Report) string {
		rep.Rule = "wall-clock TEST of the runtime residue of C16 (not a proof): the real StartBatching with tick 20-30 ms, idle age 40-60 ms, max age 80-120 ms, a batch size never reached, fed steadily every 2-5 ms for 0.6-0.9 s on one key, on many keys, beside an idle key, under a small memory limit, or as a BACKLOG (400 000 records wait in the input channel when the batcher starts: the first batch must reach a worker within the bound although a record is always waiting); every record must reach a worker within max age + 2 ticks + 250 ms slack (memory-pressure cases: three ticks after the input stopped the open batches hold less than the soft limit) while input keeps arriving. A case is reported only after failing 3 times in a row. Non-trivial: every case (hundreds of records each)."
		kinds := []string{"trickle-one-key", "trickle-many-keys", "idle-key-beside-busy-key", "memory-pressure", "backlog"}
		cases := make([]BCase, n)
		for i := range cases {
			c := BCase{Kind: kinds[i%len(kinds)], TickMs: 20 + rng.Intn(11), GapMs: 2 + rng.Intn(4), DurMs: 600 + rng.Intn(300), Keys: 1,
				Flavour: []string{"generic", "kafka", "kinesis"}[(i/len(kinds))%3]}
			c.IdleAgeMs = 2 * c.TickMs
			c.MaxAgeMs = 4 * c.TickMs
			if c.Kind == "trickle-many-keys" {
				c.Keys = 5 + rng.Intn(40)
			}
			if c.Kind == "backlog" {
				c.Keys, c.GapMs, c.DurMs = 3, 0, 500+rng.Intn(200)
			}
			if c.Kind == "memory-pressure" {
				c.RecBytes = 1000
				c.MemLimit = 20000
				c.IdleAgeMs, c.MaxAgeMs = 100000, 100000 // only memory pressure can flush
				c.Keys = 3
			}
			cases[i] = c
		}
		whats := make([]string, n)
		results := make([]bResult, n)
		var wg sync.WaitGroup
		sem := make(chan struct{}, 4)
		for i := range cases {
			wg.Add(1)
			go func(i int) {
				defer wg.Done()
				sem <- struct{}{}
				whats[i] = thrice(func() string { results[i] = runBatcher(cases[i]); return results[i].What })
				<-sem
			}(i)
		}
		wg.Wait()
		for i, c := range cases {
			rep.CaseIndex = append(rep.CaseIndex, core.RawJSON(c))
			rep.Evaluations++
			rep.Nontrivial++
			core.Bump(rep, "kind:"+c.Kind)
			rep.Distribution["records"] += results[i].Records
			if len(rep.Samples) < 2 {
				rep.Samples = append(rep.Samples, map[string]interface{}{"case": c, "result": results[i]})
			}
			if whats[i] != "" {
				rep.Violations = append(rep.Violations, core.Violation{Property: "C16", Signature: map[bool]string{true: "record-not-handed-over-after-the-input-went-silent/", false: "record-waits-too-long-under-steady-input/"}[strings.Contains(whats[i], "after the input went silent")] + c.Kind, What: whats[i], Case: c})
			}
		}
		return "(* BATCHERRT has no model-side cases: wall-clock test only *)\n"
	}})
	core.Register(core.Component{Name: "CLIENTRT", Replay: func(cs json.RawMessage) string {
		var c CCase
		if err := json.Unmarshal(cs, &c); err != nil {
			return "bad case: " + err.Error()
		}
		r := runClient(c)
		j, _ := json.Marshal(r)
		return string(j) + "\n"
	}, Run: func(rng *rand.Rand, n int, corpusDir string, rep *core.Report) string {
		rep.Rule = "wall-clock TEST of the runtime residue of C18 (not a proof): the real client with a 20-40 ms progress interval over a fake connection that streams one long transaction every 2-6 ms, or is idle (receives time out after 30-60 ms), or whose consumer blocks (output channel full; also ONE blockage of 1.4 s), or alternates, or sends only nil messages / keepalives without reply request / a slow keepalive followed at once by a nil message; the longest silence towards PostgreSQL must stay below progress interval + receive timeout + 250 ms slack. A case is reported only after failing 3 times in a row. Non-trivial: every case."
		kinds := []string{"steady-data", "idle", "blocked-output", "mixed", "nil-messages", "keepalives-no-reply", "keepalive-then-nil", "blocked-output-long"}
		cases := make([]CCase, n)
		for i := range cases {
			cases[i] = CCase{Kind: kinds[i%len(kinds)], ProgressMs: 20 + rng.Intn(21), RecvMs: 30 + rng.Intn(31), GapMs: 2 + rng.Intn(5), DurMs: 700 + rng.Intn(300)}
			if cases[i].Kind == "blocked-output-long" {
				cases[i].DurMs = 1500
			}
		}
		whats := make([]string, n)
		results := make([]cResult, n)
		var wg sync.WaitGroup
		sem := make(chan struct{}, 4)
		for i := range cases {
			wg.Add(1)
			go func(i int) {
				defer wg.Done()
				sem <- struct{}{}
				whats[i] = thrice(func() string { results[i] = runClient(cases[i]); return results[i].What })
				<-sem
			}(i)
		}
		wg.Wait()
		for i, c := range cases {
			rep.CaseIndex = append(rep.CaseIndex, core.RawJSON(c))
			rep.Evaluations++
			rep.Nontrivial++
			core.Bump(rep, "kind:"+c.Kind)
			rep.Distribution["status-updates"] += results[i].Sends
			if len(rep.Samples) < 2 {
				rep.Samples = append(rep.Samples, map[string]interface{}{"case": c, "result": results[i]})
			}
			if whats[i] != "" {
				rep.Violations = append(rep.Violations, core.Violation{Property: "C18", Signature: "status-updates-stop-flowing/" + c.Kind, What: whats[i], Case: c})
			}
		}
		_ = strings.TrimSpace
		return "(* CLIENTRT has no model-side cases: wall-clock test only *)\n"
	}})
}
